(* C17Cover.v — every instruction a variant's generator can emit, under every
   name a RISC-V tracer may print for it, is a key of the table the runner
   selects for that isolation solution (key sets regenerated from /repo). *)
From Coq Require Import ZArith List String Ascii Bool.
From Gigue Require Import Types GenTables LogParse.
Import ListNotations.
Open Scope string_scope.

(* gigue-internal constructor names -> assembler mnemonics *)
Definition canon (n : string) : string :=
  if String.eqb n "andr" then "and" else if String.eqb n "orr" then "or" else n.

(* pseudo-instruction names of the RISC-V assembler manual that a tracer may
   print instead of a base mnemonic the generators emit *)
Definition pseudo_names : list string :=
  ["nop"; "li"; "mv"; "not"; "sext.w"; "seqz"; "snez"; "sltz"; "sgtz"; "beqz"; "bnez"; "blez"; "bgez";
   "bltz"; "bgtz"; "j"; "jr"; "ret"].

(* what the log regexes keep of a mnemonic: the leading \w run *)
Definition logged_name (n : string) : string :=
  string_of_list_ascii (fst (span is_word (list_ascii_of_string n))).

Definition frag_names (f : fragment) : list string := map (fun p => gi_name (fst p)) f.

Definition random_names : list string :=
  b_R_INSTRUCTIONS ++ b_I_INSTRUCTIONS ++ b_I_INSTRUCTIONS_LOAD ++ b_U_INSTRUCTIONS ++ b_S_INSTRUCTIONS
  ++ b_B_INSTRUCTIONS ++ ["jal"].
Definition stub_names : list string := ["auipc"; "addi"; "jalr"; "bne"; "jal"].

Definition emitted (frags : list fragment) (extra : list string) : list string :=
  random_names ++ stub_names ++ flat_map frag_names frags ++ extra.

Definition emitted_base := emitted [f_base_pro_leaf; f_base_pro_call; f_base_epi_leaf; f_base_epi_call;
  f_base_int_pro; f_base_int_epi; f_base_nop; f_base_ret] [].
Definition emitted_tramp := emitted [f_tramp_pro_leaf; f_tramp_pro_call; f_tramp_epi_leaf; f_tramp_epi_call;
  f_tramp_int_pro; f_tramp_int_epi; f_tramp_tramp_call; f_tramp_tramp_ret; f_tramp_nop; f_tramp_ret] [].
Definition emitted_rimiss := emitted [f_rimiss_pro_leaf; f_rimiss_pro_call; f_rimiss_epi_leaf;
  f_rimiss_epi_call; f_rimiss_int_pro; f_rimiss_int_epi; f_rimiss_tramp_call; f_rimiss_tramp_ret;
  f_rimiss_nop; f_rimiss_ret] [].
Definition emitted_rimifull := emitted [f_rimifull_pro_leaf; f_rimifull_pro_call; f_rimifull_epi_leaf;
  f_rimifull_epi_call; f_rimifull_int_pro; f_rimifull_int_epi; f_rimifull_tramp_call; f_rimifull_tramp_ret;
  f_rimifull_nop; f_rimifull_ret] (b_RIMI_S_INSTRUCTIONS ++ b_RIMI_I_INSTRUCTIONS_LOAD ++ ["chdom"]).
Definition emitted_fixer := emitted [f_fixer_pro_leaf; f_fixer_pro_call; f_fixer_epi_leaf; f_fixer_epi_call;
  f_fixer_int_pro; f_fixer_int_epi; f_fixer_tramp_call; f_fixer_tramp_ret; f_fixer_nop; f_fixer_ret]
  ["cficall"; "cfiret"].

Definition classifiable (tbl : list (string * string * string)) (n : string) : bool :=
  existsb (fun e => let '(k, ty, _) := e in
                    String.eqb k (logged_name (canon n)) && existsb (String.eqb ty) t_type_keys) tbl.

Definition covers (tbl : list (string * string * string)) (names : list string) : bool :=
  forallb (classifiable tbl) (names ++ pseudo_names).

Lemma all_tables_cover :
  covers t_runner_table_base emitted_base && covers t_runner_table_tramp emitted_tramp
  && covers t_runner_table_rimiss emitted_rimiss && covers t_runner_table_rimifull emitted_rimifull
  && covers t_runner_table_fixer emitted_fixer = true.
Proof. vm_compute. reflexivity. Qed.
