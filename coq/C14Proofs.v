(* C14Proofs.v — identification is sound and unambiguous, for the regenerated
   tables (re-proved on every run). *)
From Coq Require Import ZArith List String Bool Lia.
From Gigue Require Import Types Bits Isa IsaProofs Enc EncProofs Disasm DisasmProofs GenTables
  CtorSpec C12Defs C12Proofs C14Defs.
Import ListNotations.
Open Scope string_scope.
Open Scope Z_scope.

Arguments mkR : simpl never.
Arguments mkI : simpl never.
Arguments mkU : simpl never.
Arguments mkJ : simpl never.
Arguments mkS : simpl never.
Arguments mkB : simpl never.
Arguments mkRoCC : simpl never.
Arguments generate : simpl never.
Arguments wf : simpl never.
Arguments Z.land : simpl never.
Arguments Z.div : simpl never.
Arguments Z.modulo : simpl never.
Arguments Z.mul : simpl never.
Arguments Z.add : simpl never.

Definition M1 := 127.
Definition M2 := 28799.
Definition M3 := 4261441663.
Definition M4 := 4227887231.
Definition MF := 4294967295.

Definition enc_table (c : ctor) : list iinfo :=
  match ctor_ext c with ExtNone => base_table | ExtRimi => rimi_table | ExtFixer => fixer_table end.

Definition shifts64 := ["slli"; "srli"; "srai"].
Definition shifts32 := ["slliw"; "srliw"; "sraiw"].
Definition consts := ["ret"; "nop"; "ebreak"; "ecall"; "retdom"].

(* the bits every word emitted by constructor c has in common *)
Definition pattern (c : ctor) : option (Z * Z) :=
  let cls := fst c in let n := snd c in
  match lookup_info (enc_table c) (own_key c) with
  | None => None
  | Some e =>
      let op := ii_opcode e in let f3 := ii_funct3 e in let f7 := ii_funct7 e in
      if cls ==s "RInstruction" then Some (M3, op + f3 * 4096 + f7 * 33554432)
      else if cls ==s "FIXERCustomInstruction" then
        match ii_x e with
        | Some (xd, xs1, xs2) => Some (M3, op + (4 * xd + 2 * xs1 + xs2) * 4096 + f7 * 33554432)
        | None => None
        end
      else if (cls ==s "IInstruction") || (cls ==s "RIMIIInstruction") then
        if mem n shifts64 then Some (M4, op + f3 * 4096 + (f7 / 2) * 67108864)
        else if mem n shifts32 then Some (M3, op + f3 * 4096 + f7 * 33554432)
        else if mem n consts then
          match apply_c c [] with Some g => Some (MF, generate g) | None => None end
        else Some (M2, op + f3 * 4096)
      else if (cls ==s "UInstruction") || (cls ==s "JInstruction") then Some (M1, op)
      else Some (M2, op + f3 * 4096)
  end.

Definition has_pattern (c : ctor) : Prop :=
  forall args g, in_range c args = true -> apply_c c args = Some g ->
  exists m v, pattern c = Some (m, v) /\ Z.land m (generate g) = v.

Lemma fields3 a0 a1 a2 a3 a4 a5 :
  0 <= a0 < 128 -> 0 <= a1 < 32 -> 0 <= a2 < 8 -> 0 <= a3 < 32 -> 0 <= a4 < 32 -> 0 <= a5 < 128 ->
  let w := mkword a0 a1 a2 a3 a4 a5 in
  Z.land 127 w = a0 /\ Z.land 28799 w = a0 + a2 * 4096 /\
  Z.land 4261441663 w = a0 + a2 * 4096 + a5 * 33554432 /\
  Z.land 4227887231 w = a0 + a2 * 4096 + (a5 / 2) * 67108864.
Proof.
  intros H0 H1 H2 H3 H4 H5 w.
  destruct (word_fields a0 a1 a2 a3 a4 a5 H0 H1 H2 H3 H4 H5) as (E0 & E1 & E2 & E3 & E4 & E5 & Hw).
  fold w in E0, E1, E2, E3, E4, E5.
  rewrite land_7F, land_707F, land_FE00707F, land_FC00707F.
  rewrite E0, E2, E5. repeat split; reflexivity.
Qed.

Ltac arity' H :=
  match type of H with
  | in_range _ ?args = true =>
      destruct args as [|a1 [|a2 [|a3 [|a4 rest]]]]; try (exfalso; cbn in H; discriminate H)
  end.

Ltac start' :=
  let args := fresh "args" in let g := fresh "g" in let H := fresh "Hwf" in let Hg := fresh "Hg" in
  intros args g H Hg; arity' H;
  unfold in_range in H; cbn in H;
  unfold apply_c in Hg; cbn in Hg; inversion Hg; subst g; clear Hg;
  wfb; unfold wf in *; cbn [is_w_shift] in *; wfb;
  eexists; eexists; (split; [vm_compute; reflexivity|]).

Ltac use_fields a0 a1 a2 a3 a4 a5 :=
  let F := fresh "F" in
  assert (F := fields3 a0 a1 a2 a3 a4 a5); cbv zeta in F;
  destruct F as (F1 & F2 & F3 & F4); [try lia; unfold usig; pows; Z.div_mod_to_equations; lia ..|].

Lemma R_pattern : Forall has_pattern (map (fun n => ("RInstruction", n)) r_ctor_names).
Proof.
  repeat constructor; start'; rewrite generate_mkR by lia;
    match goal with |- Z.land _ (mkword ?a0 ?a1 ?a2 ?a3 ?a4 ?a5) = _ => use_fields a0 a1 a2 a3 a4 a5 end;
    assumption.
Qed.

Ltac fin :=
  match goal with |- Z.land _ (mkword ?a0 ?a1 ?a2 ?a3 ?a4 ?a5) = _ => use_fields a0 a1 a2 a3 a4 a5 end;
  first [assumption
        | (match goal with |- Z.land ?M ?w = _ =>
             match goal with F : Z.land M w = _ |- _ => rewrite F end end;
           try lia; Z.div_mod_to_equations; lia)].

Ltac pat_I := start'; rewrite generate_mkI by lia; unfold enc_I; fin.
Ltac pat_S := start'; rewrite generate_mkS by lia; unfold enc_S; fin.
Ltac pat_B := start'; rewrite generate_mkB by lia; unfold enc_B; fin.
Ltac pat_J := start'; rewrite generate_mkJ by (cbn; lia); unfold enc_J; fin.

Lemma I_plain_pattern : Forall has_pattern (map (fun n => ("IInstruction", n)) i_plain_names).
Proof. repeat constructor; pat_I. Qed.
Lemma jr_pattern : has_pattern ("IInstruction", "jr").
Proof. pat_I. Qed.
Lemma S_pattern : Forall has_pattern (map (fun n => ("SInstruction", n)) s_ctor_names).
Proof. repeat constructor; pat_S. Qed.
Lemma B_pattern : Forall has_pattern (map (fun n => ("BInstruction", n)) b_ctor_names).
Proof. repeat constructor; pat_B. Qed.
Lemma RIMI_I_pattern : Forall has_pattern (map (fun n => ("RIMIIInstruction", n)) rimi_i_names).
Proof. repeat constructor; pat_I. Qed.
Lemma RIMI_S_pattern : Forall has_pattern (map (fun n => ("RIMISInstruction", n)) rimi_s_names).
Proof. repeat constructor; pat_S. Qed.
Lemma J_pattern : Forall has_pattern [("JInstruction", "jal"); ("JInstruction", "j")].
Proof. repeat constructor; pat_J. Qed.

Lemma land47_range sh : 0 <= sh < 64 -> 0 <= Z.land sh 47 < 64.
Proof.
  intros H.
  pose proof (sweep (fun z => (0 <=? Z.land z 47) && (Z.land z 47 <? 64)) 64 eq_refl sh ltac:(lia)) as S.
  cbv beta in S. apply andb_prop in S. destruct S as [S1 S2].
  apply Z.leb_le in S1. apply Z.ltb_lt in S2. lia.
Qed.

Lemma shift_pattern :
  Forall has_pattern (map (fun n => ("IInstruction", n)) ["slli"; "srli"; "srai"; "slliw"; "srliw"; "sraiw"]).
Proof.
  repeat constructor; start';
    try (pose proof (land47_range a3 ltac:(lia)) as HL);
    try (rewrite land31_id by lia);
    rewrite generate_mkI_shift by (try lia; auto); fin.
Qed.

Lemma U_pattern : Forall has_pattern [("UInstruction", "auipc"); ("UInstruction", "lui")].
Proof.
  repeat constructor; start';
    rewrite generate_mkU by (try lia; Z.div_mod_to_equations; lia);
    unfold M1; rewrite land_7F; unfold f_op;
    pose proof (Z.mod_pos_bound a2 4294967296 ltac:(lia));
    Z.div_mod_to_equations; lia.
Qed.

Lemma FIXER_pattern :
  Forall has_pattern [("FIXERCustomInstruction", "cficall"); ("FIXERCustomInstruction", "cfiret")].
Proof. repeat constructor; start'; rewrite generate_mkRoCC by lia; fin. Qed.

Lemma const_pattern :
  Forall has_pattern [("IInstruction", "ret"); ("IInstruction", "nop"); ("IInstruction", "ebreak");
                      ("IInstruction", "ecall"); ("RIMIIInstruction", "retdom")].
Proof. repeat constructor; start'; vm_compute; reflexivity. Qed.

Theorem all_patterns : forall c, In c all_ctors -> has_pattern c.
Proof.
  intros c Hin. unfold all_ctors in Hin.
  repeat (apply in_app_or in Hin; destruct Hin as [Hin|Hin]).
  - exact (proj1 (Forall_forall _ _) R_pattern c Hin).
  - rewrite map_app in Hin. apply in_app_or in Hin. destruct Hin as [Hin|Hin].
    + exact (proj1 (Forall_forall _ _) I_plain_pattern c Hin).
    + cbn [map] in Hin.
      assert (Hsh := proj1 (Forall_forall _ _) shift_pattern c).
      assert (Hco := proj1 (Forall_forall _ _) const_pattern c).
      cbn [map In] in Hsh, Hco.
      destruct Hin as [E|[E|[E|[E|[E|[E|[E|[E|[E|[E|[E|[]]]]]]]]]]]];
        try (apply Hsh; tauto); try (apply Hco; tauto).
      subst c. apply jr_pattern.
  - assert (HU := proj1 (Forall_forall _ _) U_pattern c).
    assert (HJ := proj1 (Forall_forall _ _) J_pattern c).
    cbn [In] in HU, HJ, Hin.
    destruct Hin as [E|[E|[E|[E|[]]]]]; try (apply HU; tauto); apply HJ; tauto.
  - exact (proj1 (Forall_forall _ _) S_pattern c Hin).
  - exact (proj1 (Forall_forall _ _) B_pattern c Hin).
  - rewrite map_app in Hin. apply in_app_or in Hin. destruct Hin as [Hin|Hin].
    + exact (proj1 (Forall_forall _ _) RIMI_I_pattern c Hin).
    + assert (Hco := proj1 (Forall_forall _ _) const_pattern c). cbn [map In] in Hco, Hin.
      destruct Hin as [E|[]]. apply Hco; tauto.
  - exact (proj1 (Forall_forall _ _) RIMI_S_pattern c Hin).
  - exact (proj1 (Forall_forall _ _) FIXER_pattern c Hin).
Qed.

(* ------------------------------------------------ table-level decisions *)

Fixpoint first_match_ok (tbl : list iinfo) (m v : Z) (key ty : string) : bool :=
  match tbl with
  | [] => false
  | e :: tl =>
      if covered m v (ii_mask e) (ii_val e)
      then (ii_name e ==s key) && (ii_type e ==s ty)
      else conflict m v (ii_mask e) (ii_val e) && first_match_ok tl m v key ty
  end.

Lemma first_match_sound tbl m v key ty w :
  Z.land m w = v -> first_match_ok tbl m v key ty = true ->
  exists e, get_instruction_info tbl w = Some e /\ ii_name e = key /\ ii_type e = ty.
Proof.
  intros Hw. induction tbl as [|e tl IH]; cbn [first_match_ok get_instruction_info]; [discriminate|].
  destruct (covered m v (ii_mask e) (ii_val e)) eqn:Hc.
  - intros H. apply andb_prop in H. destruct H as [H1 H2].
    apply String.eqb_eq in H1. apply String.eqb_eq in H2.
    unfold matches. rewrite (covered_sound w m v _ _ Hw Hc), Z.eqb_refl.
    exists e. auto.
  - intros H. apply andb_prop in H. destruct H as [H1 H2].
    unfold matches. pose proof (conflict_sound w m v _ _ Hw H1) as Hne.
    apply Z.eqb_neq in Hne. rewrite Hne. apply IH. exact H2.
Qed.

Definition others_conflict (tbl : list iinfo) (m v : Z) (key : string) : bool :=
  forallb (fun B => (ii_name B ==s key) || conflict m v (ii_mask B) (ii_val B)) (real_entries tbl).

Definition ctor_table_ok (c : ctor) : bool :=
  match pattern c with
  | Some (m, v) =>
      first_match_ok (table_for c) m v (own_key c) (class_type c)
      && others_conflict (table_for c) m v (own_key c)
  | None => false
  end.

Lemma all_ctors_table_ok : forallb ctor_table_ok all_ctors = true.
Proof. vm_compute. reflexivity. Qed.

Theorem all_identified : forall c, In c all_ctors -> ctor_identified c.
Proof.
  intros c Hin args g Hr Hg.
  destruct (all_patterns c Hin args g Hr Hg) as (m & v & Hp & Hw).
  pose proof (proj1 (forallb_forall _ _) all_ctors_table_ok c Hin) as Hok.
  unfold ctor_table_ok in Hok. rewrite Hp in Hok. apply andb_prop in Hok. destruct Hok as [H1 _].
  exact (first_match_sound _ _ _ _ _ _ Hw H1).
Qed.

Theorem all_unambiguous : forall c, In c all_ctors -> ctor_unambiguous c.
Proof.
  intros c Hin args g Hr Hg B HB Hne.
  destruct (all_patterns c Hin args g Hr Hg) as (m & v & Hp & Hw).
  pose proof (proj1 (forallb_forall _ _) all_ctors_table_ok c Hin) as Hok.
  unfold ctor_table_ok in Hok. rewrite Hp in Hok. apply andb_prop in Hok. destruct Hok as [_ H2].
  unfold others_conflict in H2. rewrite forallb_forall in H2. specialize (H2 B HB).
  apply orb_prop in H2. destruct H2 as [H2|H2].
  - apply String.eqb_eq in H2. contradiction.
  - unfold matches. apply Z.eqb_neq. exact (conflict_sound _ _ _ _ _ Hw H2).
Qed.

(* helper constants *)
Lemma helper_consts_all :
  forallb helper_consts_ok (base_table ++ rimi_table ++ fixer_table) = true.
Proof. vm_compute. reflexivity. Qed.

(* distinct non-alias definitions have distinct (mask, value) patterns *)
Definition pat_eqb (a b : iinfo) : bool := (ii_mask a =? ii_mask b) && (ii_val a =? ii_val b).
Definition no_duplicate_patterns (tbl : list iinfo) : bool :=
  let r := real_entries tbl in
  forallb (fun a => forallb (fun b => (ii_name a ==s ii_name b) || negb (pat_eqb a b)) r) r.
Lemma no_dup_all :
  no_duplicate_patterns base_table && no_duplicate_patterns (dict_union rimi_table base_table)
  && no_duplicate_patterns (dict_union fixer_table base_table) = true.
Proof. vm_compute. reflexivity. Qed.
