(* GenWF9F.v — Layer A, positional structure of every method of the FIXER variant:
   prologue ++ body' ++ epilogue, where body' is the random body with the
   FIVE-instruction tagged call stubs (auipc t3 ; addi t3 ; cficall t3 ; auipc ra ; jalr)
   written at the (pairwise disjoint, 6 apart) slots and every other position still
   holding its random instruction.  (Same development as GenWF9.v, stub length 5.) *)
From Coq Require Import ZArith List String Bool Lia.
From Gigue Require Import Types Bits Isa IsaProofs Enc EncProofs GenTables Builder Samplers Generator GenLemmas
  Machine MachineLemmas ImageSem GenWF GenWFProps SliceLemmas GenWF2 GenWF3 SplitProofs
  BodyExec BodyBridge GenWF5 FrameExec CodeMem SwitchExec GenWF6 GenWF8 GenWF9.
Import ListNotations.
Open Scope list_scope.
Open Scope Z_scope.

Lemma fixer_call_len offset stub : fixer_method_base_call offset = OK stub -> List.length stub = 5%nat.
Proof.
  unfold fixer_method_base_call. destruct (Z.abs offset <? 20); [discriminate|].
  cbn [sequence bind]. destruct (build_method_base_call (offset - 12)) as [call|e] eqn:E.
  - pose proof (base_call_len _ _ E) as Hz. unfold zlen in Hz.
    cbn. intros H. inversion H; subst. cbn [List.length]. lia.
  - cbn. discriminate.
Qed.

(* ---------------------------------------------------------------- pointwise frame of patching *)
Lemma patch_calls_pointF c self : c_variant c = GFixer -> forall idx cms instrs out,
  Forall (fun i => 0 <= i /\ i + 5 <= zlen instrs) idx ->
  patch_calls c self instrs idx cms = OK out ->
  forall p, (forall i, In i idx -> ~ (Z.to_nat i <= p < Z.to_nat i + 5)%nat) -> nth_error out p = nth_error instrs p.
Proof.
  intros Hnf. induction idx as [|i it IH]; intros cms instrs out Hidx; cbn [patch_calls].
  - intros H; inversion H; subst. reflexivity.
  - destruct cms as [|cm ct]; [intros H; inversion H; subst; reflexivity|].
    destruct (method_base_call _ _) as [stub|e] eqn:Es; cbn [bind]; [|discriminate].
    assert (Hl : List.length stub = 5%nat).
    { unfold method_base_call in Es. rewrite Hnf in Es. cbn [bvariant_of] in Es. exact (fixer_call_len _ _ Es). }
    inversion Hidx as [|? ? [Hi0 Hi2] Hit]; subst.
    assert (Hb : (Z.to_nat i + List.length stub <= List.length instrs)%nat) by (unfold zlen in *; lia).
    intros H p Hp.
    rewrite (IH ct (replace_slice instrs (Z.to_nat i) stub) out); [| |exact H|].
    + rewrite nth_error_replace_slice by exact Hb. rewrite Hl.
      specialize (Hp i (or_introl eq_refl)).
      destruct (Nat.ltb_spec p (Z.to_nat i)); [reflexivity|].
      destruct (Nat.ltb_spec p (Z.to_nat i + 5)); [lia|reflexivity].
    + eapply Forall_impl; [|exact Hit]. intros x [A B]. split; [exact A|].
      unfold zlen in *. rewrite replace_slice_len by exact Hb. exact B.
    + intros x Hx. apply Hp. right. exact Hx.
Qed.

(* ---------------------------------------------------------------- the structure *)
Definition coveredF (idx : list Z) (p : nat) : Prop := exists i, In i idx /\ (Z.to_nat i <= p < Z.to_nat i + 5)%nat.

Definition method_structF (c : config) (ms : list method) (m : method) : Prop :=
  exists pro body epi body0 idx,
    m_instrs m = pro ++ body ++ epi /\
    build_prologue (bvariant_of (c_variant c)) m_used_s_regs m_local_vars_nb (negb (m_is_leaf m)) = OK pro /\
    build_epilogue (bvariant_of (c_variant c)) m_used_s_regs m_local_vars_nb (negb (m_is_leaf m)) = OK epi /\
    Forall (body_dec c) body0 /\ List.length body0 = Z.to_nat (m_body m) /\ List.length body = List.length body0 /\
    Forall2 (site_ok c ms m) idx (m_callees m) /\ disjoint_slots (m_call_size m) idx /\
    (forall j, (j < List.length body)%nat -> ~ coveredF idx (List.length pro + j) -> nth_error body j = nth_error body0 j).

Definition fresh_struct (c : config) (m : method) : Prop := body_struct c m /\ m_callees m = [].

Lemma fresh_method_structF c ms m : fresh_struct c m -> method_structF c ms m.
Proof.
  intros [(pro & body & epi & Ei & Hp & He & Hb & Hl) Hc].
  exists pro, body, epi, body, []. rewrite Hc. repeat split; try assumption; try reflexivity; constructor.
Qed.

Lemma method_struct_extF c ms ms' m :
  (forall j x, nth_error ms j = Some x -> exists x', nth_error ms' j = Some x' /\ m_addr x' = m_addr x) ->
  method_structF c ms m -> method_structF c ms' m.
Proof.
  intros Hext (pro & body & epi & body0 & idx & H1 & H2 & H3 & H4 & H5 & H6 & H7 & H8 & H9).
  exists pro, body, epi, body0, idx. repeat split; try assumption.
  eapply Forall2_weaken; [|exact H7]. intros i cal. apply site_ok_ext. exact Hext.
Qed.

(* ---------------------------------------------------------------- phase 2 invariant *)
Definition InvMF (c : config) (todo : list nat) (ms : list method) : Prop :=
  Forall (method_structF c ms) ms /\
  (forall j x, In j todo -> nth_error ms j = Some x -> fresh_struct c x).

Lemma nth_error_Forall {A} (P : A -> Prop) l j x : Forall P l -> nth_error l j = Some x -> P x.
Proof. intros H Hn. rewrite Forall_forall in H. apply H. eapply nth_error_In. exact Hn. Qed.

Lemma Forall_set_nth {A} (P : A -> Prop) l i x : Forall P l -> P x -> Forall P (set_nth l i x).
Proof.
  intros H Hx. unfold set_nth. apply Forall_app. split; [apply Forall_firstn; exact H|].
  constructor; [exact Hx|apply Forall_skipn; exact H].
Qed.

Lemma patch_with_structF c start e ms d es todo id m :
  c_variant c = GFixer -> cfg_facts c ->
  P2o c start e ms d es -> InvMF c (id :: todo) ms -> NoDup (id :: todo) -> nth_error ms id = Some m ->
  hoare (objs_are ms d es)
    (let pc := possible_callees d (m_depth m) in
     let* picks := draw_choices (zlen pc) (m_calls m) WNone in
     let callee_ids := map (fun i => nth (Z.to_nat i) pc O) picks in
     if nat_mem id callee_ids then fail ERecursive else
     let* cms := get_methods callee_ids in
     if existsb (fun cm => nat_mem id (m_callees cm)) cms then fail EMutual else
     let cs := m_call_size m in
     let* idx := draw_sample (m_pro m + m_body m - cs) (m_pro m - 1) (- cs) (zlen callee_ids) in
     let* ins := lift (patch_calls c (m_addr m) (m_instrs m) idx cms) in
     set_method id (mk_method (m_addr m) (m_body m) (m_calls m) (m_depth m) (m_call_size m) (m_pro m)
                      (m_epi m) ins callee_ids))
    (fun _ s' => InvMF c todo (g_methods s')).
Proof.
  intros Hnf F HP [HM HF] Hnd Hn. pose proof (objs_are_stable ms d es) as St. cbv zeta.
  assert (Hm2 : mok2 c m).
  { pose proof (p2_methods _ _ _ _ _ _ HP) as Ms. rewrite Forall_forall in Ms. apply Ms. eapply nth_error_In. exact Hn. }
  destruct Hm2 as [Sh [Len Hbody]].
  destruct (HF id m (or_introl eq_refl) Hn) as [(pro & body0 & epi & Ei & Hpro & Hepi & Hdec & Hl0) Hcal0].
  eapply hoare_bind; [apply draw_choices_spec; exact St|]. intros picks. apply hoare_pure_pre2. intros _ _.
  destruct (nat_mem id _); [apply hoare_fail|].
  eapply hoare_bind; [apply get_methods_nth|]. intros cms. apply hoare_pure_pre. intros Hcms.
  destruct (existsb _ cms); [apply hoare_fail|].
  eapply hoare_bind; [apply draw_sample_spec; exact St|]. intros idx.
  apply hoare_pure_pre. intros (Hk & Hidx & Hdist).
  eapply hoare_bind; [apply hoare_lift|]. intros ins. apply hoare_pure_pre. intros Hins.
  intros s (E1 & E2 & E3). unfold set_method. cbn [fst snd g_methods]. rewrite E1.
  set (callee_ids := map (fun i => nth (Z.to_nat i) (possible_callees d (m_depth m)) O) picks) in *.
  set (m' := mk_method (m_addr m) (m_body m) (m_calls m) (m_depth m) (m_call_size m) (m_pro m) (m_epi m) ins callee_ids).
  fold (set_nth ms id m').
  destruct (frame_lens_nonneg_at (c_variant c) (m_is_leaf m)) as [Hp0 He0].
  pose proof (call_size_pos_at (c_variant c)) as Hcs.
  assert (Ecs : m_call_size m = ga_call_size (attrs_of (c_variant c))) by apply (sh_cs c m Sh).
  assert (Hbounds : Forall (fun i => m_pro m <= i /\ i + ga_call_size (attrs_of (c_variant c)) <= m_pro m + m_body m) idx).
  { eapply Forall_impl; [|exact Hidx]. intros i [Hi _]. cbv beta. rewrite <- Ecs. lia. }
  assert (Hdis : disjoint_slots (ga_call_size (attrs_of (c_variant c))) idx).
  { eapply (sample_disjoint (m_pro m + m_body m - m_call_size m) (m_pro m - 1)); [exact Hcs| |exact Hdist].
    eapply Forall_impl; [|exact Hidx]. intros v [Hv Hm]. cbv beta. split; [exact Hv|].
    rewrite <- Ecs. replace (m_call_size m) with (- - m_call_size m) at 2 by lia. exact Hm. }
  assert (Hl : List.length idx = List.length cms).
  { apply Forall2_len in Hcms. unfold zlen in Hk. lia. }
  destruct (patch_calls_sites c (m_addr m) (m_pro m) (m_pro m + m_body m) idx cms (m_instrs m) ins
              ltac:(rewrite (sh_pro c m Sh); exact Hp0) ltac:(rewrite Len, (sh_epi c m Sh); lia)
              Hbounds Hdis Hl Hins) as [F2 _].
  (* call size of the FIXER variant *)
  assert (Hcs3 : 5 <= ga_call_size (attrs_of (c_variant c))).
  { rewrite Hnf; vm_compute; discriminate. }
  (* lengths *)
  destruct (frame_lengths_at (c_variant c) (m_is_leaf m) pro epi Hpro Hepi) as [Lp Le].
  assert (Lpro : zlen pro = m_pro m) by (rewrite Lp; symmetry; apply (sh_pro c m Sh)).
  assert (Lepi : zlen epi = m_epi m) by (rewrite Le; symmetry; apply (sh_epi c m Sh)).
  assert (Lb0 : Z.of_nat (List.length body0) = m_body m) by (rewrite Hl0; apply Z2Nat.id; exact Hbody).
  assert (Lins : List.length ins = List.length (m_instrs m)).
  { pose proof (patch_calls_len c (m_addr m) (m_pro m) (m_pro m + m_body m) idx cms (m_instrs m) ins
                  ltac:(rewrite (sh_pro c m Sh); exact Hp0) ltac:(rewrite Len, (sh_epi c m Sh); lia) Hbounds Hins) as Hz.
    unfold zlen in Hz. lia. }
  assert (Hpt : forall p, (forall i, In i idx -> ~ (Z.to_nat i <= p < Z.to_nat i + 5)%nat) ->
                          nth_error ins p = nth_error (m_instrs m) p).
  { apply (patch_calls_pointF c (m_addr m) Hnf idx cms (m_instrs m) ins); [|exact Hins].
    eapply Forall_impl; [|exact Hbounds]. intros i [A1 A2]. rewrite Len. rewrite (sh_epi c m Sh). lia. }
  assert (Hidx_in : forall i, In i idx -> m_pro m <= i /\ i + 5 <= m_pro m + m_body m).
  { intros i Hi. rewrite Forall_forall in Hbounds. specialize (Hbounds i Hi). lia. }
  assert (Hstruct : method_structF c ms m').
  { exists pro, (window ins (List.length pro) (List.length body0)), epi, body0, idx.
    assert (Lpn : List.length pro = Z.to_nat (m_pro m)) by (unfold zlen in Lpro; lia).
    split.
    { unfold m'. cbn [m_instrs]. apply rebuild_three.
      - rewrite Lins, Ei. reflexivity.
      - intros p Hp. rewrite Hpt.
        + rewrite Ei. apply nth_error_app1. exact Hp.
        + intros i Hi. specialize (Hidx_in i Hi). lia.
      - intros p Hp. rewrite Hpt.
        + rewrite Ei. rewrite nth_error_app2 by lia. rewrite nth_error_app2 by lia. f_equal. lia.
        + intros i Hi. specialize (Hidx_in i Hi). lia. }
    assert (Hleaf : m_is_leaf m' = m_is_leaf m) by reflexivity.
    split; [rewrite Hleaf; exact Hpro|]. split; [rewrite Hleaf; exact Hepi|]. split; [exact Hdec|].
    split; [exact Hl0|]. split.
    { unfold window. rewrite firstn_length, skipn_length. rewrite Lins, Ei, !app_length. lia. }
    split.
    { cbn [m_callees]. unfold m'.
      assert (F2' : Forall2 (fun i cm => (exists stub, method_base_call (bvariant_of (c_variant c)) (m_addr cm - (m_addr m + i * 4)) = OK stub /\
                                      window ins (Z.to_nat i) (List.length stub) = stub) /\
                                     (m_pro m <= i /\ i + m_call_size m <= m_pro m + m_body m)) idx cms).
      { clear - F2 Hbounds Ecs. induction F2; inversion Hbounds; subst; constructor; [|auto].
        split; [assumption|]. rewrite Ecs. assumption. }
      eapply (Forall2_compose _ (fun id cm => nth_error ms id = Some cm)); [|exact F2'|exact Hcms].
      intros i cm cal ((stub & Hs & Hw) & Hb) Hcal. exists cm, stub. cbn [m_addr m_instrs m_pro m_call_size m_body]. auto. }
    split; [unfold m'; cbn [m_call_size]; rewrite Ecs; exact Hdis|].
    intros j Hj Hnc. rewrite nth_error_window.
    assert (Hjl : (j < List.length body0)%nat).
    { unfold window in Hj. rewrite firstn_length, skipn_length in Hj. lia. }
    destruct (Nat.ltb_spec j (List.length body0)); [|lia].
    rewrite Hpt.
    - rewrite Ei. rewrite nth_error_app2 by lia. rewrite nth_error_app1 by lia. f_equal. lia.
    - intros i Hi Hc. apply Hnc. exists i. split; [exact Hi|exact Hc]. }
  (* the new state *)
  assert (Hlt : (id < List.length ms)%nat) by (apply nth_error_Some; congruence).
  assert (Ext : forall j x, nth_error ms j = Some x ->
                exists x', nth_error (set_nth ms id m') j = Some x' /\ m_addr x' = m_addr x).
  { intros j x Hj. rewrite nth_error_set_nth by exact Hlt. destruct (Nat.eqb_spec j id) as [->|Hne].
    - exists m'. rewrite Hn in Hj. inversion Hj; subst x. auto.
    - exists x. auto. }
  split.
  - apply Forall_set_nth.
    + eapply Forall_impl; [|exact HM]. intros x. apply method_struct_extF. exact Ext.
    + eapply method_struct_extF; [exact Ext|exact Hstruct].
  - intros j x Hj Hx. rewrite nth_error_set_nth in Hx by exact Hlt.
    destruct (Nat.eqb_spec j id) as [->|Hne].
    + exfalso. inversion Hnd; subst. contradiction.
    + apply (HF j x (or_intror Hj) Hx).
Qed.

Lemma fill_method_fresh P c m :
  stable P -> cfg_facts c -> hoare P (fill_method c m) (fun m' s => P s /\ fresh_struct c m').
Proof.
  intros St F. unfold fill_method.
  eapply hoare_bind; [apply hoare_lift|]. intros pro. apply hoare_pure_pre. intros Hpro.
  eapply hoare_bind; [apply fill_body_dec; assumption|]. intros body. apply hoare_pure_pre. intros [Hbody Hl].
  eapply hoare_bind; [apply hoare_lift|]. intros epi. apply hoare_pure_pre. intros Hepi.
  intros s H. cbn. split; [exact H|]. split; [|reflexivity].
  exists pro, body, epi. cbn [m_instrs m_body]. unfold m_is_leaf. cbn [m_calls]. auto.
Qed.

(* phase 1: every method is as filled and has no callee yet *)
Definition InvF (c : config) (s : gstate) : Prop :=
  Forall (fresh_struct c) (g_methods s).

Lemma InvF_stable c : stable (InvF c).
Proof. intros s s' H (E & _ & _) _. unfold InvF in *. rewrite E. exact H. Qed.

Lemma InvF_add c s m :
  InvF c s -> fresh_struct c m ->
  InvF c (mk_gs (g_script s) (g_methods s ++ [m]) (g_depths s) (g_elements s)).
Proof.
  intros H Hm. unfold InvF in *. cbn [g_methods]. apply Forall_app. split; [exact H|].
  constructor; [exact Hm|constructor].
Qed.

Lemma fill_cases_fresh P c : forall ms,
  stable P -> cfg_facts c ->
  hoare P (fill_cases c ms) (fun ms' s => P s /\ Forall (fresh_struct c) ms').
Proof.
  induction ms as [|m tl IH]; intros St F; cbn [fill_cases].
  - intros s H. cbn. split; [exact H|constructor].
  - eapply hoare_bind; [apply fill_method_fresh; assumption|]. intros m'. apply hoare_pure_pre. intros Hm.
    eapply hoare_bind; [apply IH; assumption|]. intros rest. apply hoare_pure_pre. intros Hrest.
    intros s H. cbn. split; [exact H|constructor; assumption].
Qed.

Lemma add_methods_InvF c : forall ms',
  Forall (fresh_struct c) ms' -> hoare (InvF c) (add_methods ms') (fun _ s => InvF c s).
Proof.
  induction ms' as [|m tl IH]; intros HF; cbn [add_methods].
  - intros s H. cbn. exact H.
  - inversion HF as [|? ? Hm Htl]; subst.
    eapply hoare_bind with (Q := fun _ s => InvF c s).
    + intros s H. unfold add_method. cbn. apply InvF_add; assumption.
    + intros id. eapply hoare_bind; [apply IH; exact Htl|]. intros rest s H. cbn. exact H.
Qed.

Lemma register_methods_InvF c ids : forall ms, hoare (InvF c) (register_methods ids ms) (fun _ s => InvF c s).
Proof.
  induction ids as [|id it IH]; intros ms; cbn [register_methods].
  - intros s H. cbn. exact H.
  - destruct ms as [|m mt]; [intros s H; cbn; exact H|].
    eapply hoare_bind with (Q := fun _ s => InvF c s); [intros s H; unfold register_method; cbn; exact H|].
    intro. apply IH.
Qed.

Lemma add_element_InvF c addr remaining :
  cfg_facts c -> hoare (InvF c) (add_element c addr remaining) (fun _ s => InvF c s).
Proof.
  intros F. unfold add_element. pose proof (InvF_stable c) as St.
  eapply hoare_bind; [apply draw_choices_spec; exact St|]. intros ks. apply hoare_pure_pre2. intros _ _.
  destruct ks as [|k [|? ?]]; cbv beta iota; [apply hoare_fail| |destruct k; apply hoare_fail].
  assert (PIC : hoare (InvF c)
      (let* z := m_ztp c in
       let cases := Z.min z remaining in
       let maddr := addr + switch_size cases * 4 in
       let* ms := size_cases c (Z.to_nat cases) maddr in
       let* ms' := fill_cases c ms in
       let* sw := lift (switch_instrs c addr 0 ms') in
       let* ids := add_methods ms' in
       let* _ := push_element (EPic (mk_pic addr cases ids sw)) in
       let* _ := register_methods ids ms' in
       ret (switch_size cases + sum_totals ms', cases)) (fun _ s => InvF c s)).
  { eapply hoare_bind; [apply m_ztp_spec; exact St|]. intros z. cbv zeta.
    eapply hoare_bind; [apply size_cases_spec; exact St|]. intros ms.
    eapply hoare_bind; [apply fill_cases_fresh; assumption|]. intros ms'. apply hoare_pure_pre. intros Hms.
    eapply hoare_bind; [apply hoare_lift|]. intros sw. apply hoare_pure_pre. intros _.
    eapply hoare_bind; [apply add_methods_InvF; exact Hms|]. intros ids.
    eapply hoare_bind with (Q := fun _ s => InvF c s); [intros s H; unfold push_element; cbn; exact H|]. intro.
    eapply hoare_bind; [apply register_methods_InvF|]. intro. intros s H. cbn. exact H. }
  destruct k as [|p|p]; [|exact PIC|exact PIC].
  eapply hoare_bind; [apply size_method_spec; exact St|]. intros m. apply hoare_pure_pre. intros _.
  eapply hoare_bind; [apply fill_method_fresh; assumption|]. intros m'. apply hoare_pure_pre. intros Hm.
  intros s H. unfold mbind, add_method, push_element, register_method, ret. cbn [fst snd g_script g_methods g_depths g_elements].
  exact (InvF_add c s m' H Hm).
Qed.

Lemma fill_loop_InvF c fuel : forall addr count,
  cfg_facts c -> hoare (InvF c) (fill_loop c fuel addr count) (fun _ s => InvF c s).
Proof.
  induction fuel as [|k IH]; intros addr count F; cbn [fill_loop].
  - destruct (c_nb_methods c <=? count); [intros s H; cbn; exact H|apply hoare_fail].
  - destruct (c_nb_methods c <=? count); [intros s H; cbn; exact H|].
    eapply hoare_bind; [apply add_element_InvF; exact F|]. intros [size nm]. apply IH. exact F.
Qed.

Lemma fill_jit_code_InvF c start :
  cfg_facts c -> hoare (InvF c) (fill_jit_code c start) (fun _ s => InvF c s).
Proof.
  intros F. unfold fill_jit_code. pose proof (InvF_stable c) as St.
  eapply hoare_bind; [apply size_method_spec; exact St|]. intros m. apply hoare_pure_pre. intros _.
  eapply hoare_bind; [apply fill_method_fresh; assumption|]. intros m'. apply hoare_pure_pre. intros Hm.
  intros s H. unfold mbind at 1 2 3. unfold add_method, push_element, register_method.
  cbn [fst snd g_script g_methods g_depths g_elements].
  refine (fill_loop_InvF c _ _ _ F _ _). exact (InvF_add c s m' H Hm).
Qed.


(* ---------------------------------------------------------------- phase 2 traversal *)
Lemma InvM_weakenF c id todo ms : InvMF c (id :: todo) ms -> InvMF c todo ms.
Proof. intros [A B]. split; [exact A|]. intros j x Hj. apply B. right. exact Hj. Qed.

Lemma patch_method_structF c start e todo id :
  c_variant c = GFixer -> cfg_facts c -> NoDup (id :: todo) ->
  hoare (fun s => (P2 c start e s /\ pending (id :: todo) (g_methods s)) /\ InvMF c (id :: todo) (g_methods s))
        (patch_method c id)
        (fun _ s => (P2 c start e s /\ pending todo (g_methods s)) /\ InvMF c todo (g_methods s)).
Proof.
  intros Hnf F Hnd. apply hoare_conj.
  - eapply hoare_conseq; [|intros a s0 H0; exact H0|apply patch_method_spec2]. intros s [H _]. exact H.
  - intros s [[HP Hpend] HI]. unfold patch_method, mbind at 1, get_method.
    destruct (nth_error (g_methods s) id) as [m|] eqn:En; [|exact I].
    destruct (m_depth m =? 0); [cbn; apply (InvM_weakenF c id todo _ HI)|].
    exact (patch_with_structF c start e _ _ _ todo id m Hnf F HP HI Hnd En s (conj eq_refl (conj eq_refl eq_refl))).
Qed.

Lemma patch_ids_structF c start e : forall ids,
  c_variant c = GFixer -> cfg_facts c -> NoDup ids ->
  hoare (fun s => (P2 c start e s /\ pending ids (g_methods s)) /\ InvMF c ids (g_methods s)) (patch_ids c ids)
        (fun _ s => (P2 c start e s /\ pending [] (g_methods s)) /\ InvMF c [] (g_methods s)).
Proof.
  induction ids as [|id tl IH]; intros Hnf F Hnd; cbn [patch_ids].
  - intros s H. cbn. exact H.
  - eapply hoare_bind; [apply patch_method_structF; assumption|]. intro. apply IH; try assumption.
    inversion Hnd; assumption.
Qed.

Theorem gen_main_structF c :
  c_variant c = GFixer -> cfg_facts c -> 0 <= method_size c -> 1 <= c_nb_methods c ->
  hoare empty_objects (gen_main c) (fun img _ => Forall (method_structF c (im_methods img)) (im_methods img)).
Proof.
  intros Hnf F Hms Hnb. unfold gen_main.
  destruct (c_jit_start c <? c_int_start c); [apply hoare_fail|].
  destruct (c_nb_methods c =? 0); [apply hoare_fail|].
  pose proof empty_objects_stable as St.
  eapply hoare_bind with (Q := fun _ s => empty_objects s).
  { destruct (uses_tramp (c_variant c)).
    - eapply hoare_bind; [apply hoare_lift|]. intros t1. apply hoare_pure_pre. intros _.
      eapply hoare_bind; [apply hoare_lift|]. intros t2. apply hoare_pure_pre. intros _.
      intros s H. cbn. exact H.
    - intros s H. cbn. exact H. }
  intros tramps. cbv zeta.
  set (start := jit_start_al c + zlen (List.concat tramps) * 4).
  eapply hoare_bind.
  { apply hoare_conj; [apply fill_jit_code_spec2; assumption|].
    eapply hoare_conseq; [|intros a s0 H0; exact H0|apply (fill_jit_code_InvF c start F)].
    intros s (E1 & _ & _). unfold InvF. rewrite E1. constructor. }
  intros e.
  eapply hoare_bind with (Q := fun _ s => Forall (method_structF c (g_methods s)) (g_methods s)).
  { intros s [[H1 H2] HF]. unfold patch_jit_calls.
    destruct (P1_P2 c start e s H1 H2) as [HP Hpend]. rewrite (p2_ids _ _ _ _ _ _ HP).
    assert (HI : InvMF c (seq 0 (List.length (g_methods s))) (g_methods s)).
    { split.
      - eapply Forall_impl; [|exact HF]. intros m. apply fresh_method_structF.
      - intros j x _ Hx. eapply nth_error_Forall; eassumption. }
    pose proof (patch_ids_structF c start e _ Hnf F (seq_NoDup _ _) s (conj (conj HP Hpend) HI)) as G.
    destruct (patch_ids c _ s) as [[a s']|err]; [|exact I]. destruct G as [_ [G _]]. exact G. }
  intro.
  assert (St2 : stable (fun s => Forall (method_structF c (g_methods s)) (g_methods s))).
  { intros s s' A (E1 & _) _. rewrite E1. exact A. }
  eapply hoare_bind; [apply fill_interpretation_loop_stable; exact St2|]. intros ints.
  apply hoare_pure_pre. intros _.
  intros s HS. cbv beta zeta.
  assert (G : hoare (objs_are (g_methods s) (g_depths s) (g_elements s))
    (let* nop := lift nop_ in
     let* data := generate_data (c_data_strategy c) (c_data_size c) in
     let ss := match c_variant c with
               | GRimiSS | GRimiFull => zeros (Z.to_nat (align (c_ss_size c) 8))
               | _ => zeros 8
               end in
     ret (mk_image (map generate ints ++ repeat_z (generate nop)
                      (Z.to_nat ((jit_start_al c - (int_start_al c + zlen (map generate ints) * 4)) / 4)))
            (map generate (List.concat tramps) ++ flat_map (elt_words (g_methods s)) (g_elements s)) data ss
            (g_methods s) (g_elements s) tramps ints))
    (fun img _ => Forall (method_structF c (im_methods img)) (im_methods img))).
  { eapply hoare_bind; [apply hoare_lift|]. intros nop. apply hoare_pure_pre. intros _.
    eapply hoare_bind; [apply generate_data_spec; apply objs_are_stable|]. intros data.
    intros s0 _. cbn. exact HS. }
  exact (G s (conj eq_refl (conj eq_refl eq_refl))).
Qed.

Theorem run_gen_structF c script img rest :
  c_variant c = GFixer -> cfg_facts c -> 0 <= method_size c -> 1 <= c_nb_methods c ->
  run_gen c script = OK (img, rest) -> Forall (method_structF c (im_methods img)) (im_methods img).
Proof.
  intros Hnf F Hms Hnb H. unfold run_gen in H.
  pose proof (gen_main_structF c Hnf F Hms Hnb (mk_gs script [] [] []) (conj eq_refl (conj eq_refl eq_refl))) as G.
  destruct (gen_main c (mk_gs script [] [] [])) as [[im s]|e]; [|discriminate].
  inversion H; subst. exact G.
Qed.
