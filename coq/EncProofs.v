(* EncProofs.v — gigue's encoders, as modelled in Enc.v, compute the
   specification encoding (Isa.encode_spec) of the instruction each
   constructor is meant to build. *)
From Coq Require Import ZArith List String Bool Lia.
From Gigue Require Import Types Bits Isa IsaProofs Enc.
Import ListNotations.
Open Scope Z_scope.

(* ---------------------------------------------------------- lor as + *)

Lemma lor_disj a b K k :
  0 <= k -> K = 2 ^ k -> 0 <= a < K -> b mod K = 0 -> Z.lor a b = a + b.
Proof.
  intros Hk -> Ha Hb.
  assert (E : b = (b / 2 ^ k) * 2 ^ k).
  { pose proof (Z.div_mod b (2 ^ k) ltac:(apply Z.pow_nonzero; lia)). lia. }
  rewrite E. apply lor_add; assumption.
Qed.

Ltac side := first [lia | Z.div_mod_to_equations; lia].

(* eliminate one  Z.lor a b  whose low part is below K = 2^kk *)
Ltac lor_low K kk :=
  match goal with
  | |- context [Z.lor ?a ?b] =>
      first
        [ rewrite (lor_disj a b K kk ltac:(lia) eq_refl) by side
        | rewrite (Z.lor_comm a b);
          rewrite (lor_disj b a K kk ltac:(lia) eq_refl) by side ]
  end.

Lemma shiftl1 n : 0 <= n -> Z.shiftl 1 n = 2 ^ n.
Proof. intros; rewrite Z.shiftl_mul_pow2 by assumption; lia. Qed.

Lemma format_to_mod v n : 0 <= n -> format_to v n = Z.abs v mod 2 ^ n.
Proof. intros; unfold format_to; rewrite shiftl1 by assumption; apply land_ones_mod; assumption. Qed.

Lemma format_to_small v n : 0 <= n -> 0 <= v < 2 ^ n -> format_to v n = v.
Proof.
  intros Hn Hv. rewrite format_to_mod by assumption.
  rewrite Z.abs_eq by lia. apply Z.mod_small; assumption.
Qed.

Lemma format_to_aligned_spec v n :
  1 <= n -> format_to_aligned v n = ((Z.abs v / 2) mod 2 ^ (n - 1)) * 2.
Proof.
  intros Hn. unfold format_to_aligned. rewrite shiftl1 by lia.
  replace (2 ^ n - 2) with (Z.shiftl (Z.ones (n - 1)) 1).
  - rewrite land_field by lia. reflexivity.
  - rewrite Z.shiftl_mul_pow2 by lia. rewrite Z.ones_equiv.
    replace n with (1 + (n - 1)) at 2 by lia. rewrite Z.pow_add_r by lia. lia.
Qed.

Lemma to_unsigned_spec v n : 0 <= n -> - 2 ^ n <= v -> to_unsigned v n = if 0 <=? v then v else 2 ^ n + v.
Proof.
  intros Hn Hv. unfold to_unsigned. rewrite shiftl1 by assumption.
  destruct (Z.leb_spec 0 v); [reflexivity|]. rewrite Z.abs_neq by lia. lia.
Qed.

Ltac ft_small :=
  repeat match goal with
  | |- context [format_to ?v ?n] =>
      rewrite (format_to_small v n) by (first [lia | cbn; lia])
  end.

Ltac sh2mul :=
  repeat match goal with
  | |- context [Z.shiftl ?a ?n] => rewrite (shiftl_mul a n) by lia
  | |- context [Z.shiftr ?a ?n] => rewrite (shiftr_div a n) by lia
  end.

Ltac pows :=
  change (2 ^ 1) with 2 in *; change (2 ^ 5) with 32 in *; change (2 ^ 6) with 64 in *;
  change (2 ^ 7) with 128 in *; change (2 ^ 8) with 256 in *; change (2 ^ 9) with 512 in *;
  change (2 ^ 11) with 2048 in *; change (2 ^ 12) with 4096 in *; change (2 ^ 15) with 32768 in *;
  change (2 ^ 19) with 524288 in *; change (2 ^ 20) with 1048576 in *;
  change (2 ^ 25) with 33554432 in *; change (2 ^ 3) with 8 in *; change (2 ^ 13) with 8192 in *;
  change (2 ^ 21) with 2097152 in *; change (2 ^ 32) with 4294967296 in *;
  change (2 ^ 30) with 1073741824 in *.

Lemma land_1 x : Z.land x 1 = x mod 2.        Proof. apply (land_ones_mod x 1); lia. Qed.
Lemma land_15 x : Z.land x 15 = x mod 16.     Proof. apply (land_ones_mod x 4); lia. Qed.
Lemma land_31 x : Z.land x 31 = x mod 32.     Proof. apply (land_ones_mod x 5); lia. Qed.
Lemma land_63 x : Z.land x 63 = x mod 64.     Proof. apply (land_ones_mod x 6); lia. Qed.
Lemma land_255 x : Z.land x 255 = x mod 256.  Proof. apply (land_ones_mod x 8); lia. Qed.
Lemma land_1023 x : Z.land x 1023 = x mod 1024. Proof. apply (land_ones_mod x 10); lia. Qed.

(* ------------------------------------------------------------- R format *)

Lemma generate_mkR name op f3 rd rs1 rs2 f7 :
  0 <= op < 128 -> 0 <= f3 < 8 -> 0 <= rd < 32 -> 0 <= rs1 < 32 -> 0 <= rs2 < 32 -> 0 <= f7 < 128 ->
  generate (mkR name op f3 rd rs1 rs2 f7) = mkword op rd f3 rs1 rs2 f7.
Proof.
  intros. unfold mkR, generate, mkword. ft_small. sh2mul. pows.
  lor_low 128 7. lor_low 4096 12. lor_low 32768 15. lor_low 1048576 20. lor_low 33554432 25.
  reflexivity.
Qed.

(* ------------------------------------------------------------- I format *)

(* the 12-bit immediate field gigue stores for an immediate given either in
   signed form or as its unsigned 12-bit image *)
Lemma imm12_field imm : -2048 <= imm < 4096 -> format_to (to_unsigned imm 12) 12 = imm mod 4096.
Proof.
  intros H. rewrite to_unsigned_spec by (pows; lia). pows.
  destruct (Z.leb_spec 0 imm).
  - rewrite format_to_small by (pows; lia). symmetry; apply Z.mod_small; lia.
  - rewrite format_to_small by (pows; lia).
    rewrite <- (Z.mod_add imm 1 4096) by lia. symmetry. replace (imm + 1 * 4096) with (4096 + imm) by lia.
    apply Z.mod_small; lia.
Qed.

Lemma generate_mkI name op f3 rd rs1 imm :
  0 <= op < 128 -> 0 <= f3 < 8 -> 0 <= rd < 32 -> 0 <= rs1 < 32 -> -2048 <= imm < 4096 ->
  generate (mkI name op f3 rd rs1 imm 0) = enc_I op f3 rd rs1 imm.
Proof.
  intros. unfold mkI, generate, enc_I, mkword, usig. rewrite imm12_field by assumption.
  ft_small. sh2mul. pows.
  pose proof (Z.mod_pos_bound imm 4096 ltac:(lia)).
  lor_low 128 7. lor_low 4096 12. lor_low 32768 15. lor_low 1048576 20.
  rewrite Z.mul_0_l, Z.lor_0_r. Z.div_mod_to_equations; lia.
Qed.

(* shift-immediates: funct7 = 0 or 32, shift amount below 64 *)
Lemma generate_mkI_shift name op f3 rd rs1 sh f7 :
  0 <= op < 128 -> 0 <= f3 < 8 -> 0 <= rd < 32 -> 0 <= rs1 < 32 -> 0 <= sh < 64 ->
  (f7 = 0 \/ f7 = 32) ->
  generate (mkI name op f3 rd rs1 sh f7) = mkword op rd f3 rs1 (sh mod 32) (f7 + sh / 32).
Proof.
  intros Hop Hf3 Hrd Hrs1 Hsh Hf7. unfold mkI, generate, mkword.
  rewrite imm12_field by lia. rewrite (Z.mod_small sh 4096) by lia.
  rewrite (format_to_small f7 7) by (pows; lia).
  ft_small. sh2mul. pows.
  lor_low 128 7. lor_low 4096 12. lor_low 32768 15. lor_low 1048576 20.
  destruct Hf7 as [-> | ->].
  - rewrite Z.mul_0_l, Z.lor_0_r. Z.div_mod_to_equations; lia.
  - lor_low 1073741824 30. Z.div_mod_to_equations; lia.
Qed.

(* ------------------------------------------------------------- S format *)

Lemma generate_mkS name op f3 rs1 rs2 imm :
  0 <= op < 128 -> 0 <= f3 < 8 -> 0 <= rs1 < 32 -> 0 <= rs2 < 32 -> -2048 <= imm < 4096 ->
  generate (mkS name op f3 rs1 rs2 imm) = enc_S op f3 rs1 rs2 imm.
Proof.
  intros. unfold mkS, generate, s_shuffle, enc_S, mkword, usig. rewrite imm12_field by assumption.
  ft_small. pows.
  pose proof (Z.mod_pos_bound imm 4096 ltac:(lia)) as Hu.
  set (u := imm mod 4096) in *.
  rewrite land_31.
  change 4064 with (Z.shiftl (Z.ones 7) 5). rewrite (land_field u 7 5) by lia.
  sh2mul. pows.
  rewrite (Z.div_mul (u / 32 mod 128) 32) by lia.
  lor_low 128 7. lor_low 4096 12. lor_low 32768 15. lor_low 1048576 20. lor_low 33554432 25.
  Z.div_mod_to_equations; lia.
Qed.

(* ------------------------------------------------------------- B format *)

Lemma imm13_field off :
  -4096 <= off < 4096 -> off mod 2 = 0 ->
  format_to_aligned (to_unsigned off 13) 13 = off mod 8192.
Proof.
  intros H Hev. rewrite to_unsigned_spec by (pows; lia). pows.
  rewrite format_to_aligned_spec by lia. change (2 ^ (13 - 1)) with 4096.
  destruct (Z.leb_spec 0 off).
  - rewrite Z.abs_eq by lia. rewrite (Z.mod_small off 8192) by lia. Z.div_mod_to_equations; lia.
  - rewrite Z.abs_eq by lia.
    rewrite <- (Z.mod_add off 1 8192) by lia. replace (off + 1 * 8192) with (8192 + off) by lia.
    rewrite (Z.mod_small (8192 + off) 8192) by lia. Z.div_mod_to_equations; lia.
Qed.

Lemma generate_mkB name op f3 rs1 rs2 off :
  0 <= op < 128 -> 0 <= f3 < 8 -> 0 <= rs1 < 32 -> 0 <= rs2 < 32 -> -4096 <= off < 4096 ->
  off mod 2 = 0 ->
  generate (mkB name op f3 rs1 rs2 off) = enc_B op f3 rs1 rs2 off.
Proof.
  intros Hop Hf3 H1 H2 Hoff Hev. unfold mkB, generate, b_shuffle, enc_B, mkword, usig.
  rewrite imm13_field by assumption. ft_small. pows.
  pose proof (Z.mod_pos_bound off 8192 ltac:(lia)) as Hu.
  assert (Hue : (off mod 8192) mod 2 = 0) by (Z.div_mod_to_equations; lia).
  set (u := off mod 8192) in *.
  sh2mul. pows.
  rewrite !land_1, land_63, land_15.
  lor_low 64 6. lor_low 2 1.
  lor_low 128 7. lor_low 4096 12. lor_low 32768 15. lor_low 1048576 20. lor_low 33554432 25.
  Z.div_mod_to_equations; lia.
Qed.

(* ------------------------------------------------------------- U format *)

Lemma generate_mkU name op rd imm :
  0 <= op < 128 -> 0 <= rd < 32 -> - 2147483648 <= imm < 4294967296 ->
  generate (mkU name op rd imm) = op + rd * 128 + ((imm mod 4294967296) / 4096) * 4096.
Proof.
  intros Hop Hrd Himm. unfold mkU, generate.
  assert (E : format_to (to_unsigned imm 32) 32 = imm mod 4294967296).
  { rewrite to_unsigned_spec by (pows; lia). pows.
    destruct (Z.leb_spec 0 imm).
    - rewrite format_to_small by (pows; lia). symmetry; apply Z.mod_small; lia.
    - rewrite format_to_small by (pows; lia).
      rewrite <- (Z.mod_add imm 1 4294967296) by lia.
      replace (imm + 1 * 4294967296) with (4294967296 + imm) by lia.
      symmetry; apply Z.mod_small; lia. }
  rewrite E. ft_small.
  pose proof (Z.mod_pos_bound imm 4294967296 ltac:(lia)) as Hu.
  set (u := imm mod 4294967296) in *.
  change 4294963200 with (Z.shiftl (Z.ones 20) 12). rewrite (land_field u 20 12) by lia.
  sh2mul. pows. change (2 ^ 20) with 1048576.
  rewrite (Z.mod_small (u / 4096) 1048576) by (Z.div_mod_to_equations; lia).
  lor_low 128 7. lor_low 4096 12. reflexivity.
Qed.

Lemma enc_U_sum op rd imm20 : enc_U op rd imm20 = op + rd * 128 + usig imm20 20 * 4096.
Proof.
  unfold enc_U, mkword. pose proof (usig_range imm20 20 ltac:(lia)) as Hu.
  change (2 ^ 20) with 1048576 in Hu. set (u := usig imm20 20) in *.
  Z.div_mod_to_equations; lia.
Qed.

(* ------------------------------------------------------------- J format *)

Lemma imm21_field off :
  -1048576 <= off < 1048576 -> off mod 2 = 0 ->
  format_to_aligned (to_unsigned off 21) 21 = off mod 2097152.
Proof.
  intros H Hev. rewrite to_unsigned_spec by (pows; lia). pows.
  rewrite format_to_aligned_spec by lia. change (2 ^ (21 - 1)) with 1048576.
  destruct (Z.leb_spec 0 off).
  - rewrite Z.abs_eq by lia. rewrite (Z.mod_small off 2097152) by lia. Z.div_mod_to_equations; lia.
  - rewrite Z.abs_eq by lia.
    rewrite <- (Z.mod_add off 1 2097152) by lia. replace (off + 1 * 2097152) with (2097152 + off) by lia.
    rewrite (Z.mod_small (2097152 + off) 2097152) by lia. Z.div_mod_to_equations; lia.
Qed.

Lemma generate_mkJ name op rd off :
  0 <= op < 128 -> 0 <= rd < 32 -> -1048576 <= off < 1048576 -> off mod 2 = 0 ->
  generate (mkJ name op rd off) = enc_J op rd off.
Proof.
  intros Hop Hrd Hoff Hev. unfold mkJ, generate, j_shuffle, enc_J, mkword, usig.
  rewrite imm21_field by assumption. ft_small. pows.
  pose proof (Z.mod_pos_bound off 2097152 ltac:(lia)) as Hu.
  assert (Hue : (off mod 2097152) mod 2 = 0) by (Z.div_mod_to_equations; lia).
  set (u := off mod 2097152) in *.
  sh2mul. pows.
  rewrite !land_1, land_1023, land_255.
  lor_low 524288 19. lor_low 512 9. lor_low 256 8.
  lor_low 128 7. lor_low 4096 12.
  Z.div_mod_to_equations; lia.
Qed.
