(* LoaderFixer.v — from the flat files to the loaded structured image, FIXER variant:
   ImageSem.Init gives `placed`, `xplaced2`, `ximage_loaded`; composed with
   WholeImageFixer.fixer_image_returns this states C01 / C11 (untampered run) over
   the emitted files. *)
From Coq Require Import ZArith List String Bool Lia Permutation.
From Gigue Require Import Types Bits Isa IsaProofs Enc EncProofs GenTables Builder Samplers Generator GenLemmas
  Machine MachineLemmas ImageSem GenWF GenWFProps SliceLemmas GenWF2 GenWF3 GenWF4 GenWF2Props SplitProofs
  BodyExec BodyBridge GenWF5 FrameExec CodeMem SwitchExec GenWF6 GenWF7 GenWF8 GenWF9 Walk CallFrame MethodContract
  SaveRestore TrampExec TrampsInv TrampStubs WholeImage Loader GenWF9F WalkK FixerTamper FixerCall MethodContractFixer WholeImageFixer.
From Gigue Require Import Hits.
From Coq Require Import Permutation.
Import ListNotations.
Open Scope list_scope.
Open Scope Z_scope.

Section FLATX.
Variable c : config.
Variable script : list draw.
Variable img : image.
Hypothesis Hsucc : successful c script img.
Hypothesis Hss : c_variant c = GFixer.
Hypothesis Hdr6 : c_data_reg c <> 6.
Variable L : layout.
Variable s0 : mstate.
Hypothesis HI : Init c img (xNtot c img) L s0.
Hypothesis Hat : code_lo L = int_start_al c.         (* loaded at the generation address *)
Hypothesis Hsmall : code_hi L - code_lo L < 2147483648 - 2048.
Hypothesis Hpics : pics_encodable img.

Let ms := im_methods img.
Let es := im_elements img.

Lemma xflat_placed : placed c img L.
Proof. exact (flat_placed c script img Hsucc L s0 _ HI Hat Hsmall). Qed.

Lemma xflat_placed2 : xplaced2 c img L.
Proof.
  destruct (flat_elements c script img Hsucc L s0 _ HI Hat) as (F & _ & _ & Ht).
  destruct (interpreter_padding_exact c script img Hsucc) as (E & Hfit & _).
  pose proof (flat_jit_ge c img L s0 _ HI) as Hj. pose proof (flat_jit_lo c script img Hsucc L s0 _ HI Hat) as Hjl.
  destruct (i_code_hi _ _ _ _ _ HI) as [Eh _]. pose proof (zlen_nonneg (im_jit img)) as Hz.
  constructor.
  - split; [lia|]. split; [lia|].
    replace (int_start_al c + 4 * zlen (im_int_instrs img)) with (int_start_al c + (4 * zlen (im_int_instrs img))) by lia.
    apply (flat_halt c img L s0 _ HI); lia.
  - unfold pics_encodable in Hpics. fold es in Hpics. rewrite Forall_forall in *. intros e He.
    specialize (F e He). specialize (Hpics e He). destruct e as [id|p]; [exact I|].
    cbn [elt_loaded] in F. destruct F as (A & B & C & _ & _). destruct Hpics as [P1 P2].
    unfold xpic_placed. split; [exact A|]. split; [lia|]. split; [exact C|]. split.
    + replace (p_addr p + 4 * zlen (p_switch p)) with (p_addr p + (4 * zlen (p_switch p))) by lia. apply (flat_halt c img L s0 _ HI); lia.
    + split; [exact P1|exact P2].
  - pose proof (zlen_nonneg (List.concat (im_tramps img))). split; [lia|]. split; [exact Ht|].
    replace (jit_start_al c + 4 * zlen (List.concat (im_tramps img))) with (jit_start_al c + (4 * zlen (List.concat (im_tramps img)))) by lia.
    apply (flat_halt c img L s0 _ HI); lia.
Qed.

Lemma xflat_loaded : ximage_loaded c img s0.
Proof.
  destruct (flat_elements c script img Hsucc L s0 _ HI Hat) as (F & Ci & Ct & _).
  destruct (jit_is_exact_tiling c script img Hsucc) as (e & _ & _ & Hids).
  split; [|split; [|split]].
  - unfold code_loaded. apply Forall_forall. intros m Hm. apply In_nth_error in Hm. destruct Hm as (id & Hid).
    assert (Hlt : (id < List.length ms)%nat) by (apply nth_error_Some; unfold ms; congruence).
    destruct (all_methods_loaded ms (mem s0) es _ _ F Hids id Hlt) as (m' & Hn & _ & _ & _ & D).
    unfold ms in Hn. rewrite Hid in Hn. inversion Hn; subst m'. exact D.
  - exact Ci.
  - eapply Forall_impl; [|exact F]. intros x Hx. destruct x as [id|p]; [exact I|].
    cbn [elt_loaded] in Hx. exact (proj1 (proj2 (proj2 (proj2 Hx)))).
  - exact Ct.
Qed.

(* PROPERTY C01 / C09 over the emitted files, RIMI shadow-stack variant *)
Lemma fixer_image_from_files_h pro epi shuffled calls hs :
  base_prologue 10 0 true = OK pro -> base_epilogue 10 0 true = OK epi -> Permutation (im_elements img) shuffled ->
  chain_h c (im_methods img) (jit_start_al c) shuffled (int_start_al c + zlen pro * 4) calls hs -> im_int_instrs img = pro ++ calls ++ epi ->
  (forall r o, In (r, o) int_slots -> 0 <= rget s0 r < W64) ->
  Forall2 xhit_ok shuffled hs /\ exists s',
    run (gv c) L (12 + (xchain_cost img (combine shuffled hs) + 13)) s0 = (Next s', (12 + (xchain_cost img (combine shuffled hs) + 13))%nat) /\
    pc s' = halt_at L /\
    (forall r, 0 <= r -> wr c r = false -> ~ xclob c r -> rget s' r = rget s0 r) /\
    mem_frame c L s0 s' (stk_hi L - xNtot c img) (stk_hi L) /\ dom s' = 0 /\ cfi s' = [].
Proof.
  intros Hpro Hepi Hperm Hch Hints Hsaved.
  destruct (i_sp _ _ _ _ _ HI) as (Hsp & Hsal & Hbnd & Hslo & Hs64).
  destruct (i_ra _ _ _ _ _ HI) as (Hra & Hhal & Hhr & _).
  destruct (i_data _ _ _ _ _ HI) as (Hdr & _).
  destruct (i_dom _ _ _ _ _ HI) as [Hdom Hcfi].
  destruct (ximage_run_h c script img Hsucc Hss Hdr6 L xflat_placed xflat_placed2 s0) with (pro:=pro) (epi:=epi) (shuffled:=shuffled) (calls:=calls) (hs:=hs) as (Hhs & s' & R & P & Rg & M & D & Cf).
  - rewrite Hsp. exact Hsal.
  - rewrite Hsp. lia.
  - rewrite Hsp. lia.
  - rewrite Hsp. lia.
  - exact Hsaved.
  - exact Hpro.
  - exact Hepi.
  - exact Hperm.
  - exact Hch.
  - exact Hints.
  - rewrite (i_pc _ _ _ _ _ HI). exact Hat.
  - exact xflat_loaded.
  - constructor; [exact Hdr|]. unfold gv. rewrite Hss. exact I.
  - split; [exact Hhs|]. exists s'. split; [exact R|]. split.
    + rewrite P, Hra, Z.add_0_r, u64_small by lia. clear - Hhal. Z.div_mod_to_equations; lia.
    + split; [exact Rg|]. rewrite Hsp in M. split; [exact M|]. split; congruence.
Qed.

Theorem fixer_image_from_files :
  (forall r o, In (r, o) int_slots -> 0 <= rget s0 r < W64) ->
  exists s' eh, map fst eh = im_elements img /\ Forall (fun x => xhit_ok (fst x) (snd x)) eh /\
    run (gv c) L (ximage_steps img eh) s0 = (Next s', ximage_steps img eh) /\
    pc s' = halt_at L /\
    (forall r, 0 <= r -> wr c r = false -> ~ xclob c r -> rget s' r = rget s0 r) /\
    mem_frame c L s0 s' (stk_hi L - xNtot c img) (stk_hi L) /\ dom s' = 0 /\ cfi s' = [].
Proof.
  intros Hsaved.
  destruct (i_sp _ _ _ _ _ HI) as (Hsp & Hsal & Hbnd & Hslo & Hs64).
  destruct (i_ra _ _ _ _ _ HI) as (Hra & Hhal & Hhr & _).
  destruct (i_data _ _ _ _ _ HI) as (Hdr & _).
  destruct (i_dom _ _ _ _ _ HI) as [Hdom Hcfi].
  destruct (fixer_image_returns c script img Hsucc Hss Hdr6 L xflat_placed xflat_placed2 s0) as (s' & eh & E1 & E2 & R & P & Rg & M & D & Cf).
  - rewrite Hsp. exact Hsal.
  - rewrite Hsp. lia.
  - rewrite Hsp. lia.
  - rewrite Hsp. lia.
  - exact Hsaved.
  - rewrite (i_pc _ _ _ _ _ HI). exact Hat.
  - exact xflat_loaded.
  - constructor; [exact Hdr|]. unfold gv. rewrite Hss. exact I.
  - exists s', eh. split; [exact E1|]. split; [exact E2|]. split; [exact R|]. split.
    + rewrite P, Hra, Z.add_0_r, u64_small by lia. clear - Hhal. Z.div_mod_to_equations; lia.
    + split; [exact Rg|]. rewrite Hsp in M. split; [exact M|]. split; congruence.
Qed.
End FLATX.

(* the same with the hit cases fixed BEFORE any layout or state: one list eh, a static datum of
   the image, gives the executed-instruction count of every run *)
Theorem fixer_image_from_files_static c script img :
  successful c script img -> c_variant c = GFixer -> c_data_reg c <> 6 ->
  exists eh, map fst eh = im_elements img /\ Forall (fun x => xhit_ok (fst x) (snd x)) eh /\
  forall L s0, Init c img (xNtot c img) L s0 -> code_lo L = int_start_al c ->
    code_hi L - code_lo L < 2147483648 - 2048 -> pics_encodable img ->
    (forall r o, In (r, o) int_slots -> 0 <= rget s0 r < W64) ->
    exists s', run (gv c) L (ximage_steps img eh) s0 = (Next s', ximage_steps img eh) /\
      pc s' = halt_at L /\
      (forall r, 0 <= r -> wr c r = false -> ~ xclob c r -> rget s' r = rget s0 r) /\
      mem_frame c L s0 s' (stk_hi L - xNtot c img) (stk_hi L) /\ dom s' = 0 /\ cfi s' = [].
Proof.
  intros Hs Hv H6.
  destruct (static_hits c script img Hs) as (pro & epi & shuffled & calls & hs & eh & Hpro & Hepi & Hperm & Hch & Hints & E1 & E2 & Peh).
  exists eh. split; [exact E1|]. split; [exact E2|].
  intros L s0 HI Hat Hsm Hpe Hsaved.
  destruct (fixer_image_from_files_h c script img Hs Hv H6 L s0 HI Hat Hsm Hpe pro epi shuffled calls hs Hpro Hepi Hperm Hch Hints Hsaved) as (_ & s' & R & Rest).
  exists s'. split; [|exact Rest]. unfold ximage_steps. rewrite <- (xchain_cost_perm c _ _ _ Peh). exact R.
Qed.

Print Assumptions fixer_image_from_files.
Print Assumptions fixer_image_from_files_static.
