(* Records.v — model of toccata/runner.py:231-295: the generation and
   JIT-element records the benchmark runner returns, as a function of the
   generator's objects (here: the model's structured image). *)
From Coq Require Import ZArith List String Bool.
From Gigue Require Import Types Bits Enc GenTables Builder Samplers Generator.
Import ListNotations.
Open Scope Z_scope.

Record method_rec := mk_mrec { r_addr : Z; r_full_size : Z; r_calls : Z; r_depth : Z; r_used : Z; r_locals : Z }.
Record pic_rec := mk_prec { pr_addr : Z; pr_full_size : Z; pr_cases : Z; pr_methods : list method_rec }.

Definition rec_of (m : method) : method_rec :=
  mk_mrec (m_addr m) (m_total m) (m_calls m) (m_depth m) m_used_s_regs m_local_vars_nb.

Definition lookup_m (ms : list method) (id : nat) : list method :=
  match nth_error ms id with Some m => [m] | None => [] end.

Definition methods_info (img : image) : list method_rec :=
  flat_map (fun e => match e with EMethod id => map rec_of (lookup_m (im_methods img) id) | EPic _ => [] end)
           (im_elements img).

Definition pic_total (ms : list method) (p : pic) : Z :=
  switch_size (p_cases p) + fold_right (fun id a => fold_right (fun m b => m_total m + b) a (lookup_m ms id)) 0 (p_methods p).

Definition pics_info (img : image) : list pic_rec :=
  flat_map (fun e => match e with
                     | EPic p => [mk_prec (p_addr p) (pic_total (im_methods img) p) (p_cases p)
                                   (flat_map (fun id => map rec_of (lookup_m (im_methods img) id)) (p_methods p))]
                     | EMethod _ => [] end) (im_elements img).

(* sizes in the order the runner accumulates them: element order, PIC cases inline *)
Definition all_sizes (img : image) : list Z :=
  flat_map (fun e => match e with
                     | EMethod id => map m_total (lookup_m (im_methods img) id)
                     | EPic p => flat_map (fun id => map m_total (lookup_m (im_methods img) id)) (p_methods p)
                     end) (im_elements img).

Definition sumZ (l : list Z) : Z := fold_right Z.add 0 l.

(* helpers.mean: 0 for an empty list, else sum / len as ONE float division of two ints *)
Definition mean_frac (l : list Z) : Z * Z := (sumZ l, zlen l).
Definition mean_float (l : list Z) : fl :=
  match l with [] => fzero | _ => fdiv (of_Z (sumZ l)) (of_Z (zlen l)) end.

Record gen_data := mk_gd {
  gd_nb_methods : Z; gd_nb_pics : Z; gd_mean_method_size : fl; gd_pics_mean_case_nb : fl
}.

Definition method_count (img : image) : Z :=
  sumZ (map (fun e => match e with EMethod _ => 1 | EPic p => p_cases p end) (im_elements img)).
Definition pic_count (img : image) : Z :=
  sumZ (map (fun e => match e with EMethod _ => 0 | EPic _ => 1 end) (im_elements img)).

Definition generation_data (img : image) : gen_data :=
  mk_gd (method_count img) (pic_count img) (mean_float (all_sizes img))
        (mean_float (map pr_cases (pics_info img))).

(* number of gen_id() calls (8 random.choice draws each) *)
Definition id_draws (img : image) : Z :=
  8 * (zlen (methods_info img) + sumZ (map (fun p => 1 + zlen (pr_methods p)) (pics_info img))).
