(* GenWF2.v — Layer A, structural invariants of the generator model, for EVERY
   configuration and EVERY decision script (no bound on counts, sizes, depths):
     - the element list tiles the JIT region: recorded addresses chain exactly
       (C04), every method id belongs to exactly one element, ids in order;
     - the image holds exactly the requested number of methods (C05);
     - the depth dictionary files every method under its own depth, and after
       patching every callee of a method exists and is strictly shallower (C06);
     - patching keeps addresses, sizes and instruction counts (C04). *)
From Coq Require Import ZArith List String Bool Lia.
From Coq Require Import SpecFloat.
From Gigue Require Import Types Bits Isa Enc EncProofs GenTables Builder Samplers SamplerProofs FloatSign Generator GenLemmas GenWF.
Import ListNotations.
Open Scope Z_scope.

(* ------------------------------------------------------------------ lists *)
Lemma nth_error_app_l {A} (l l' : list A) i x : nth_error l i = Some x -> nth_error (l ++ l') i = Some x.
Proof.
  intros H. rewrite nth_error_app1; [exact H|]. apply nth_error_Some. congruence.
Qed.

Definition set_nth {A} (l : list A) (i : nat) (x : A) : list A := firstn i l ++ x :: skipn (S i) l.

Lemma set_nth_length {A} (l : list A) i x : (i < List.length l)%nat -> List.length (set_nth l i x) = List.length l.
Proof.
  intros H. unfold set_nth. rewrite app_length. cbn [List.length]. rewrite firstn_length, skipn_length. lia.
Qed.

Lemma nth_error_firstn_lt {A} : forall (l : list A) n i, (i < n)%nat -> nth_error (firstn n l) i = nth_error l i.
Proof.
  induction l as [|x tl IH]; intros n i H.
  - rewrite firstn_nil. reflexivity.
  - destruct n as [|n]; [lia|]. destruct i as [|i]; [reflexivity|]. cbn [firstn nth_error]. apply IH. lia.
Qed.
Lemma nth_error_skipn_add {A} : forall (l : list A) n i, nth_error (skipn n l) i = nth_error l (n + i).
Proof.
  induction l as [|x tl IH]; intros n i.
  - rewrite skipn_nil. destruct i, n; reflexivity.
  - destruct n as [|n]; [reflexivity|]. cbn [skipn plus nth_error]. apply IH.
Qed.

Lemma nth_error_set_nth {A} (l : list A) i x j :
  (i < List.length l)%nat ->
  nth_error (set_nth l i x) j = if Nat.eqb j i then Some x else nth_error l j.
Proof.
  intros H. unfold set_nth.
  assert (Hf : List.length (firstn i l) = i) by (rewrite firstn_length; lia).
  destruct (Nat.eqb_spec j i) as [->|Hne].
  - rewrite nth_error_app2 by lia. rewrite Hf, Nat.sub_diag. reflexivity.
  - destruct (Nat.lt_ge_cases j i) as [Hlt|Hge].
    + rewrite nth_error_app1 by lia. rewrite nth_error_firstn_lt by exact Hlt. reflexivity.
    + rewrite nth_error_app2 by lia. rewrite Hf.
      destruct (j - i)%nat as [|k] eqn:E; [lia|]. cbn [nth_error].
      rewrite nth_error_skipn_add. f_equal. lia.
Qed.

Lemma zlen_app {A} (a b : list A) : zlen (a ++ b) = zlen a + zlen b.
Proof. unfold zlen. rewrite app_length. lia. Qed.
Lemma zlen_nonneg {A} (a : list A) : 0 <= zlen a.
Proof. unfold zlen. lia. Qed.
Lemma zlen_cons {A} (x : A) l : zlen (x :: l) = 1 + zlen l.
Proof. unfold zlen. cbn [List.length]. lia. Qed.

(* ------------------------------------------------------------------ layout *)
(* consecutive methods ids laid out from address a to address b *)
Inductive mtiles (ms : list method) : list nat -> Z -> Z -> Prop :=
| mt_nil a : mtiles ms [] a a
| mt_cons id ids m a b :
    nth_error ms id = Some m -> m_addr m = a -> mtiles ms ids (a + m_total m * 4) b ->
    mtiles ms (id :: ids) a b.

Inductive tiles (ms : list method) : list elt -> Z -> Z -> Prop :=
| t_nil a : tiles ms [] a a
| t_method id es a b c : mtiles ms [id] a b -> tiles ms es b c -> tiles ms (EMethod id :: es) a c
| t_pic p es a b c :
    p_addr p = a -> p_cases p = zlen (p_methods p) -> zlen (p_switch p) = switch_size (p_cases p) ->
    mtiles ms (p_methods p) (a + switch_size (p_cases p) * 4) b ->
    tiles ms es b c -> tiles ms (EPic p :: es) a c.

Lemma mtiles_ext ms ms' ids a b :
  (forall id m, nth_error ms id = Some m -> exists m', nth_error ms' id = Some m' /\ m_addr m' = m_addr m /\ m_total m' = m_total m) ->
  mtiles ms ids a b -> mtiles ms' ids a b.
Proof.
  intros Hext H. induction H as [a|id ids m a b Hn Ha Ht IH]; [constructor|].
  destruct (Hext _ _ Hn) as (m' & Hn' & Ea & Et).
  econstructor; [exact Hn'|congruence|rewrite Et; exact IH].
Qed.

Lemma tiles_ext ms ms' es a b :
  (forall id m, nth_error ms id = Some m -> exists m', nth_error ms' id = Some m' /\ m_addr m' = m_addr m /\ m_total m' = m_total m) ->
  tiles ms es a b -> tiles ms' es a b.
Proof.
  intros Hext H. induction H.
  - constructor.
  - econstructor; [eapply mtiles_ext; eassumption|assumption].
  - econstructor; try eassumption. eapply mtiles_ext; eassumption.
Qed.

Lemma tiles_app ms es es' a b c : tiles ms es a b -> tiles ms es' b c -> tiles ms (es ++ es') a c.
Proof.
  intros H H'. induction H; cbn [app].
  - exact H'.
  - econstructor; [eassumption|apply IHtiles; exact H'].
  - econstructor; try eassumption. apply IHtiles. exact H'.
Qed.

Lemma ext_app (ms : list method) new :
  forall id m, nth_error ms id = Some m ->
  exists m', nth_error (ms ++ new) id = Some m' /\ m_addr m' = m_addr m /\ m_total m' = m_total m.
Proof. intros id m H. exists m. split; [apply nth_error_app_l; exact H|split; reflexivity]. Qed.

(* ------------------------------------------------------------------ depths *)
Definition depth_ok (ms : list method) (d : list (Z * list nat)) : Prop :=
  Forall (fun kv => Forall (fun id => exists m, nth_error ms id = Some m /\ m_depth m = fst kv) (snd kv)) d.

Definition callees_ok (ms : list method) : Prop :=
  Forall (fun m => Forall (fun cal => exists cm, nth_error ms cal = Some cm /\ m_depth cm < m_depth m) (m_callees m)) ms.

Lemma depth_ok_ext ms ms' d :
  (forall id m, nth_error ms id = Some m -> exists m', nth_error ms' id = Some m' /\ m_depth m' = m_depth m) ->
  depth_ok ms d -> depth_ok ms' d.
Proof.
  intros Hext H. unfold depth_ok in *. eapply Forall_impl; [|exact H]. intros kv Hkv.
  eapply Forall_impl; [|exact Hkv]. intros id (m & Hn & Hd). cbv beta.
  destruct (Hext _ _ Hn) as (m' & Hn' & Ed). exists m'. split; [exact Hn'|congruence].
Qed.

Lemma depth_ok_add ms d dp id m :
  depth_ok ms d -> nth_error ms id = Some m -> m_depth m = dp -> depth_ok ms (depths_add d dp id).
Proof.
  intros Hd Hn Hm. induction d as [|[k l] tl IH]; cbn [depths_add].
  - constructor; [|constructor]. cbn [fst snd]. constructor; [|constructor]. exists m. auto.
  - pose proof (Forall_inv Hd) as Hkl. pose proof (Forall_inv_tail Hd) as Htl.
    destruct (Z.eqb_spec k dp) as [E|Hne]; [subst k|].
    + constructor; [|exact Htl]. cbn [fst snd] in *. apply Forall_app. split; [exact Hkl|].
      constructor; [|constructor]. exists m. auto.
    + constructor; [exact Hkl|]. apply IH. exact Htl.
Qed.

Lemma possible_callees_spec ms d dp id :
  depth_ok ms d -> In id (possible_callees d dp) -> exists m, nth_error ms id = Some m /\ m_depth m < dp.
Proof.
  intros Hd Hin. unfold possible_callees in Hin. apply in_flat_map in Hin.
  destruct Hin as ((k, l) & Hkl & Hid). cbn [fst snd] in Hid.
  destruct (Z.ltb_spec k dp) as [Hlt|]; [|destruct Hid].
  unfold depth_ok in Hd. rewrite Forall_forall in Hd. specialize (Hd _ Hkl). cbn [fst snd] in Hd.
  rewrite Forall_forall in Hd. destruct (Hd _ Hid) as (m & Hn & Hm). exists m. split; [exact Hn|lia].
Qed.

(* ------------------------------------------------------------------ method shapes *)
Definition pro_len (v : gvariant) (leaf : bool) : Z :=
  ga_prologue_offset (attrs_of v) + m_used_s_regs + (if leaf then 0 else ga_call_offset (attrs_of v)).
Definition epi_len (v : gvariant) (leaf : bool) : Z :=
  m_used_s_regs + (if leaf then 0 else ga_call_offset (attrs_of v)) + ga_epilogue_offset (attrs_of v).

(* the prologue / epilogue the builders emit have exactly the lengths Method.__init__ budgets *)
Lemma frame_lengths :
  forallb (fun v => forallb (fun leaf =>
     match build_prologue (bvariant_of v) m_used_s_regs m_local_vars_nb (negb leaf),
           build_epilogue (bvariant_of v) m_used_s_regs m_local_vars_nb (negb leaf) with
     | OK p, OK e => (zlen p =? pro_len v leaf) && (zlen e =? epi_len v leaf)
     | _, _ => false
     end) [true; false]) [GBase; GTramp; GRimiSS; GRimiFull; GFixer] = true.
Proof. vm_compute. reflexivity. Qed.

Lemma frame_lengths_at v leaf p e :
  build_prologue (bvariant_of v) m_used_s_regs m_local_vars_nb (negb leaf) = OK p ->
  build_epilogue (bvariant_of v) m_used_s_regs m_local_vars_nb (negb leaf) = OK e ->
  zlen p = pro_len v leaf /\ zlen e = epi_len v leaf.
Proof.
  intros Hp He. pose proof frame_lengths as W. cbn [forallb] in W.
  repeat (apply andb_prop in W; destruct W as [? W]).
  assert (G : match build_prologue (bvariant_of v) m_used_s_regs m_local_vars_nb (negb leaf),
                    build_epilogue (bvariant_of v) m_used_s_regs m_local_vars_nb (negb leaf) with
              | OK p, OK e => (zlen p =? pro_len v leaf) && (zlen e =? epi_len v leaf)
              | _, _ => false end = true) by (destruct v, leaf; assumption).
  rewrite Hp, He in G. apply andb_prop in G. destruct G as [G1 G2].
  apply Z.eqb_eq in G1. apply Z.eqb_eq in G2. auto.
Qed.

(* what Method.__init__ fixes and nothing later changes *)
Record shaped (c : config) (m : method) : Prop := {
  sh_cs : m_call_size m = ga_call_size (attrs_of (c_variant c));
  sh_pro : m_pro m = pro_len (c_variant c) (m_is_leaf m);
  sh_epi : m_epi m = epi_len (c_variant c) (m_is_leaf m);
  sh_budget : m_calls m <= m_body m / m_call_size m;
  sh_depth : 0 <= m_depth m;
  sh_nocall : m_calls m <= 0 -> m_depth m = 0
}.

Definition same_header (m m' : method) : Prop :=
  m_addr m' = m_addr m /\ m_body m' = m_body m /\ m_calls m' = m_calls m /\ m_depth m' = m_depth m /\
  m_call_size m' = m_call_size m /\ m_pro m' = m_pro m /\ m_epi m' = m_epi m.

Lemma same_header_total m m' : same_header m m' -> m_total m' = m_total m.
Proof. intros (_ & B & _ & _ & _ & P & E). unfold m_total. congruence. Qed.

Lemma same_header_shaped c m m' : same_header m m' -> shaped c m -> shaped c m'.
Proof.
  intros (A & B & C & D & E & P & Ep) [H1 H2 H3 H4 H5 H6].
  assert (L : m_is_leaf m' = m_is_leaf m) by (unfold m_is_leaf; congruence).
  constructor; rewrite ?L, ?A, ?B, ?C, ?D, ?E, ?P, ?Ep; assumption.
Qed.

Lemma new_method_shaped c addr body calls depth m :
  0 <= depth -> (calls <= 0 -> depth = 0) ->
  new_method c addr body calls depth = OK m ->
  shaped c m /\ m_addr m = addr /\ m_instrs m = [] /\ m_callees m = [] /\ m_depth m = depth /\ m_calls m = calls
  /\ m_body m = body.
Proof.
  intros Hd Hc. unfold new_method. destruct (Z.ltb_spec (body / ga_call_size (attrs_of (c_variant c))) calls) as [|Hb]; [discriminate|].
  intros Hm. inversion Hm. subst m. split; [|cbn; repeat split; reflexivity].
  constructor; cbn; unfold pro_len, epi_len, m_is_leaf; cbn; try reflexivity; try assumption.
Qed.

(* ------------------------------------------------------------------ samplers *)
Lemma poisson_nonneg fuel lam e u k : generate_poisson fuel lam e u = Some k -> 0 <= k.
Proof.
  unfold generate_poisson. intros H. destruct (poisson_loop_inverse _ _ _ _ _ H) as (n & _ & Hk & _).
  cbn [poisson_init ps_x] in Hk. lia.
Qed.
Lemma ztp_pos fuel lam e u k : generate_ztp fuel lam e u = Some k -> 1 <= k.
Proof.
  unfold generate_ztp. intros H. destruct (poisson_loop_inverse _ _ _ _ _ H) as (n & _ & Hk & _).
  cbn [ztp_init ps_x] in Hk. lia.
Qed.

Lemma m_poisson_spec2 P c : stable P -> hoare P (m_poisson c) (fun k s => P s /\ 0 <= k).
Proof.
  intros St. unfold m_poisson. eapply hoare_bind; [apply draw_random_spec; exact St|]. intros u.
  destruct (generate_poisson _ _ _ u) as [k|] eqn:E; [|apply hoare_fail]. intros s H. cbn. split; [exact H|].
  eapply poisson_nonneg. exact E.
Qed.

Lemma m_ztp_spec2 P c : stable P -> hoare P (m_ztp c) (fun k s => P s /\ 1 <= k).
Proof.
  intros St. unfold m_ztp. destruct (c_mean_case c =? 0); [apply hoare_fail|].
  eapply hoare_bind; [apply draw_random_spec; exact St|]. intros u.
  destruct (generate_ztp _ _ _ u) as [k|] eqn:E; [|apply hoare_fail]. intros s H. cbn. split; [exact H|].
  eapply ztp_pos. exact E.
Qed.

(* ------------------------------------------------------------------ accepted Gaussian variates *)
Lemma accepted_unit x :
  valid_binary prec emax x = true -> fle fzero x && fle x fone = true -> unit_float x.
Proof.
  intros Hv H. apply andb_prop in H. destruct H as [H0 H1].
  destruct x as [s|[]| |[] m e]; try discriminate.
  - left. exists s. reflexivity.
  - right. exists m, e. cbn [valid_binary] in Hv. auto.
Qed.

Lemma m_trunc_norm_valid P fuel mu sigma :
  stable P -> hoare P (m_trunc_norm fuel mu sigma) (fun x s => P s /\ unit_float x).
Proof.
  intros St. induction fuel as [|k IH]; cbn [m_trunc_norm]; [apply hoare_fail|].
  eapply hoare_bind; [apply draw_gauss_valid; exact St|]. intros x. apply hoare_pure_pre. intros Hx.
  destruct (fle fzero x && fle x fone) eqn:E; [|exact IH].
  intros s H. cbn. split; [exact H|]. apply accepted_unit; assumption.
Qed.

(* ------------------------------------------------------------------ sizing and filling *)
Definition fresh (c : config) (addr : Z) (m : method) : Prop :=
  shaped c m /\ m_addr m = addr /\ m_instrs m = [] /\ m_callees m = [] /\ 0 <= m_body m.

Lemma size_method_spec2 P c addr leaf :
  stable P -> 0 <= method_size c ->
  hoare P (size_method c addr leaf)
        (fun m s => P s /\ fresh c addr m /\ (leaf = true -> m_depth m = 0)).
Proof.
  intros St Hms. unfold size_method.
  eapply hoare_bind; [apply m_trunc_norm_valid; exact St|]. intros v. apply hoare_pure_pre. intros Hv.
  eapply hoare_bind; [apply draw_random_spec; exact St|]. intros us.
  eapply hoare_bind; [apply hoare_lift|]. intros body. apply hoare_pure_pre. intros Hbody.
  assert (Hb0 : 0 <= body).
  { destruct (body_size_of (method_size c) us v) as [b|] eqn:Eb; cbn in Hbody; [|discriminate].
    inversion Hbody; subst b. eapply body_size_nonneg; eassumption. }
  destruct leaf.
  - apply hoare_lift_post. intros m Hm s H. split; [exact H|].
    destruct (new_method_shaped c addr body 0 0 m ltac:(lia) ltac:(lia) Hm) as (S1 & S2 & S3 & S4 & S5 & _ & S7).
    split; [refine (conj S1 (conj S2 (conj S3 (conj S4 _)))); rewrite S7; exact Hb0|]. intros _. exact S5.
  - eapply hoare_bind; [apply m_trunc_norm_spec; exact St|]. intros occ.
    eapply hoare_bind; [apply hoare_lift|]. intros calls. apply hoare_pure_pre. intros _.
    eapply hoare_bind with (Q := fun d s => P s /\ 0 <= d /\ (calls <= 0 -> d = 0)).
    { destruct (Z.ltb_spec 0 calls).
      - eapply hoare_conseq; [intros s0 H0; exact H0| |apply m_poisson_spec2; exact St].
        intros a s0 [H0 H1]. split; [exact H0|]. split; [exact H1|lia].
      - intros s H0. cbn. split; [exact H0|]. split; [lia|reflexivity]. }
    intros depth. apply hoare_pure_pre2. intros Hd Hc.
    eapply hoare_bind; [apply hoare_lift|]. intros m. apply hoare_pure_pre. intros Hm.
    destruct (body =? 0); [apply hoare_fail|]. intros s H. cbn. split; [exact H|].
    destruct (new_method_shaped c addr body calls depth m Hd Hc Hm) as (S1 & S2 & S3 & S4 & _ & _ & S7).
    split; [refine (conj S1 (conj S2 (conj S3 (conj S4 _)))); rewrite S7; exact Hb0|]. intros E; discriminate.
Qed.

Lemma fill_body_len P c n : forall rem,
  stable P -> cfg_facts c ->
  hoare P (fill_body c (usable_registers c) n rem) (fun l s => P s /\ List.length l = n).
Proof.
  induction n as [|k IH]; intros rem St F; cbn [fill_body].
  - intros s H. cbn. split; [exact H|reflexivity].
  - eapply hoare_bind; [apply random_instruction_ok; assumption|]. intros g. apply hoare_pure_pre. intros _.
    eapply hoare_bind; [apply IH; assumption|]. intros rest. apply hoare_pure_pre. intros Hrest.
    intros s H. cbn. split; [exact H|]. cbn [List.length]. congruence.
Qed.

(* an element of the method list after filling: header fixed, instruction count as budgeted *)
Definition filled (m : method) : Prop :=
  m_callees m = [] /\ zlen (m_instrs m) = m_pro m + Z.max 0 (m_body m) + m_epi m /\ 0 <= m_body m.

Lemma fill_method_spec2 P c m :
  stable P -> cfg_facts c -> shaped c m -> 0 <= m_body m ->
  hoare P (fill_method c m) (fun m' s => P s /\ same_header m m' /\ filled m').
Proof.
  intros St F Sh Hb0. unfold fill_method.
  eapply hoare_bind; [apply hoare_lift|]. intros pro. apply hoare_pure_pre. intros Hpro.
  eapply hoare_bind; [apply fill_body_len; assumption|]. intros body. apply hoare_pure_pre. intros Hbody.
  eapply hoare_bind; [apply hoare_lift|]. intros epi. apply hoare_pure_pre. intros Hepi.
  intros s H. cbn. split; [exact H|]. split; [repeat split|]. split; [reflexivity|]. cbn [m_instrs m_pro m_body m_epi].
  split; [|exact Hb0].
  destruct (frame_lengths_at _ _ _ _ Hpro Hepi) as [Lp Le].
  rewrite !zlen_app, Lp, Le, (sh_pro c m Sh), (sh_epi c m Sh). unfold zlen at 1. rewrite Hbody. lia.
Qed.

(* ------------------------------------------------------------------ phase 1 invariant *)
Definition mok (c : config) (m : method) : Prop := shaped c m /\ filled m.

Record P1 (c : config) (start addr : Z) (s : gstate) : Prop := {
  p1_tiles : tiles (g_methods s) (g_elements s) start addr;
  p1_ids : flat_map element_method_ids (g_elements s) = seq 0 (List.length (g_methods s));
  p1_depths : depth_ok (g_methods s) (g_depths s);
  p1_methods : Forall (mok c) (g_methods s)
}.

Lemma P1_stable c start addr : stable (P1 c start addr).
Proof. intros s s' [A B C D] (E1 & E2 & E3) _. constructor; rewrite ?E1, ?E2, ?E3; assumption. Qed.

Lemma depth_ext_app (ms : list method) new :
  forall id m, nth_error ms id = Some m -> exists m', nth_error (ms ++ new) id = Some m' /\ m_depth m' = m_depth m.
Proof. intros id m H. exists m. split; [apply nth_error_app_l; exact H|reflexivity]. Qed.

Lemma nth_error_app_here {A} (l : list A) x tl : nth_error (l ++ x :: tl) (List.length l) = Some x.
Proof. rewrite nth_error_app2 by lia. rewrite Nat.sub_diag. reflexivity. Qed.

(* a single method becomes an element *)
Lemma P1_add_method c start addr s m :
  P1 c start addr s -> mok c m -> m_addr m = addr ->
  P1 c start (addr + m_total m * 4)
     (mk_gs (g_script s) (g_methods s ++ [m])
            (depths_add (g_depths s) (m_depth m) (List.length (g_methods s)))
            (g_elements s ++ [EMethod (List.length (g_methods s))])).
Proof.
  intros [T I D Ms] Hm Ha. constructor; cbn [g_methods g_depths g_elements].
  - eapply tiles_app; [eapply tiles_ext; [apply ext_app|exact T]|].
    econstructor; [|constructor]. econstructor; [apply nth_error_app_here|exact Ha|constructor].
  - rewrite flat_map_app, I, app_length. cbn [flat_map element_method_ids app List.length].
    rewrite Nat.add_1_r, seq_S. reflexivity.
  - eapply depth_ok_add; [eapply depth_ok_ext; [apply depth_ext_app|exact D]|apply nth_error_app_here|reflexivity].
  - apply Forall_app. split; [exact Ms|constructor; [exact Hm|constructor]].
Qed.

(* case methods of a PIC: sized with chained addresses *)
Inductive chained : list method -> Z -> Z -> Prop :=
| ch_nil a : chained [] a a
| ch_cons m tl a b : m_addr m = a -> chained tl (a + m_total m * 4) b -> chained (m :: tl) a b.

Lemma chained_sum ms a b : chained ms a b -> b = a + sum_totals ms * 4.
Proof. intros H. induction H; cbn [sum_totals fold_right]; [lia|]. fold (sum_totals tl). lia. Qed.

Lemma size_cases_spec2 P c n : forall addr,
  stable P -> 0 <= method_size c ->
  hoare P (size_cases c n addr)
        (fun ms s => P s /\ List.length ms = n /\
                     Forall (fun m => shaped c m /\ m_instrs m = [] /\ m_callees m = [] /\ 0 <= m_body m) ms
                     /\ exists b, chained ms addr b).
Proof.
  induction n as [|k IH]; intros addr St Hms; cbn [size_cases].
  - intros s H. cbn. split; [exact H|]. split; [reflexivity|]. split; [constructor|]. exists addr. constructor.
  - eapply hoare_bind; [apply size_method_spec2; assumption|]. intros m. apply hoare_pure_pre2. intros (S1 & S2 & S3 & S4 & S5) _.
    eapply hoare_bind; [apply IH; assumption|]. intros rest.
    intros s (H & Hl & Hf & b & Hc). cbn. split; [exact H|]. split; [cbn; congruence|].
    split; [constructor; [auto|exact Hf]|]. exists b. constructor; assumption.
Qed.

Lemma fill_cases_spec2 P c : forall ms a b,
  stable P -> cfg_facts c -> Forall (fun m => shaped c m /\ m_instrs m = [] /\ m_callees m = [] /\ 0 <= m_body m) ms -> chained ms a b ->
  hoare P (fill_cases c ms)
        (fun ms' s => P s /\ List.length ms' = List.length ms /\ Forall (mok c) ms' /\ chained ms' a b).
Proof.
  induction ms as [|m tl IH]; intros a b St F Hf Hc; cbn [fill_cases].
  - intros s H. cbn. split; [exact H|]. split; [reflexivity|]. split; [constructor|exact Hc].
  - inversion Hf as [|? ? (Sh & _ & _ & Hb0) Hf']; subst. inversion Hc as [|? ? ? ? Ha Hc']; subst.
    eapply hoare_bind; [apply fill_method_spec2; assumption|]. intros m'. apply hoare_pure_pre2. intros Hh Hfl.
    eapply hoare_bind; [eapply IH; eassumption|]. intros rest.
    intros s (H & Hl & Hm & Hch). cbn. split; [exact H|]. split; [cbn; congruence|].
    split; [constructor; [split; [eapply same_header_shaped; eassumption|exact Hfl]|exact Hm]|].
    constructor; [destruct Hh as (E & _); exact E|]. rewrite (same_header_total _ _ Hh). exact Hch.
Qed.

Lemma add_methods_eq : forall ms' s,
  add_methods ms' s = OK (seq (List.length (g_methods s)) (List.length ms'),
                          mk_gs (g_script s) (g_methods s ++ ms') (g_depths s) (g_elements s)).
Proof.
  induction ms' as [|m tl IH]; intros s; cbn [add_methods].
  - unfold ret. cbn. rewrite app_nil_r. destruct s; reflexivity.
  - unfold mbind, add_method. rewrite IH. cbn [g_script g_methods g_depths g_elements]. unfold ret.
    rewrite app_length. cbn [List.length]. rewrite Nat.add_1_r, <- app_assoc. reflexivity.
Qed.

Lemma mtiles_chained ms0 : forall ms' a b k,
  chained ms' a b ->
  (forall i m, nth_error ms' i = Some m -> nth_error ms0 (k + i) = Some m) ->
  mtiles ms0 (seq k (List.length ms')) a b.
Proof.
  induction ms' as [|m tl IH]; intros a b k Hc Hn; inversion Hc; subst; cbn [List.length seq].
  - constructor.
  - econstructor; [specialize (Hn O m eq_refl); rewrite Nat.add_0_r in Hn; exact Hn|reflexivity|].
    apply IH; [assumption|]. intros i m' Hi. specialize (Hn (S i) m' Hi). rewrite <- Nat.add_succ_comm in Hn. exact Hn.
Qed.

(* register_methods files every new id under the depth of its method *)
Lemma register_methods_eq : forall ids ms' s,
  exists d', register_methods ids ms' s = OK (tt, mk_gs (g_script s) (g_methods s) d' (g_elements s)) /\
             (depth_ok (g_methods s) (g_depths s) ->
              Forall2 (fun id m => nth_error (g_methods s) id = Some m) ids ms' -> depth_ok (g_methods s) d').
Proof.
  induction ids as [|id it IH]; intros ms' s; cbn [register_methods].
  - exists (g_depths s). split; [destruct s; reflexivity|auto].
  - destruct ms' as [|m mt]; [exists (g_depths s); split; [destruct s; reflexivity|auto]|].
    unfold mbind, register_method.
    destruct (IH mt (mk_gs (g_script s) (g_methods s) (depths_add (g_depths s) (m_depth m) id) (g_elements s)))
      as (d' & E & Hd). cbn [g_script g_methods g_depths g_elements] in *.
    exists d'. split; [exact E|]. intros D F2. inversion F2; subst. apply Hd; [|assumption].
    eapply depth_ok_add; [exact D|eassumption|reflexivity].
Qed.

Lemma switch_instrs_len c pic_addr : forall ms n sw,
  switch_instrs c pic_addr n ms = OK sw -> zlen sw = 3 * Z.of_nat (List.length ms) + 1.
Proof.
  induction ms as [|m tl IH]; intros n sw; cbn [switch_instrs].
  - destruct ret_ as [r|e]; cbn [bind]; [|discriminate]. intros H; inversion H. reflexivity.
  - destruct (build_switch_case _ _ _ _) as [sc|e] eqn:Es; cbn [bind]; [|discriminate].
    destruct (switch_instrs c pic_addr (n + 1) tl) as [rest|e] eqn:Er; cbn [bind]; [|discriminate].
    intros H; inversion H; subst. rewrite zlen_app, (IH _ _ Er).
    assert (L : zlen sc = 3).
    { unfold build_switch_case in Es.
      repeat match type of Es with
             | (if ?b then _ else _) = _ => destruct b; [discriminate|]
             end.
      apply sequence_OK in Es.
      inversion Es as [|? ? ? ? _ H1]; subst. inversion H1 as [|? ? ? ? _ H2]; subst.
      inversion H2 as [|? ? ? ? _ H3]; subst. inversion H3; subst. reflexivity. }
    rewrite L. cbn [List.length]. lia.
Qed.

Lemma P1_add_pic c start addr s ms' sw cases b d' :
  P1 c start addr s -> Forall (mok c) ms' -> chained ms' (addr + switch_size cases * 4) b ->
  cases = zlen ms' -> zlen sw = switch_size cases ->
  depth_ok (g_methods s ++ ms') d' ->
  P1 c start b
     (mk_gs (g_script s) (g_methods s ++ ms') d'
            (g_elements s ++ [EPic (mk_pic addr cases (seq (List.length (g_methods s)) (List.length ms')) sw)])).
Proof.
  intros [T I D Ms] Hm Hc Hcases Hsw Hd. constructor; cbn [g_methods g_depths g_elements].
  - eapply tiles_app; [eapply tiles_ext; [apply ext_app|exact T]|].
    econstructor; [reflexivity| | | |constructor]; cbn [p_addr p_cases p_methods p_switch].
    + unfold zlen. rewrite seq_length. exact Hcases.
    + exact Hsw.
    + apply mtiles_chained; [exact Hc|]. intros i m Hi. rewrite nth_error_app2 by lia.
      replace (List.length (g_methods s) + i - List.length (g_methods s))%nat with i by lia. exact Hi.
  - rewrite flat_map_app, I, app_length. cbn [flat_map element_method_ids p_methods app].
    rewrite app_nil_r, seq_app. reflexivity.
  - exact Hd.
  - apply Forall_app. split; assumption.
Qed.

Lemma Forall2_seq_app (ms ms' : list method) :
  Forall2 (fun id m => nth_error (ms ++ ms') id = Some m) (seq (List.length ms) (List.length ms')) ms'.
Proof.
  assert (G : forall l k, (forall i m, nth_error l i = Some m -> nth_error (ms ++ ms') (k + i) = Some m) ->
                          Forall2 (fun id m => nth_error (ms ++ ms') id = Some m) (seq k (List.length l)) l).
  { induction l as [|x tl IH]; intros k Hn; cbn [List.length seq]; constructor.
    - specialize (Hn O x eq_refl). rewrite Nat.add_0_r in Hn. exact Hn.
    - apply IH. intros i m Hi. specialize (Hn (S i) m Hi). rewrite <- Nat.add_succ_comm in Hn. exact Hn. }
  apply G. intros i m Hi. rewrite nth_error_app2 by lia.
  replace (List.length ms + i - List.length ms)%nat with i by lia. exact Hi.
Qed.

Definition PL (c : config) (start addr : Z) (n0 : nat) (s : gstate) : Prop :=
  P1 c start addr s /\ List.length (g_methods s) = n0.

Lemma PL_stable c start addr n0 : stable (PL c start addr n0).
Proof.
  intros s s' [H1 H2] E Sx. split; [eapply P1_stable; eassumption|]. destruct E as (E & _). congruence.
Qed.

Lemma add_element_spec2 c start addr remaining n0 :
  cfg_facts c -> 0 <= method_size c -> 1 <= remaining ->
  hoare (PL c start addr n0)
        (add_element c addr remaining)
        (fun r s => P1 c start (addr + fst r * 4) s /\
                     Z.of_nat (List.length (g_methods s)) = Z.of_nat n0 + snd r /\ 1 <= snd r <= remaining).
Proof.
  intros F Hms Hrem. unfold add_element.
  pose proof (PL_stable c start addr n0) as St.
  eapply hoare_bind; [apply draw_choices_spec; exact St|]. intros ks. apply hoare_pure_pre2. intros _ _.
  destruct ks as [|k [|? ?]]; cbv beta iota; [apply hoare_fail| |destruct k; apply hoare_fail].
  assert (PIC :
    hoare (PL c start addr n0)
      (let* z := m_ztp c in
       let cases := Z.min z remaining in
       let maddr := addr + switch_size cases * 4 in
       let* ms := size_cases c (Z.to_nat cases) maddr in
       let* ms' := fill_cases c ms in
       let* sw := lift (switch_instrs c addr 0 ms') in
       let* ids := add_methods ms' in
       let* _ := push_element (EPic (mk_pic addr cases ids sw)) in
       let* _ := register_methods ids ms' in
       ret (switch_size cases + sum_totals ms', cases))
      (fun r s => P1 c start (addr + fst r * 4) s /\
                   Z.of_nat (List.length (g_methods s)) = Z.of_nat n0 + snd r /\ 1 <= snd r <= remaining)).
  { eapply hoare_bind; [apply m_ztp_spec2; exact St|]. intros z. apply hoare_pure_pre. intros Hz. cbv zeta.
    set (cases := Z.min z remaining). assert (Hcases : 1 <= cases <= remaining) by (unfold cases; lia).
    eapply hoare_bind; [apply size_cases_spec2; assumption|]. intros ms.
    apply hoare_pure_pre. intros (Hl & Hf & b & Hc).
    eapply hoare_bind; [eapply fill_cases_spec2; eassumption|]. intros ms'.
    apply hoare_pure_pre. intros (Hl' & Hm' & Hc').
    eapply hoare_bind; [apply hoare_lift|]. intros sw. apply hoare_pure_pre. intros Hsw.
    intros s [HP Hn]. unfold mbind. rewrite add_methods_eq. unfold push_element at 1.
    cbn [g_script g_methods g_depths g_elements].
    match goal with |- context [register_methods ?ids ms' ?st] =>
      destruct (register_methods_eq ids ms' st) as (d' & E & Hd) end.
    rewrite E. unfold ret. cbn [fst snd g_script g_methods g_depths g_elements] in *.
    assert (Hz' : zlen ms' = cases).
    { unfold zlen. rewrite Hl', Hl. rewrite Z2Nat.id; lia. }
    split; [|split; [rewrite app_length, Hn; unfold zlen in Hz'; lia|exact Hcases]].
    replace (addr + (switch_size cases + sum_totals ms') * 4) with b
      by (rewrite (chained_sum _ _ _ Hc'); lia).
    apply P1_add_pic; try assumption; [symmetry; exact Hz'| |].
    + rewrite (switch_instrs_len _ _ _ _ _ Hsw). unfold switch_size. unfold zlen in Hz'. lia.
    + apply Hd; [eapply depth_ok_ext; [apply depth_ext_app|apply (p1_depths _ _ _ _ HP)]|apply Forall2_seq_app]. }
  destruct k as [|p|p]; [|exact PIC|exact PIC].
  eapply hoare_bind; [apply size_method_spec2; assumption|]. intros m. apply hoare_pure_pre2. intros (S1 & S2 & S3 & S4 & S5) _.
  eapply hoare_bind; [apply fill_method_spec2; assumption|]. intros m'. apply hoare_pure_pre2. intros Hh Hfl.
  intros s [HP Hn]. unfold mbind, add_method, push_element, register_method, ret.
  cbn [fst snd g_script g_methods g_depths g_elements].
  split; [|split; [rewrite app_length, Hn; cbn [List.length]; lia|lia]].
  apply P1_add_method; [exact HP|split; [eapply same_header_shaped; eassumption|exact Hfl]|].
  destruct Hh as (E & _). congruence.
Qed.

Lemma hoare_pre_fact {A} (P : gstate -> Prop) (phi : Prop) (m : M A) Q :
  (forall s, P s -> phi) -> (phi -> hoare P m Q) -> hoare P m Q.
Proof. intros H1 H2 s HP. exact (H2 (H1 s HP) s HP). Qed.

Lemma fill_loop_spec2 c start fuel : forall addr count,
  cfg_facts c -> 0 <= method_size c ->
  hoare (fun s => P1 c start addr s /\ Z.of_nat (List.length (g_methods s)) = count /\ count <= c_nb_methods c)
        (fill_loop c fuel addr count)
        (fun e s => P1 c start e s /\ Z.of_nat (List.length (g_methods s)) = c_nb_methods c).
Proof.
  induction fuel as [|k IH]; intros addr count F Hms; cbn [fill_loop].
  - destruct (Z.leb_spec (c_nb_methods c) count); [|apply hoare_fail].
    intros s (H1 & H2 & H3). cbn. split; [exact H1|lia].
  - destruct (Z.leb_spec (c_nb_methods c) count) as [Hle|Hlt].
    + intros s (H1 & H2 & H3). cbn. split; [exact H1|lia].
    + apply hoare_pre_fact with (phi := 0 <= count); [intros s (_ & H2 & _); lia|]. intros Hc0.
      eapply hoare_bind.
      * eapply hoare_conseq with (P := PL c start addr (Z.to_nat count));
          [|intros a s0 H0; exact H0|apply (add_element_spec2 c start addr (c_nb_methods c - count)); [exact F|exact Hms|lia]].
        intros s (H1 & H2 & H3). split; [exact H1|lia].
      * intros [size nm]. cbn [fst snd].
        eapply hoare_conseq; [|intros a s0 H0; exact H0|apply (IH (addr + size * 4) (count + nm) F Hms)].
        intros s (H1 & H2 & H3). split; [exact H1|split; lia].
Qed.

Definition empty_objects (s : gstate) : Prop := g_methods s = [] /\ g_depths s = [] /\ g_elements s = [].

Lemma empty_objects_stable : stable empty_objects.
Proof. intros s s' (A & B & C) (E1 & E2 & E3) _. unfold empty_objects. rewrite E1, E2, E3. auto. Qed.

Lemma P1_empty c start s : empty_objects s -> P1 c start start s.
Proof.
  intros (E1 & E2 & E3). constructor; rewrite ?E1, ?E2, ?E3; cbn; constructor.
Qed.

Lemma fill_jit_code_spec2 c start :
  cfg_facts c -> 0 <= method_size c -> 1 <= c_nb_methods c ->
  hoare empty_objects (fill_jit_code c start)
        (fun e s => P1 c start e s /\ Z.of_nat (List.length (g_methods s)) = c_nb_methods c).
Proof.
  intros F Hms Hnb. unfold fill_jit_code.
  pose proof empty_objects_stable as St.
  eapply hoare_bind; [apply size_method_spec2; assumption|]. intros m. apply hoare_pure_pre2. intros (S1 & S2 & S3 & S4 & S5) Hleaf.
  eapply hoare_bind; [apply fill_method_spec2; assumption|]. intros m'. apply hoare_pure_pre2. intros Hh Hfl.
  intros s He. unfold mbind at 1 2 3. unfold add_method, push_element, register_method.
  cbn [fst snd g_script g_methods g_depths g_elements].
  pose proof (P1_empty c start s He) as HP.
  assert (Hd : m_depth m' = 0). { destruct Hh as (_ & _ & _ & D & _). rewrite D. apply Hleaf. reflexivity. }
  assert (Ha : m_addr m' = start). { destruct Hh as (E & _). congruence. }
  pose proof (P1_add_method c start start s m' HP (conj (same_header_shaped c m m' Hh S1) Hfl) Ha) as HP'.
  rewrite Hd in HP'.
  refine (fill_loop_spec2 c start _ _ 1 F Hms _ _).
  split; [exact HP'|]. cbn [g_methods]. destruct He as (E1 & _). rewrite E1. cbn. lia.
Qed.

(* ------------------------------------------------------------------ phase 2 *)
Definition mok2 (c : config) (m : method) : Prop :=
  shaped c m /\ zlen (m_instrs m) = m_pro m + Z.max 0 (m_body m) + m_epi m /\ 0 <= m_body m.

(* patched (or nothing to patch): the declared number of callees *)
Definition done (m : method) : Prop :=
  if m_depth m =? 0 then m_callees m = [] else zlen (m_callees m) = m_calls m.

Record P2o (c : config) (start e : Z) (ms : list method) (d : list (Z * list nat)) (es : list elt) : Prop := {
  p2_tiles : tiles ms es start e;
  p2_ids : flat_map element_method_ids es = seq 0 (List.length ms);
  p2_depths : depth_ok ms d;
  p2_methods : Forall (mok2 c) ms;
  p2_callees : callees_ok ms;
  p2_count : Z.of_nat (List.length ms) = c_nb_methods c
}.
Definition P2 c start e (s : gstate) : Prop := P2o c start e (g_methods s) (g_depths s) (g_elements s).

Definition pending (todo : list nat) (ms : list method) : Prop :=
  forall j m, nth_error ms j = Some m -> done m \/ (In j todo /\ m_callees m = []).

Lemma P1_P2 c start e s :
  P1 c start e s -> Z.of_nat (List.length (g_methods s)) = c_nb_methods c ->
  P2 c start e s /\ pending (seq 0 (List.length (g_methods s))) (g_methods s).
Proof.
  intros [T I D Ms] Hn. split.
  - constructor; try assumption.
    + eapply Forall_impl; [|exact Ms]. intros m [Sh [_ L]]. split; assumption.
    + unfold callees_ok. eapply Forall_impl; [|exact Ms]. intros m [_ [Ec _]]. rewrite Ec. constructor.
  - intros j m Hj. right. split.
    + apply in_seq. split; [lia|]. cbn. apply nth_error_Some. congruence.
    + rewrite Forall_forall in Ms. destruct (Ms m (nth_error_In _ _ Hj)) as [_ [Ec _]]. exact Ec.
Qed.

(* replacing one method by one with the same header *)
Lemma P2o_set c start e ms d es id m m' :
  P2o c start e ms d es -> nth_error ms id = Some m -> same_header m m' -> mok2 c m' ->
  Forall (fun cal => exists cm, nth_error ms cal = Some cm /\ m_depth cm < m_depth m) (m_callees m') ->
  P2o c start e (set_nth ms id m') d es.
Proof.
  intros [T I D Ms C N] Hn Hh Hm' Hc.
  assert (Hlt : (id < List.length ms)%nat) by (apply nth_error_Some; congruence).
  assert (Ext : forall j x, nth_error ms j = Some x ->
                exists x', nth_error (set_nth ms id m') j = Some x' /\ m_addr x' = m_addr x /\ m_total x' = m_total x
                           /\ m_depth x' = m_depth x).
  { intros j x Hj. rewrite nth_error_set_nth by exact Hlt. destruct (Nat.eqb_spec j id) as [->|Hne].
    - exists m'. rewrite Hn in Hj. inversion Hj; subst x. split; [reflexivity|].
      split; [apply Hh|]. split; [apply same_header_total; exact Hh|apply Hh].
    - exists x. auto. }
  constructor.
  - eapply tiles_ext; [|exact T]. intros j x Hj. destruct (Ext j x Hj) as (x' & A & B & C' & _). eauto.
  - rewrite set_nth_length by exact Hlt. exact I.
  - eapply depth_ok_ext; [|exact D]. intros j x Hj. destruct (Ext j x Hj) as (x' & A & _ & _ & B). eauto.
  - unfold set_nth. apply Forall_app. split; [apply Forall_firstn; exact Ms|].
    constructor; [exact Hm'|apply Forall_skipn; exact Ms].
  - assert (Lift : forall dp l,
              Forall (fun cal => exists cm, nth_error ms cal = Some cm /\ m_depth cm < dp) l ->
              Forall (fun cal => exists cm, nth_error (set_nth ms id m') cal = Some cm /\ m_depth cm < dp) l).
    { intros dp l H. eapply Forall_impl; [|exact H]. intros cal (cm & Hcm & Hd). cbv beta.
      destruct (Ext cal cm Hcm) as (x' & A & _ & _ & B). exists x'. split; [exact A|lia]. }
    unfold callees_ok, set_nth. apply Forall_app. split; [apply Forall_firstn|constructor; [|apply Forall_skipn]].
    + eapply Forall_impl; [|exact C]. intros x Hx. apply Lift. exact Hx.
    + replace (m_depth m') with (m_depth m) by (symmetry; apply Hh). apply Lift. exact Hc.
    + eapply Forall_impl; [|exact C]. intros x Hx. apply Lift. exact Hx.
  - rewrite set_nth_length by exact Hlt. exact N.
Qed.

Lemma pending_set todo ms id m' :
  (id < List.length ms)%nat -> pending (id :: todo) ms -> done m' -> pending todo (set_nth ms id m').
Proof.
  intros Hlt Hp Hd j x Hj. rewrite nth_error_set_nth in Hj by exact Hlt.
  destruct (Nat.eqb_spec j id) as [->|Hne].
  - inversion Hj; subst. left. exact Hd.
  - destruct (Hp j x Hj) as [H|[[H|H] Hc]]; [left; exact H|congruence|right; auto].
Qed.

(* ---- instruction counts are kept by patching ---- *)
Lemma frame_lens_nonneg :
  forallb (fun v => forallb (fun leaf => (0 <=? pro_len v leaf) && (0 <=? epi_len v leaf)) [true; false])
          [GBase; GTramp; GRimiSS; GRimiFull; GFixer] = true.
Proof. vm_compute. reflexivity. Qed.

Lemma frame_lens_nonneg_at v leaf : 0 <= pro_len v leaf /\ 0 <= epi_len v leaf.
Proof.
  pose proof frame_lens_nonneg as W. cbn [forallb] in W. repeat (apply andb_prop in W; destruct W as [? W]).
  assert (G : (0 <=? pro_len v leaf) && (0 <=? epi_len v leaf) = true) by (destruct v, leaf; assumption).
  apply andb_prop in G. destruct G as [G1 G2]. apply Z.leb_le in G1. apply Z.leb_le in G2. auto.
Qed.

Lemma base_call_len offset stub : build_method_base_call offset = OK stub -> zlen stub = 2.
Proof.
  unfold build_method_base_call. destruct (split_offset offset 8) as [[lo hi]|e]; cbn [bind]; [|discriminate].
  intros H. apply sequence_OK in H.
  inversion H as [|? ? ? ? _ H']; subst. inversion H' as [|? ? ? ? _ H'']; subst. inversion H''; subst. reflexivity.
Qed.

Lemma method_base_call_len v offset stub :
  method_base_call (bvariant_of v) offset = OK stub -> 0 < zlen stub <= ga_call_size (attrs_of v).
Proof.
  unfold method_base_call. destruct v; cbn [bvariant_of attrs_of];
    try (intros H; rewrite (base_call_len _ _ H); vm_compute; split; [reflexivity|discriminate]).
  unfold fixer_method_base_call. destruct (Z.abs offset <? 20); [discriminate|].
  destruct (sequence _) as [pre|e] eqn:Epre; cbn [bind]; [|discriminate].
  destruct (build_method_base_call (offset - 12)) as [call|e] eqn:Ecall; cbn [bind]; [|discriminate].
  intros H; inversion H; subst. rewrite zlen_app, (base_call_len _ _ Ecall).
  apply sequence_OK in Epre.
  inversion Epre as [|? ? ? ? _ H']; subst. inversion H' as [|? ? ? ? _ H'']; subst.
  inversion H'' as [|? ? ? ? _ H''']; subst. inversion H'''; subst. vm_compute. split; [reflexivity|discriminate].
Qed.

Lemma replace_slice_len {A} (l : list A) i new :
  (i + List.length new <= List.length l)%nat -> List.length (replace_slice l i new) = List.length l.
Proof.
  intros H. unfold replace_slice. rewrite !app_length, firstn_length, skipn_length. lia.
Qed.

Lemma patch_calls_len c self_addr lo hi : forall idx callees instrs out,
  0 <= lo -> hi <= zlen instrs ->
  Forall (fun i => lo <= i /\ i + ga_call_size (attrs_of (c_variant c)) <= hi) idx ->
  patch_calls c self_addr instrs idx callees = OK out -> zlen out = zlen instrs.
Proof.
  induction idx as [|i it IH]; intros callees instrs out Hlo Hhi Hidx; cbn [patch_calls].
  - intros H; inversion H; subst. reflexivity.
  - destruct callees as [|cal ct]; [intros H; inversion H; subst; reflexivity|].
    destruct (method_base_call _ _) as [stub|e] eqn:Es; cbn [bind]; [|discriminate].
    inversion Hidx as [|? ? [Hi1 Hi2] Hit]; subst.
    pose proof (method_base_call_len _ _ _ Es) as Hs.
    assert (L : zlen (replace_slice instrs (Z.to_nat i) stub) = zlen instrs).
    { unfold zlen in *. rewrite replace_slice_len; [reflexivity|lia]. }
    intros H. rewrite <- L. eapply IH; [exact Hlo|rewrite L; exact Hhi|exact Hit|exact H].
Qed.

Definition objs_are (ms : list method) (d : list (Z * list nat)) (es : list elt) (s : gstate) : Prop :=
  g_methods s = ms /\ g_depths s = d /\ g_elements s = es.
Lemma objs_are_stable ms d es : stable (objs_are ms d es).
Proof. intros s s' (A & B & C) (E1 & E2 & E3) _. unfold objs_are. rewrite E1, E2, E3. auto. Qed.

Lemma get_methods_objs ms d es ids :
  hoare (objs_are ms d es) (get_methods ids) (fun _ s => objs_are ms d es s).
Proof.
  induction ids as [|id tl IH]; cbn [get_methods].
  - intros s H. cbn. exact H.
  - eapply hoare_bind with (Q := fun _ s => objs_are ms d es s).
    + intros s H. unfold get_method. destruct (nth_error (g_methods s) id); [exact H|exact I].
    + intros m. eapply hoare_bind; [exact IH|]. intros rest s H. cbn. exact H.
Qed.

Lemma patch_with_spec2 c start e ms d es todo id m :
  P2o c start e ms d es -> pending (id :: todo) ms -> nth_error ms id = Some m -> m_depth m <> 0 ->
  hoare (objs_are ms d es)
    (let pc := possible_callees d (m_depth m) in
     let* picks := draw_choices (zlen pc) (m_calls m) WNone in
     let callee_ids := map (fun i => nth (Z.to_nat i) pc O) picks in
     if nat_mem id callee_ids then fail ERecursive else
     let* cms := get_methods callee_ids in
     if existsb (fun cm => nat_mem id (m_callees cm)) cms then fail EMutual else
     let cs := m_call_size m in
     let* idx := draw_sample (m_pro m + m_body m - cs) (m_pro m - 1) (- cs) (zlen callee_ids) in
     let* ins := lift (patch_calls c (m_addr m) (m_instrs m) idx cms) in
     set_method id (mk_method (m_addr m) (m_body m) (m_calls m) (m_depth m) (m_call_size m) (m_pro m)
                      (m_epi m) ins callee_ids))
    (fun _ s' => P2 c start e s' /\ pending todo (g_methods s')).
Proof.
  intros HP Hpend Hn Hdep. pose proof (objs_are_stable ms d es) as St. cbv zeta.
  assert (Hm2 : mok2 c m).
  { pose proof (p2_methods _ _ _ _ _ _ HP) as Ms. rewrite Forall_forall in Ms. apply Ms. eapply nth_error_In. exact Hn. }
  destruct Hm2 as [Sh [Len Hbody]].
  eapply hoare_bind; [apply draw_choices_spec; exact St|]. intros picks. apply hoare_pure_pre2. intros Hlen Hrange.
  destruct (nat_mem id _); [apply hoare_fail|].
  eapply hoare_bind; [apply get_methods_objs|]. intros cms.
  destruct (existsb _ cms); [apply hoare_fail|].
  eapply hoare_bind; [apply draw_sample_spec; exact St|]. intros idx. apply hoare_pure_pre. intros (_ & Hidx & _).
  eapply hoare_bind; [apply hoare_lift|]. intros ins. apply hoare_pure_pre. intros Hins.
  intros s (E1 & E2 & E3). unfold set_method. cbn [fst snd]. unfold P2. cbn [g_methods g_depths g_elements].
  rewrite E1, E2, E3. fold (set_nth ms id (mk_method (m_addr m) (m_body m) (m_calls m) (m_depth m) (m_call_size m)
                                             (m_pro m) (m_epi m) ins (map (fun i => nth (Z.to_nat i) (possible_callees d (m_depth m)) O) picks))).
  set (m' := mk_method _ _ _ _ _ _ _ ins _).
  assert (Hh : same_header m m') by (unfold same_header, m'; cbn; repeat split; reflexivity).
  assert (Hlt : (id < List.length ms)%nat) by (apply nth_error_Some; congruence).
  destruct (frame_lens_nonneg_at (c_variant c) (m_is_leaf m)) as [Hp0 He0].
  split.
  - eapply P2o_set; [exact HP|exact Hn|exact Hh| |].
    + split; [eapply same_header_shaped; eassumption|]. unfold m'. cbn [m_instrs m_pro m_body m_epi].
      split; [|exact Hbody]. rewrite <- Len. eapply (patch_calls_len c (m_addr m) (m_pro m) (m_pro m + m_body m)); [| | |exact Hins].
      * rewrite (sh_pro c m Sh). exact Hp0.
      * rewrite Len, (sh_epi c m Sh). lia.
      * eapply Forall_impl; [|exact Hidx]. intros i [Hi _]. cbv beta. rewrite <- (sh_cs c m Sh). lia.
    + unfold m'. cbn [m_callees]. apply Forall_forall. intros cal Hcal. apply in_map_iff in Hcal.
      destruct Hcal as (i & <- & Hi). rewrite Forall_forall in Hrange. specialize (Hrange i Hi).
      apply (possible_callees_spec ms d (m_depth m)); [apply (p2_depths _ _ _ _ _ _ HP)|].
      apply nth_In. unfold zlen in Hrange. lia.
  - apply pending_set; [exact Hlt|exact Hpend|]. unfold done, m'. cbn [m_depth m_callees m_calls].
    destruct (Z.eqb_spec (m_depth m) 0); [contradiction|]. unfold zlen in *. rewrite map_length. exact Hlen.
Qed.

Lemma patch_method_spec2 c start e todo id :
  hoare (fun s => P2 c start e s /\ pending (id :: todo) (g_methods s)) (patch_method c id)
        (fun _ s => P2 c start e s /\ pending todo (g_methods s)).
Proof.
  intros s [HP Hpend]. unfold patch_method, mbind at 1, get_method.
  destruct (nth_error (g_methods s) id) as [m|] eqn:En; [|exact I].
  destruct (Z.eqb_spec (m_depth m) 0) as [Hz|Hnz].
  - cbn. split; [exact HP|]. intros j x Hj. destruct (Hpend j x Hj) as [H|[[H|H] Hc]]; [left; exact H| |right; auto].
    left. subst j. rewrite En in Hj. inversion Hj; subst x. unfold done. rewrite Hz. cbn. exact Hc.
  - exact (patch_with_spec2 c start e _ _ _ todo id m HP Hpend En Hnz s (conj eq_refl (conj eq_refl eq_refl))).
Qed.

Lemma patch_ids_spec2 c start e : forall ids,
  hoare (fun s => P2 c start e s /\ pending ids (g_methods s)) (patch_ids c ids)
        (fun _ s => P2 c start e s /\ pending [] (g_methods s)).
Proof.
  induction ids as [|id tl IH]; cbn [patch_ids].
  - intros s H. cbn. exact H.
  - eapply hoare_bind; [apply patch_method_spec2|]. intro. exact IH.
Qed.

Lemma patch_jit_calls_spec2 c start e :
  hoare (fun s => P2 c start e s /\ pending (seq 0 (List.length (g_methods s))) (g_methods s)) (patch_jit_calls c)
        (fun _ s => P2 c start e s /\ pending [] (g_methods s)).
Proof.
  intros s [HP Hpend]. unfold patch_jit_calls. rewrite (p2_ids _ _ _ _ _ _ HP).
  exact (patch_ids_spec2 c start e _ s (conj HP Hpend)).
Qed.

(* ------------------------------------------------------------------ phase 3 and assembly *)
Lemma interpreter_call_stable P c e ea cur ta :
  stable P -> hoare P (interpreter_call c e ea cur ta) (fun _ s => P s).
Proof.
  intros St. unfold interpreter_call.
  destruct (uses_tramp (c_variant c)); destruct e as [id|p].
  - apply hoare_lift_post. intros a _ s H. exact H.
  - eapply hoare_bind; [apply draw_randint_spec; exact St|]. intros h. apply hoare_pure_pre. intros _.
    apply hoare_lift_post. intros a _ s H. exact H.
  - apply hoare_lift_post. intros a _ s H. exact H.
  - eapply hoare_bind; [apply draw_randint_spec; exact St|]. intros h. apply hoare_pure_pre. intros _.
    apply hoare_lift_post. intros a _ s H. exact H.
Qed.

Lemma interpreter_calls_stable P c ms es : forall cur ta,
  stable P -> hoare P (interpreter_calls c ms es cur ta) (fun _ s => P s).
Proof.
  induction es as [|e tl IH]; intros cur ta St; cbn [interpreter_calls].
  - intros s H. cbn. exact H.
  - eapply hoare_bind; [apply interpreter_call_stable; exact St|]. intros stub.
    eapply hoare_bind; [apply IH; exact St|]. intros rest. intros s H. cbn. exact H.
Qed.

Lemma fill_interpretation_loop_stable P c ta :
  stable P ->
  hoare P (fill_interpretation_loop c ta)
        (fun all s => P s /\ int_start_al c + zlen all * 4 <= jit_start_al c).
Proof.
  intros St. unfold fill_interpretation_loop.
  eapply hoare_bind; [apply hoare_lift|]. intros pro. apply hoare_pure_pre. intros _.
  intros s HI. cbv beta zeta.
  assert (G : hoare P
    (let* perm := draw_shuffle (zlen (g_elements s)) in
     let shuffled := map (fun i => nth (Z.to_nat i) (g_elements s) (EMethod O)) perm in
     let* calls := interpreter_calls c (g_methods s) shuffled (int_start_al c + zlen pro * 4) ta in
     let* epi := lift (base_epilogue 10 0 true) in
     let all := pro ++ calls ++ epi in
     if jit_start_al c <? int_start_al c + zlen all * 4 then fail EWrongAddress else ret all)
    (fun all s' => P s' /\ int_start_al c + zlen all * 4 <= jit_start_al c)).
  { eapply hoare_bind; [apply draw_shuffle_spec; exact St|]. intros perm. apply hoare_pure_pre. intros _.
    cbv zeta. eapply hoare_bind; [apply interpreter_calls_stable; exact St|]. intros calls.
    eapply hoare_bind; [apply hoare_lift|]. intros epi. apply hoare_pure_pre. intros _.
    destruct (Z.ltb_spec (jit_start_al c) (int_start_al c + zlen (pro ++ calls ++ epi) * 4)); [apply hoare_fail|].
    intros s0 H0. cbn. split; [exact H0|lia]. }
  exact (G s HI).
Qed.

(* what a successfully generated image satisfies *)
Record image_wf (c : config) (img : image) : Prop := {
  iw_layout : exists e d, P2o c (jit_start_al c + zlen (List.concat (im_tramps img)) * 4) e
                              (im_methods img) d (im_elements img);
  iw_done : Forall done (im_methods img);
  iw_jit : im_jit img = map generate (List.concat (im_tramps img)) ++ flat_map (elt_words (im_methods img)) (im_elements img);
  iw_int_fits : int_start_al c + zlen (im_int_instrs img) * 4 <= jit_start_al c;
  iw_int_pad : exists fill, im_int img = map generate (im_int_instrs img) ++ fill /\
                            zlen (im_int img) * 4 = jit_start_al c - int_start_al c
}.

Lemma repeat_z_len x n : List.length (repeat_z x n) = n.
Proof. induction n; cbn; congruence. Qed.

Lemma align4_mod x : align x 4 mod 4 = 0.
Proof. unfold align. Z.div_mod_to_equations. lia. Qed.

Lemma pending_nil_done ms : pending [] ms -> Forall done ms.
Proof.
  intros H. apply Forall_forall. intros m Hm. apply In_nth_error in Hm. destruct Hm as (j & Hj).
  destruct (H j m Hj) as [Hd|[[] _]]. exact Hd.
Qed.

Theorem gen_main_wf c :
  cfg_facts c -> 0 <= method_size c -> 1 <= c_nb_methods c ->
  hoare empty_objects (gen_main c) (fun img _ => image_wf c img).
Proof.
  intros F Hms Hnb. unfold gen_main.
  destruct (c_jit_start c <? c_int_start c); [apply hoare_fail|].
  destruct (c_nb_methods c =? 0); [apply hoare_fail|].
  pose proof empty_objects_stable as St.
  eapply hoare_bind with (Q := fun _ s => empty_objects s).
  { destruct (uses_tramp (c_variant c)).
    - eapply hoare_bind; [apply hoare_lift|]. intros t1. apply hoare_pure_pre. intros _.
      eapply hoare_bind; [apply hoare_lift|]. intros t2. apply hoare_pure_pre. intros _.
      intros s H. cbn. exact H.
    - intros s H. cbn. exact H. }
  intros tramps. cbv zeta.
  set (start := jit_start_al c + zlen (List.concat tramps) * 4).
  eapply hoare_bind; [apply fill_jit_code_spec2; assumption|]. intros e.
  eapply hoare_bind.
  { eapply hoare_conseq; [|intros a s0 H0; exact H0|apply (patch_jit_calls_spec2 c start e)].
    intros s [H1 H2]. apply P1_P2; assumption. }
  intro.
  assert (St2 : stable (fun s => P2 c start e s /\ pending [] (g_methods s))).
  { intros s s' [A B] (E1 & E2 & E3) _. unfold P2. rewrite E1, E2, E3. split; assumption. }
  eapply hoare_bind; [apply fill_interpretation_loop_stable; exact St2|]. intros ints.
  apply hoare_pure_pre. intros Hfit.
  intros s [HP Hpend]. cbv beta zeta.
  assert (G : hoare (objs_are (g_methods s) (g_depths s) (g_elements s))
    (let* nop := lift nop_ in
     let* data := generate_data (c_data_strategy c) (c_data_size c) in
     let ss := match c_variant c with
               | GRimiSS | GRimiFull => zeros (Z.to_nat (align (c_ss_size c) 8))
               | _ => zeros 8
               end in
     ret (mk_image (map generate ints ++ repeat_z (generate nop)
                      (Z.to_nat ((jit_start_al c - (int_start_al c + zlen (map generate ints) * 4)) / 4)))
            (map generate (List.concat tramps) ++ flat_map (elt_words (g_methods s)) (g_elements s)) data ss
            (g_methods s) (g_elements s) tramps ints))
    (fun img _ => image_wf c img)).
  { eapply hoare_bind; [apply hoare_lift|]. intros nop. apply hoare_pure_pre. intros _.
    eapply hoare_bind; [apply generate_data_spec; apply objs_are_stable|]. intros data.
    intros s0 _. cbn. constructor; cbn [im_methods im_elements im_tramps im_jit im_int im_int_instrs].
    - exists e, (g_depths s). exact HP.
    - apply pending_nil_done. exact Hpend.
    - reflexivity.
    - exact Hfit.
    - eexists. split; [reflexivity|]. rewrite zlen_app. unfold zlen at 2. rewrite repeat_z_len.
      assert (Hl : zlen (map generate ints) = zlen ints) by (unfold zlen; rewrite map_length; reflexivity).
      rewrite Hl. pose proof (align4_mod (c_jit_start c)) as A1. pose proof (align4_mod (c_int_start c)) as A2.
      fold (jit_start_al c) in A1. fold (int_start_al c) in A2.
      rewrite Z2Nat.id by (Z.div_mod_to_equations; lia). Z.div_mod_to_equations. lia. }
  exact (G s (conj eq_refl (conj eq_refl eq_refl))).
Qed.

Theorem run_gen_wf c script img rest :
  cfg_facts c -> 0 <= method_size c -> 1 <= c_nb_methods c ->
  run_gen c script = OK (img, rest) -> image_wf c img.
Proof.
  intros F Hms Hnb H. unfold run_gen in H.
  pose proof (gen_main_wf c F Hms Hnb (mk_gs script [] [] []) (conj eq_refl (conj eq_refl eq_refl))) as G.
  destruct (gen_main c (mk_gs script [] [] [])) as [[im s]|e]; [|discriminate].
  inversion H; subst. exact G.
Qed.
