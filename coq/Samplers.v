(* Samplers.v — bit-exact model of the float code of gigue/helpers.py
   (generate_trunc_norm, generate_poisson, generate_zero_truncated_poisson) and
   of the sizing arithmetic of Generator.generate_method / generate_leaf_method /
   generate_pic / the element-kind choice, over IEEE-754 binary64 as specified
   by Coq's SpecFloat (pure Z arithmetic, no primitive floats, no axioms).
   math.exp(-lambda) and the Gaussian variates are INPUTS. *)
From Coq Require Import ZArith List Bool SpecFloat.
Import ListNotations.
Open Scope Z_scope.

Definition prec := 53.
Definition emax := 1024.
Definition fl := spec_float.

Definition fadd : fl -> fl -> fl := SFadd prec emax.
Definition fsub : fl -> fl -> fl := SFsub prec emax.
Definition fmul : fl -> fl -> fl := SFmul prec emax.
Definition fdiv : fl -> fl -> fl := SFdiv prec emax.
Definition flt : fl -> fl -> bool := SFltb.
Definition fle : fl -> fl -> bool := SFleb.

(* float(int) — exact for |z| < 2^53, correctly rounded beyond *)
Definition of_Z (z : Z) : fl := binary_normalize prec emax z 0 false.

Definition fone : fl := of_Z 1.
Definition fzero : fl := S754_zero false.
Definition fhalf : fl := S754_finite false 4503599627370496 (-53).

(* math.ceil / math.trunc of a finite float; None for inf / nan (OverflowError / ValueError) *)
Definition fceil (x : fl) : option Z :=
  match x with
  | S754_zero _ => Some 0
  | S754_finite s m e =>
      let v := if s then Zneg m else Zpos m in
      if 0 <=? e then Some (v * 2 ^ e)
      else Some (- ((- v) / 2 ^ (- e)))          (* ceil(v / 2^-e) *)
  | _ => None
  end.

Definition ftrunc (x : fl) : option Z :=
  match x with
  | S754_zero _ => Some 0
  | S754_finite s m e =>
      let a := if 0 <=? e then Zpos m * 2 ^ e else Zpos m / 2 ^ (- e) in
      Some (if s then - a else a)
  | _ => None
  end.

(* ---------------------------------------------------------------- samplers *)

(* generate_trunc_norm: the first Gaussian draw x with lo <= x <= hi.
   Returns the value and the remaining draws; None if the draws run out. *)
Fixpoint trunc_norm (lo hi : fl) (draws : list fl) : option (fl * list fl) :=
  match draws with
  | [] => None
  | x :: tl => if fle lo x && fle x hi then Some (x, tl) else trunc_norm lo hi tl
  end.

Record pstate := mk_ps { ps_x : Z; ps_p : fl; ps_s : fl }.

(* one iteration of the sequential search (both samplers share the body) *)
Definition pstep (lam : Z) (st : pstate) : pstate :=
  let x := ps_x st + 1 in
  let p := fmul (ps_p st) (fdiv (of_Z lam) (of_Z x)) in
  mk_ps x p (fadd (ps_s st) p).

(* generate_poisson: while u > s *)
Fixpoint poisson_loop (fuel : nat) (lam : Z) (u : fl) (st : pstate) : option Z :=
  if flt (ps_s st) u then
    match fuel with
    | O => None
    | S k => poisson_loop k lam u (pstep lam st)
    end
  else Some (ps_x st).

Definition poisson_init (exp_neg_lam : fl) : pstate := mk_ps 0 exp_neg_lam exp_neg_lam.

Definition generate_poisson (fuel : nat) (lam : Z) (exp_neg_lam u : fl) : option Z :=
  poisson_loop fuel lam u (poisson_init exp_neg_lam).

(* generate_zero_truncated_poisson: p = exp(-l) / (1 - exp(-l)) * l ; while s < u *)
Definition ztp_init (lam : Z) (exp_neg_lam : fl) : pstate :=
  let p := fmul (fdiv exp_neg_lam (fsub fone exp_neg_lam)) (of_Z lam) in
  mk_ps 1 p p.

Definition generate_ztp (fuel : nat) (lam : Z) (exp_neg_lam u : fl) : option Z :=
  poisson_loop fuel lam u (ztp_init lam exp_neg_lam).

(* ------------------------------------------------------------------ sizing *)

(* variation_sign = 1 if random.random() > 0.5 else -1 *)
Definition sign_of (u : fl) : fl := if flt fhalf u then of_Z 1 else of_Z (-1).

(* body_size = ceil(jit_method_size * (1 + variation_sign * size_variation)) *)
Definition body_size_of (method_size : Z) (u_sign v : fl) : option Z :=
  fceil (fmul (of_Z method_size) (fadd fone (fmul (sign_of u_sign) v))).

(* call_nb = trunc(call_occupation * (body_size // call_size)) *)
Definition call_nb_of (body_size call_size : Z) (occ : fl) : option Z :=
  ftrunc (fmul occ (of_Z (body_size / call_size))).

(* random.choices(["method", "pic"], [1 - r, r])[0] for uniform draw u (CPython:
   cum_weights = accumulate(weights); total = cum_weights[-1] + 0.0;
   bisect(cum_weights, u * total, 0, n - 1)) : true = "pic" *)
Definition kind_is_pic (ratio u : fl) : bool :=
  let w0 := fsub fone ratio in
  let c0 := w0 in
  let c1 := fadd c0 ratio in
  let total := fadd c1 fzero in
  negb (flt (fmul u total) c0).
