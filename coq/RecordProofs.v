(* RecordProofs.v — the records describe the structured image exactly (C16). *)
From Coq Require Import ZArith List String Bool Lia.
From Gigue Require Import Types Bits Enc GenTables Builder Samplers Generator Records.
Import ListNotations.
Open Scope Z_scope.

(* every top-level method record is the (address, size, calls, depth) of the
   method object it was built from *)
Theorem methods_info_faithful img r :
  In r (methods_info img) ->
  exists id m, In (EMethod id) (im_elements img) /\ nth_error (im_methods img) id = Some m /\
               r_addr r = m_addr m /\ r_full_size r = m_total m /\ r_calls r = m_calls m /\ r_depth r = m_depth m.
Proof.
  unfold methods_info. intros Hin. apply in_flat_map in Hin. destruct Hin as (e & He & Hr).
  destruct e as [id|p]; [|destruct Hr]. unfold lookup_m in Hr.
  destruct (nth_error (im_methods img) id) as [m|] eqn:E; [|destruct Hr].
  cbn [map In] in Hr. destruct Hr as [<-|[]]. exists id, m. repeat split; auto.
Qed.

Theorem pics_info_faithful img pr :
  In pr (pics_info img) ->
  exists p, In (EPic p) (im_elements img) /\ pr_addr pr = p_addr p /\ pr_cases pr = p_cases p /\
            pr_full_size pr = pic_total (im_methods img) p /\
            pr_methods pr = flat_map (fun id => map rec_of (lookup_m (im_methods img) id)) (p_methods p).
Proof.
  unfold pics_info. intros Hin. apply in_flat_map in Hin. destruct Hin as (e & He & Hr).
  destruct e as [id|p]; [destruct Hr|]. cbn [In] in Hr. destruct Hr as [<-|[]].
  exists p. repeat split; auto.
Qed.

(* the reported totals are the counts of the element list *)
Theorem nb_pics_is_count img : gd_nb_pics (generation_data img) = zlen (pics_info img).
Proof.
  unfold generation_data, pic_count, pics_info, zlen. cbn [gd_nb_pics].
  induction (im_elements img) as [|e tl IH]; [reflexivity|].
  cbn [map flat_map sumZ fold_right]. rewrite app_length, Nat2Z.inj_add.
  unfold sumZ in IH. rewrite IH. destruct e; cbn [List.length]; lia.
Qed.

(* mean method size and mean case number are ONE float division of the exact
   integer sums by the exact counts *)
Theorem means_are_exact_fractions img :
  gd_mean_method_size (generation_data img) = mean_float (all_sizes img) /\
  gd_pics_mean_case_nb (generation_data img) = mean_float (map pr_cases (pics_info img)) /\
  (forall l, l <> [] -> mean_float l = fdiv (of_Z (sumZ l)) (of_Z (zlen l))) /\ mean_float [] = fzero.
Proof.
  repeat split. intros l Hl. destruct l; [contradiction|reflexivity].
Qed.
