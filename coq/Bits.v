(* Bits.v — bridges from Python-style bit twiddling (land / lor / shifts) to
   + * / mod on Z, so that the encoder model (a literal mirror of the Python)
   can be reasoned about with lia. *)
From Coq Require Import ZArith Znumtheory Lia Bool.
Open Scope Z_scope.

Lemma pow2_pos n : 0 <= n -> 0 < 2 ^ n.
Proof. intros; apply Z.pow_pos_nonneg; lia. Qed.

Lemma land_ones_mod a n : 0 <= n -> Z.land a (2 ^ n - 1) = a mod 2 ^ n.
Proof.
  intros Hn. replace (2 ^ n - 1) with (Z.ones n) by (rewrite Z.ones_equiv; lia).
  apply Z.land_ones; exact Hn.
Qed.

Lemma shiftr_div a n : 0 <= n -> Z.shiftr a n = a / 2 ^ n.
Proof. intros; apply Z.shiftr_div_pow2; assumption. Qed.

Lemma shiftl_mul a n : 0 <= n -> Z.shiftl a n = a * 2 ^ n.
Proof. intros; apply Z.shiftl_mul_pow2; assumption. Qed.

Lemma testbit_small a n i : 0 <= a < 2 ^ n -> n <= i -> Z.testbit a i = false.
Proof.
  intros Ha Hi. destruct (Z.eq_dec a 0) as [->|Hne]; [apply Z.bits_0|].
  apply Z.bits_above_log2; [lia|].
  assert (Z.log2 a < n); [|lia].
  apply Z.log2_lt_pow2; lia.
Qed.

Lemma land_small_shifted a b n :
  0 <= n -> 0 <= a < 2 ^ n -> Z.land a (b * 2 ^ n) = 0.
Proof.
  intros Hn Ha. apply Z.bits_inj'; intros i Hi.
  rewrite Z.land_spec, Z.bits_0.
  destruct (Z_lt_le_dec i n) as [Hlt|Hge].
  - rewrite Z.mul_pow2_bits_low by lia. apply andb_false_r.
  - rewrite (testbit_small a n i) by lia. reflexivity.
Qed.

(* a | (b << n) = a + b * 2^n when a fits below bit n *)
Lemma lor_add a b n :
  0 <= n -> 0 <= a < 2 ^ n -> Z.lor a (b * 2 ^ n) = a + b * 2 ^ n.
Proof.
  intros Hn Ha.
  rewrite <- Z.lxor_lor by (apply land_small_shifted; assumption).
  symmetry; apply Z.add_nocarry_lxor. apply land_small_shifted; assumption.
Qed.

Lemma lor_shiftl_add a b n :
  0 <= n -> 0 <= a < 2 ^ n -> Z.lor a (Z.shiftl b n) = a + b * 2 ^ n.
Proof. intros; rewrite shiftl_mul by assumption; apply lor_add; assumption. Qed.

(* x & (ones(k) << n)  =  ((x >> n) mod 2^k) << n *)
Lemma land_field x k n :
  0 <= k -> 0 <= n ->
  Z.land x (Z.shiftl (Z.ones k) n) = ((x / 2 ^ n) mod 2 ^ k) * 2 ^ n.
Proof.
  intros Hk Hn.
  rewrite <- Z.land_ones by assumption.
  rewrite <- shiftr_div by assumption.
  rewrite <- shiftl_mul by assumption.
  apply Z.bits_inj'; intros i Hi.
  rewrite Z.land_spec, !Z.shiftl_spec by assumption.
  destruct (Z_lt_le_dec i n) as [Hlt|Hge].
  - rewrite (Z.testbit_neg_r (Z.ones k) (i - n)) by lia. rewrite (Z.testbit_neg_r _ (i - n)) by lia. apply andb_false_r.
  - rewrite Z.land_spec, Z.shiftr_spec by lia.
    replace (i - n + n) with i by lia. reflexivity.
Qed.

Lemma mod_mod_pow2 a m n : 0 <= n <= m -> (a mod 2 ^ m) mod 2 ^ n = a mod 2 ^ n.
Proof.
  intros H. symmetry. apply Zmod_div_mod; try (apply pow2_pos; lia).
  exists (2 ^ (m - n)). rewrite <- Z.pow_add_r by lia. f_equal; lia.
Qed.

(* Field extraction from a sum of two disjoint parts *)
Lemma div_add_field lo hi n : 0 <= n -> 0 <= lo < 2 ^ n -> (lo + hi * 2 ^ n) / 2 ^ n = hi.
Proof.
  intros Hn Hlo. rewrite Z.div_add by (apply Z.pow_nonzero; lia).
  rewrite Z.div_small by lia. lia.
Qed.

Lemma mod_add_field lo hi n : 0 <= n -> 0 <= lo < 2 ^ n -> (lo + hi * 2 ^ n) mod 2 ^ n = lo.
Proof.
  intros Hn Hlo. rewrite Z.mod_add by (apply Z.pow_nonzero; lia).
  apply Z.mod_small; lia.
Qed.

(* Python's  v.to_bytes(4,"little")  as a list of 4 bytes, and back. *)
Definition le_bytes32 (w : Z) : list Z :=
  (w mod 256) :: ((w / 256) mod 256) :: ((w / 65536) mod 256) :: ((w / 16777216) mod 256) :: nil.

Definition of_le_bytes32 (l : list Z) : Z :=
  match l with
  | (b0 :: b1 :: b2 :: b3 :: nil)%list => b0 + 256 * b1 + 65536 * b2 + 16777216 * b3
  | _ => -1
  end.

Lemma le_bytes32_inv w : 0 <= w < 2 ^ 32 -> of_le_bytes32 (le_bytes32 w) = w.
Proof.
  intros H. unfold of_le_bytes32, le_bytes32.
  change (2 ^ 32) with 4294967296 in H.
  pose proof (Z.div_mod w 256 ltac:(lia)).
  pose proof (Z.div_mod (w / 256) 256 ltac:(lia)).
  pose proof (Z.div_mod (w / 65536) 256 ltac:(lia)).
  assert (w / 65536 = w / 256 / 256) by (rewrite Z.div_div by lia; reflexivity).
  assert (w / 16777216 = w / 65536 / 256) by (rewrite Z.div_div by lia; reflexivity).
  assert (0 <= w / 16777216 < 256).
  { split; [apply Z.div_pos; lia|apply Z.div_lt_upper_bound; lia]. }
  rewrite (Z.mod_small (w / 16777216) 256) by lia. lia.
Qed.
