(* GenWF5.v — Layer B for method bodies.
   (1) every random body instruction the generator emits DECODES (independent
       decoder, on the emitted word) to an instruction of the shapes BodyExec
       executes: ALU with a usable destination, data access through the data
       register at an aligned in-bounds offset (the duplicated form in RIMI full),
       branch / jump to pc+4;
   (2) hence the body of every depth-0 method of every image executes on the
       reference machine, from any state whose data register holds the data
       base, to its end without a fault, touching only usable registers and the
       data section. *)
From Coq Require Import ZArith List String Bool Lia.
From Gigue Require Import Types Bits Isa IsaProofs Enc EncProofs GenTables Builder Samplers Generator GenLemmas
  Machine MachineLemmas ImageSem GenWF GenWFProps GenWF2 BodyExec BodyBridge.
Import ListNotations.
Open Scope Z_scope.

Definition wr (c : config) (r : Z) : bool := in_zlist r (usable_registers c).
Definition gv (c : config) : variant := variant_of (c_variant c).
Definition dsz (c : config) : Z := align (c_data_size c) 8.

Definition body_dec (c : config) (g : gi) : Prop :=
  exists i, decode (variant_ext (gv c)) (generate g) = Some i /\
            body_instr (gv c) (c_data_reg c) (dsz c) (wr c) i.

(* ---- access widths of the decoded operation = the width the builder aligned for ---- *)
Definition widths_match {O} (tbl : list iinfo) (names : list string) (ops : list O) (enc : O -> Z * Z * Z)
           (w : O -> nat) (wn : string -> Z) : bool :=
  forallb (fun n => match lookup_info tbl n with
                    | Some e => forallb (fun o => negb (t3_eqb (enc o) (fields e)) || (Z.of_nat (w o) =? wn n)) ops
                    | None => true end) names.

Lemma widths_match_spec {O} tbl names (ops : list O) enc w wn name e o :
  widths_match tbl names ops enc w wn = true -> (forall o', In o' ops) ->
  In name names -> lookup_info tbl name = Some e -> enc o = fields e -> Z.of_nat (w o) = wn name.
Proof.
  intros H Hall Hin El Eo. unfold widths_match in H. rewrite forallb_forall in H. specialize (H name Hin).
  rewrite El in H. rewrite forallb_forall in H. specialize (H o (Hall o)).
  apply orb_prop in H. destruct H as [H|H]; [|apply Z.eqb_eq; exact H].
  apply negb_true_iff in H. rewrite Eo in H. unfold t3_eqb in H. destruct (fields e) as [[a b] d].
  rewrite !Z.eqb_refl in H. discriminate.
Qed.

Lemma all_lop_all o : In o all_lop. Proof. destruct o; cbn; auto 10. Qed.
Lemma all_sop_all o : In o all_sop. Proof. destruct o; cbn; auto 10. Qed.

Lemma L_widths : widths_match base_table b_I_INSTRUCTIONS_LOAD all_lop (fun o => (3, enc_lop o, 0)) lwidth width_of_name = true.
Proof. vm_compute. reflexivity. Qed.
Lemma S_widths : widths_match base_table b_S_INSTRUCTIONS all_sop (fun o => (35, enc_sop o, 0)) swidth width_of_name = true.
Proof. vm_compute. reflexivity. Qed.
Lemma L1_widths : widths_match rimi_table b_RIMI_I_INSTRUCTIONS_LOAD all_lop (fun o => (11, enc_lop o, 0)) lwidth mem_width = true.
Proof. vm_compute. reflexivity. Qed.
Lemma S1_widths : widths_match rimi_table b_RIMI_S_INSTRUCTIONS all_sop (fun o => (43, enc_sop o, 0)) swidth mem_width = true.
Proof. vm_compute. reflexivity. Qed.

Lemma fits_from_draw c v al w :
  cfg_facts c -> 0 <= v <= Z.min (c_data_size c - 8) 2047 -> (al = 1 \/ al = 2 \/ al = 4 \/ al = 8) -> w = al ->
  access_fits (dsz c) w (align v al) /\ 0 <= align v al < 2048.
Proof.
  intros F Hv Hal ->.
  pose proof (offset_in_bounds (c_data_size c) v al (cf_data_size c F) Hv Hal) as (B1 & B2 & B3 & B4).
  unfold access_fits, dsz. repeat split; lia.
Qed.

Lemma gv_ext_none c : is_protected (c_variant c) = false -> variant_ext (gv c) = ExtNone.
Proof. unfold gv. destruct (c_variant c); cbn; intros; try discriminate; reflexivity. Qed.

Lemma usable_wr c i :
  cfg_facts c -> 0 <= i < zlen (usable_registers c) ->
  0 <= nth_z (usable_registers c) i < 32 /\ wr c (nth_z (usable_registers c) i) = true.
Proof. intros F Hi. exact (usable_nth_ok c i F Hi). Qed.

Lemma nth_z_cons0 (regs : list Z) a :
  Forall (fun r => 0 <= r < 32) regs -> 0 <= a < zlen regs + 1 -> 0 <= nth_z (0 :: regs) a < 32.
Proof.
  intros HF Ha. unfold nth_z. destruct (Z.to_nat a) as [|k] eqn:E.
  - cbn. lia.
  - cbn [nth]. rewrite Forall_forall in HF. apply HF. apply nth_In. unfold zlen in Ha.
    assert (Ea : a = Z.of_nat (S k)) by (rewrite <- E; rewrite Z2Nat.id; lia). rewrite Nat2Z.inj_succ in Ea. lia.
Qed.

Theorem random_instruction_dec (P : gstate -> Prop) c mo :
  stable P -> cfg_facts c ->
  hoare P (random_instruction c (usable_registers c) mo) (fun g s => P s /\ body_dec c g).
Proof.
  intros St F. unfold random_instruction.
  set (U := usable_registers c).
  eapply hoare_bind; [apply draw_choices_spec; exact St|]. intros ks. apply hoare_pure_pre2. intros _ _.
  set (k := match ks with [k] => k | _ => 0 end).
  pose proof (cf_data_reg c F) as Hdr.
  destruct (k =? 0).
  { eapply hoare_bind; [apply draw_choice_spec; exact St|]. intros i. apply hoare_pure_pre. intros Hi.
    eapply hoare_bind; [apply draw_choices_spec; exact St|]. intros rs. apply hoare_pure_pre2. intros Hlen Hall.
    destruct rs as [|a [|b [|d [|? ?]]]]; try apply hoare_fail.
    apply hoare_lift_post. intros g Hg s HP. split; [exact HP|].
    inversion Hall as [|? ? Ha Hall']; subst. inversion Hall' as [|? ? Hb Hall'']; subst. inversion Hall'' as [|? ? Hd _]; subst.
    destruct (usable_wr c d F Hd) as [R1 R2]. destruct (usable_wr c a F Ha) as [A1 _]. destruct (usable_wr c b F Hb) as [B1 _].
    destruct (R_bridge (variant_ext (gv c)) _ _ _ _ g (nth_str_in _ _ Hi) R1 A1 B1 Hg) as (o & Hdec).
    eexists. split; [exact Hdec|]. cbn [body_instr]. exact R2. }
  destruct (k =? 1).
  { eapply hoare_bind; [apply draw_choice_spec; exact St|]. intros i. apply hoare_pure_pre. intros Hi.
    eapply hoare_bind; [apply draw_choices_spec; exact St|]. intros rs. apply hoare_pure_pre2. intros Hlen Hall.
    eapply hoare_bind; [apply draw_randint_spec; exact St|]. intros imm. apply hoare_pure_pre. intros Himm.
    destruct rs as [|d [|a [|? ?]]]; try apply hoare_fail.
    apply hoare_lift_post. intros g Hg s HP. split; [exact HP|].
    inversion Hall as [|? ? Hd Hall']; subst. inversion Hall' as [|? ? Ha _]; subst.
    destruct (usable_wr c d F Hd) as [R1 R2]. destruct (usable_wr c a F Ha) as [A1 _].
    assert (Himm' : 0 <= imm < 4096) by lia.
    destruct (I_bridge (variant_ext (gv c)) _ _ _ _ g (nth_str_in _ _ Hi) R1 A1 Himm' Hg) as (o & Hdec).
    eexists. split; [exact Hdec|]. cbn [body_instr]. exact R2. }
  destruct (k =? 2).
  { eapply hoare_bind; [apply draw_choice_spec; exact St|]. intros i. apply hoare_pure_pre. intros Hi.
    eapply hoare_bind; [apply draw_choice_spec; exact St|]. intros d. apply hoare_pure_pre. intros Hd.
    eapply hoare_bind; [apply draw_randint_spec; exact St|]. intros imm. apply hoare_pure_pre. intros Himm.
    apply hoare_lift_post. intros g Hg s HP. split; [exact HP|].
    destruct (usable_wr c d F Hd) as [R1 R2].
    assert (Himm' : 0 <= imm) by lia.
    destruct (U_bridge (variant_ext (gv c)) _ _ _ g (nth_str_in _ _ Hi) R1 Himm' Hg) as (kk & [Hdec|Hdec]);
      (eexists; split; [exact Hdec|]; cbn [body_instr]; exact R2). }
  destruct (k =? 3).
  { eapply hoare_bind; [apply draw_choice_spec; exact St|]. intros d. apply hoare_pure_pre. intros Hd.
    eapply hoare_bind; [apply draw_choice_spec; exact St|]. intros x. apply hoare_pure_pre. intros _.
    apply hoare_lift_post. intros g Hg s HP. split; [exact HP|].
    destruct (usable_wr c d F Hd) as [R1 R2].
    eexists. split; [apply (J_bridge _ _ g R1 Hg)|]. cbn [body_instr]. split; [reflexivity|exact R2]. }
  destruct (k =? 4).
  { eapply hoare_bind; [apply draw_choice_spec; exact St|]. intros i. apply hoare_pure_pre. intros Hi.
    eapply hoare_bind; [apply draw_choices_spec; exact St|]. intros rs. apply hoare_pure_pre2. intros Hlen Hall.
    eapply hoare_bind; [apply draw_choice_spec; exact St|]. intros x. apply hoare_pure_pre. intros _.
    destruct rs as [|a [|b [|? ?]]]; try apply hoare_fail.
    apply hoare_lift_post. intros g Hg s HP. split; [exact HP|].
    inversion Hall as [|? ? Ha Hall']; subst. inversion Hall' as [|? ? Hb _]; subst.
    pose proof (nth_z_cons0 _ a (cf_regs_range c F) Ha) as A1. pose proof (nth_z_cons0 _ b (cf_regs_range c F) Hb) as B1.
    destruct (B_bridge (variant_ext (gv c)) _ _ _ g (nth_str_in _ _ Hi) A1 B1 Hg) as (o & Hdec).
    eexists. split; [exact Hdec|]. cbn [body_instr]. reflexivity. }
  destruct (k =? 5).
  { (* S *)
    eapply hoare_bind; [apply draw_choice_spec; exact St|]. intros i. apply hoare_pure_pre. intros Hi.
    eapply hoare_bind; [apply draw_choice_spec; exact St|]. intros r2. apply hoare_pure_pre. intros Hr2.
    eapply hoare_bind; [apply hoare_lift|]. intros al. apply hoare_pure_pre. intros Hal.
    eapply hoare_bind; [apply draw_randint_spec; exact St|]. intros v. apply hoare_pure_pre. intros Hv.
    set (name := nth_str b_S_INSTRUCTIONS i) in *.
    assert (Hin : In name (b_S_INSTRUCTIONS ++ b_I_INSTRUCTIONS_LOAD)).
    { apply in_or_app. left. apply nth_str_in. exact Hi. }
    assert (Hin' : In name b_S_INSTRUCTIONS) by (apply nth_str_in; exact Hi).
    destruct (align_spec_name name al Hin Hal) as [Eal Hcases].
    destruct (usable_wr c r2 F Hr2) as [R1 _].
    destruct (c_variant c) eqn:Ev.
    1,2,3,5: (apply hoare_lift_post; intros g Hg s HP; split; [exact HP|];
      destruct (fits_from_draw c v al al F Hv Hcases eq_refl) as [Hfit Hrng];
      destruct (S_bridge (variant_ext (gv c)) name _ _ _ g Hin' Hdr R1 Hrng Hg) as (e & o & El & Eo & Hdec);
      eexists; split; [exact Hdec|]; cbn [body_instr];
      split; [unfold gv; rewrite Ev; reflexivity|]; split; [reflexivity|];
      rewrite (widths_match_spec _ _ _ _ _ _ name e o S_widths all_sop_all Hin' El Eo), <- Eal; exact Hfit).
    (* RIMI full *)
    eapply hoare_bind; [apply hoare_lift|]. intros base. apply hoare_pure_pre. intros Hbase.
    eapply hoare_bind; [apply hoare_lift|]. intros n1. apply hoare_pure_pre. intros Hn1.
    destruct (fits_from_draw c v al al F Hv Hcases eq_refl) as [Hfit Hrng].
    destruct (S_shape _ _ _ _ _ Hbase) as (o0 & f30 & ->). unfold mkS.
    rewrite !ft5 by assumption. rewrite imm_field_small by lia.
    apply hoare_lift_post. intros g Hg s HP. split; [exact HP|].
    pose proof rimi_store_names as W. rewrite forallb_forall in W. specialize (W name Hin'). rewrite Hn1 in W.
    apply andb_prop in W. destruct W as [Ww Wm]. apply Z.eqb_eq in Ww. apply mem_true_In in Wm.
    destruct (S1_bridge n1 _ _ _ g Wm Hdr R1 Hrng Hg) as (e & o & El & Eo & Hdec).
    eexists. split; [unfold gv; rewrite Ev; exact Hdec|]. cbn [body_instr]. split; [unfold gv; rewrite Ev; reflexivity|]. split; [reflexivity|].
    rewrite (widths_match_spec _ _ _ _ _ _ n1 e o S1_widths all_sop_all Wm El Eo), Ww, <- Eal. exact Hfit. }
  (* L *)
  eapply hoare_bind; [apply draw_choice_spec; exact St|]. intros i. apply hoare_pure_pre. intros Hi.
  eapply hoare_bind; [apply draw_choice_spec; exact St|]. intros d. apply hoare_pure_pre. intros Hd.
  eapply hoare_bind; [apply hoare_lift|]. intros al. apply hoare_pure_pre. intros Hal.
  eapply hoare_bind; [apply draw_randint_spec; exact St|]. intros v. apply hoare_pure_pre. intros Hv.
  set (name := nth_str b_I_INSTRUCTIONS_LOAD i) in *.
  assert (Hin : In name (b_S_INSTRUCTIONS ++ b_I_INSTRUCTIONS_LOAD)).
  { apply in_or_app. right. apply nth_str_in. exact Hi. }
  assert (Hin' : In name b_I_INSTRUCTIONS_LOAD) by (apply nth_str_in; exact Hi).
  destruct (align_spec_name name al Hin Hal) as [Eal Hcases].
  destruct (usable_wr c d F Hd) as [R1 R2].
  destruct (fits_from_draw c v al al F Hv Hcases eq_refl) as [Hfit Hrng].
  destruct (c_variant c) eqn:Ev.
  1,2,3,5: (apply hoare_lift_post; intros g Hg s HP; split; [exact HP|];
    destruct (L_bridge (variant_ext (gv c)) name _ _ _ g Hin' R1 Hdr Hrng Hg) as (e & o & El & Eo & Hdec);
    eexists; split; [exact Hdec|]; cbn [body_instr];
    split; [unfold gv; rewrite Ev; reflexivity|]; split; [reflexivity|];
    split; [|exact R2];
    rewrite (widths_match_spec _ _ _ _ _ _ name e o L_widths all_lop_all Hin' El Eo), <- Eal; exact Hfit).
  eapply hoare_bind; [apply hoare_lift|]. intros base. apply hoare_pure_pre. intros Hbase.
  eapply hoare_bind; [apply hoare_lift|]. intros n1. apply hoare_pure_pre. intros Hn1.
  destruct (I_shape _ _ _ _ _ Hbase) as (o0 & f30 & f70 & ->). unfold mkI.
  rewrite !ft5 by assumption. rewrite imm_field_small by lia.
  apply hoare_lift_post. intros g Hg s HP. split; [exact HP|].
  pose proof rimi_load_names as W. rewrite forallb_forall in W. specialize (W name Hin'). rewrite Hn1 in W.
  apply andb_prop in W. destruct W as [Ww Wl]. apply Z.eqb_eq in Ww.
  assert (Wm : In n1 b_RIMI_I_INSTRUCTIONS_LOAD).
  { unfold rimi_load_name in Hn1. destruct (Enc.mem name _) eqn:Em; [|discriminate]. inversion Hn1; subst n1.
    clear - Hin'. cbn [In b_I_INSTRUCTIONS_LOAD] in Hin'.
    repeat (destruct Hin' as [<-|Hin']; [cbn; auto 10|]). contradiction. }
  destruct (L1_bridge n1 _ _ _ g Wm R1 Hdr Hrng Hg) as (e & o & El & Eo & Hdec).
  eexists. split; [unfold gv; rewrite Ev; exact Hdec|]. cbn [body_instr]. split; [unfold gv; rewrite Ev; reflexivity|]. split; [reflexivity|]. split; [|exact R2].
  rewrite (widths_match_spec _ _ _ _ _ _ n1 e o L1_widths all_lop_all Wm El Eo), Ww, <- Eal. exact Hfit.
Qed.

(* ------------------------------------------------------------------ bodies *)
Lemma fill_body_dec P c n : forall rem,
  stable P -> cfg_facts c ->
  hoare P (fill_body c (usable_registers c) n rem) (fun l s => P s /\ Forall (body_dec c) l /\ List.length l = n).
Proof.
  induction n as [|k IH]; intros rem St F; cbn [fill_body].
  - intros s H. cbn. split; [exact H|]. split; [constructor|reflexivity].
  - eapply hoare_bind; [apply random_instruction_dec; assumption|]. intros g. apply hoare_pure_pre. intros Hg.
    eapply hoare_bind; [apply IH; assumption|]. intros rest. apply hoare_pure_pre. intros [Hrest Hl].
    intros s H. cbn. split; [exact H|]. split; [constructor; assumption|cbn; congruence].
Qed.

(* a method as Method.fill_with_instructions leaves it: prologue ++ body ++ epilogue,
   the body made of instructions that decode to body instructions *)
Definition body_struct (c : config) (m : method) : Prop :=
  exists pro body epi,
    m_instrs m = (pro ++ body ++ epi)%list /\
    build_prologue (bvariant_of (c_variant c)) m_used_s_regs m_local_vars_nb (negb (m_is_leaf m)) = OK pro /\
    build_epilogue (bvariant_of (c_variant c)) m_used_s_regs m_local_vars_nb (negb (m_is_leaf m)) = OK epi /\
    Forall (body_dec c) body /\ List.length body = Z.to_nat (m_body m).

Lemma fill_method_struct P c m :
  stable P -> cfg_facts c ->
  hoare P (fill_method c m) (fun m' s => P s /\ body_struct c m' /\ m_depth m' = m_depth m).
Proof.
  intros St F. unfold fill_method.
  eapply hoare_bind; [apply hoare_lift|]. intros pro. apply hoare_pure_pre. intros Hpro.
  eapply hoare_bind; [apply fill_body_dec; assumption|]. intros body. apply hoare_pure_pre. intros [Hbody Hl].
  eapply hoare_bind; [apply hoare_lift|]. intros epi. apply hoare_pure_pre. intros Hepi.
  intros s H. cbn. split; [exact H|]. split; [|reflexivity].
  exists pro, body, epi. cbn [m_instrs m_body]. unfold m_is_leaf. cbn [m_calls]. auto.
Qed.

(* the invariant: methods of depth 0 (never patched) keep that structure *)
Definition InvB (c : config) (s : gstate) : Prop :=
  Forall (fun m => m_depth m = 0 -> body_struct c m) (g_methods s).

Lemma InvB_stable c : stable (InvB c).
Proof. intros s s' H (E & _ & _) _. unfold InvB in *. rewrite E. exact H. Qed.

Lemma InvB_add c s m :
  InvB c s -> body_struct c m ->
  InvB c (mk_gs (g_script s) (g_methods s ++ [m]) (g_depths s) (g_elements s)).
Proof.
  intros H Hm. unfold InvB in *. cbn [g_methods]. apply Forall_app. split; [exact H|].
  constructor; [intros _; exact Hm|constructor].
Qed.

Lemma fill_cases_struct P c : forall ms,
  stable P -> cfg_facts c ->
  hoare P (fill_cases c ms) (fun ms' s => P s /\ Forall (body_struct c) ms').
Proof.
  induction ms as [|m tl IH]; intros St F; cbn [fill_cases].
  - intros s H. cbn. split; [exact H|constructor].
  - eapply hoare_bind; [apply fill_method_struct; assumption|]. intros m'. apply hoare_pure_pre. intros [Hm _].
    eapply hoare_bind; [apply IH; assumption|]. intros rest. apply hoare_pure_pre. intros Hrest.
    intros s H. cbn. split; [exact H|constructor; assumption].
Qed.

Lemma add_methods_InvB c : forall ms',
  Forall (body_struct c) ms' -> hoare (InvB c) (add_methods ms') (fun _ s => InvB c s).
Proof.
  induction ms' as [|m tl IH]; intros HF; cbn [add_methods].
  - intros s H. cbn. exact H.
  - inversion HF as [|? ? Hm Htl]; subst.
    eapply hoare_bind with (Q := fun _ s => InvB c s).
    + intros s H. unfold add_method. cbn. apply InvB_add; assumption.
    + intros id. eapply hoare_bind; [apply IH; exact Htl|]. intros rest s H. cbn. exact H.
Qed.

Lemma register_methods_InvB c ids : forall ms, hoare (InvB c) (register_methods ids ms) (fun _ s => InvB c s).
Proof.
  induction ids as [|id it IH]; intros ms; cbn [register_methods].
  - intros s H. cbn. exact H.
  - destruct ms as [|m mt]; [intros s H; cbn; exact H|].
    eapply hoare_bind with (Q := fun _ s => InvB c s); [intros s H; unfold register_method; cbn; exact H|].
    intro. apply IH.
Qed.

Lemma add_element_InvB c addr remaining :
  cfg_facts c -> hoare (InvB c) (add_element c addr remaining) (fun _ s => InvB c s).
Proof.
  intros F. unfold add_element. pose proof (InvB_stable c) as St.
  eapply hoare_bind; [apply draw_choices_spec; exact St|]. intros ks. apply hoare_pure_pre2. intros _ _.
  destruct ks as [|k [|? ?]]; cbv beta iota; [apply hoare_fail| |destruct k; apply hoare_fail].
  assert (PIC : hoare (InvB c)
      (let* z := m_ztp c in
       let cases := Z.min z remaining in
       let maddr := addr + switch_size cases * 4 in
       let* ms := size_cases c (Z.to_nat cases) maddr in
       let* ms' := fill_cases c ms in
       let* sw := lift (switch_instrs c addr 0 ms') in
       let* ids := add_methods ms' in
       let* _ := push_element (EPic (mk_pic addr cases ids sw)) in
       let* _ := register_methods ids ms' in
       ret (switch_size cases + sum_totals ms', cases)) (fun _ s => InvB c s)).
  { eapply hoare_bind; [apply m_ztp_spec; exact St|]. intros z. cbv zeta.
    eapply hoare_bind; [apply size_cases_spec; exact St|]. intros ms.
    eapply hoare_bind; [apply fill_cases_struct; assumption|]. intros ms'. apply hoare_pure_pre. intros Hms.
    eapply hoare_bind; [apply hoare_lift|]. intros sw. apply hoare_pure_pre. intros _.
    eapply hoare_bind; [apply add_methods_InvB; exact Hms|]. intros ids.
    eapply hoare_bind with (Q := fun _ s => InvB c s); [intros s H; unfold push_element; cbn; exact H|]. intro.
    eapply hoare_bind; [apply register_methods_InvB|]. intro. intros s H. cbn. exact H. }
  destruct k as [|p|p]; [|exact PIC|exact PIC].
  eapply hoare_bind; [apply size_method_spec; exact St|]. intros m. apply hoare_pure_pre. intros _.
  eapply hoare_bind; [apply fill_method_struct; assumption|]. intros m'. apply hoare_pure_pre. intros [Hm _].
  intros s H. unfold mbind, add_method, push_element, register_method, ret. cbn [fst snd g_script g_methods g_depths g_elements].
  exact (InvB_add c s m' H Hm).
Qed.

Lemma fill_loop_InvB c fuel : forall addr count,
  cfg_facts c -> hoare (InvB c) (fill_loop c fuel addr count) (fun _ s => InvB c s).
Proof.
  induction fuel as [|k IH]; intros addr count F; cbn [fill_loop].
  - destruct (c_nb_methods c <=? count); [intros s H; cbn; exact H|apply hoare_fail].
  - destruct (c_nb_methods c <=? count); [intros s H; cbn; exact H|].
    eapply hoare_bind; [apply add_element_InvB; exact F|]. intros [size nm]. apply IH. exact F.
Qed.

Lemma fill_jit_code_InvB c start :
  cfg_facts c -> hoare (InvB c) (fill_jit_code c start) (fun _ s => InvB c s).
Proof.
  intros F. unfold fill_jit_code. pose proof (InvB_stable c) as St.
  eapply hoare_bind; [apply size_method_spec; exact St|]. intros m. apply hoare_pure_pre. intros _.
  eapply hoare_bind; [apply fill_method_struct; assumption|]. intros m'. apply hoare_pure_pre. intros [Hm _].
  intros s H. unfold mbind at 1 2 3. unfold add_method, push_element, register_method.
  cbn [fst snd g_script g_methods g_depths g_elements].
  refine (fill_loop_InvB c _ _ _ F _ _). exact (InvB_add c s m' H Hm).
Qed.

(* patching only rewrites methods of depth <> 0 *)
Lemma patch_method_InvB c id : hoare (InvB c) (patch_method c id) (fun _ s => InvB c s).
Proof.
  pose proof (InvB_stable c) as St. intros s HI. unfold patch_method, mbind at 1, get_method.
  destruct (nth_error (g_methods s) id) as [m|] eqn:En; [|exact I].
  destruct (Z.eqb_spec (m_depth m) 0) as [Hz|Hnz]; [cbn; exact HI|].
  cbv beta zeta.
  assert (G : hoare (InvB c)
    (let* picks := draw_choices (zlen (possible_callees (g_depths s) (m_depth m))) (m_calls m) WNone in
     let callee_ids := map (fun i => nth (Z.to_nat i) (possible_callees (g_depths s) (m_depth m)) O) picks in
     if nat_mem id callee_ids then fail ERecursive else
     let* cms := get_methods callee_ids in
     if existsb (fun cm => nat_mem id (m_callees cm)) cms then fail EMutual else
     let cs := m_call_size m in
     let* idx := draw_sample (m_pro m + m_body m - cs) (m_pro m - 1) (- cs) (zlen callee_ids) in
     let* ins := lift (patch_calls c (m_addr m) (m_instrs m) idx cms) in
     set_method id (mk_method (m_addr m) (m_body m) (m_calls m) (m_depth m) (m_call_size m) (m_pro m)
                      (m_epi m) ins callee_ids)) (fun _ s' => InvB c s')).
  { eapply hoare_bind; [apply draw_choices_spec; exact St|]. intros picks. apply hoare_pure_pre2. intros _ _.
    cbv zeta. destruct (nat_mem id _); [apply hoare_fail|].
    eapply hoare_bind with (Q := fun _ s0 => InvB c s0).
    { set (ids := map _ picks). clearbody ids. induction ids as [|x tl IHl]; cbn [get_methods].
      - intros s0 H0. cbn. exact H0.
      - eapply hoare_bind with (Q := fun _ s0 => InvB c s0).
        + intros s0 H0. unfold get_method. destruct (nth_error (g_methods s0) x); [exact H0|exact I].
        + intros m0. eapply hoare_bind; [exact IHl|]. intros rest s0 H0. cbn. exact H0. }
    intros cms. destruct (existsb _ cms); [apply hoare_fail|].
    eapply hoare_bind; [apply draw_sample_spec; exact St|]. intros idx. apply hoare_pure_pre. intros _.
    eapply hoare_bind; [apply hoare_lift|]. intros ins. apply hoare_pure_pre. intros _.
    intros s0 H0. unfold set_method, InvB in *. cbn [fst snd g_methods].
    apply Forall_app. split; [apply Forall_firstn; exact H0|].
    constructor; [cbn [m_depth]; intros Hd; contradiction|apply Forall_skipn; exact H0]. }
  exact (G s HI).
Qed.

Lemma patch_ids_InvB c ids : hoare (InvB c) (patch_ids c ids) (fun _ s => InvB c s).
Proof.
  induction ids as [|id tl IH]; cbn [patch_ids].
  - intros s H. cbn. exact H.
  - eapply hoare_bind; [apply patch_method_InvB|]. intro. exact IH.
Qed.

Theorem gen_main_bodies c :
  cfg_facts c -> hoare (InvB c) (gen_main c)
                       (fun img _ => Forall (fun m => m_depth m = 0 -> body_struct c m) (im_methods img)).
Proof.
  intros F. pose proof (InvB_stable c) as St. unfold gen_main.
  destruct (c_jit_start c <? c_int_start c); [apply hoare_fail|].
  destruct (c_nb_methods c =? 0); [apply hoare_fail|].
  eapply hoare_bind with (Q := fun _ s => InvB c s).
  { destruct (uses_tramp (c_variant c)).
    - eapply hoare_bind; [apply hoare_lift|]. intros t1. apply hoare_pure_pre. intros _.
      eapply hoare_bind; [apply hoare_lift|]. intros t2. apply hoare_pure_pre. intros _.
      intros s H. cbn. exact H.
    - intros s H. cbn. exact H. }
  intros tramps. cbv zeta.
  eapply hoare_bind; [apply fill_jit_code_InvB; exact F|]. intros e.
  eapply hoare_bind with (Q := fun _ s => InvB c s).
  { intros s H. unfold patch_jit_calls. exact (patch_ids_InvB c _ s H). }
  intro.
  eapply hoare_bind; [apply GenWF2.fill_interpretation_loop_stable; exact St|]. intros ints.
  apply hoare_pure_pre. intros _.
  intros s HS. cbv beta zeta.
  assert (G : hoare (GenWF2.objs_are (g_methods s) (g_depths s) (g_elements s))
    (let* nop := lift nop_ in
     let* data := generate_data (c_data_strategy c) (c_data_size c) in
     let ss := match c_variant c with
               | GRimiSS | GRimiFull => zeros (Z.to_nat (align (c_ss_size c) 8))
               | _ => zeros 8
               end in
     ret (mk_image (map generate ints ++ repeat_z (generate nop)
                      (Z.to_nat ((jit_start_al c - (int_start_al c + zlen (map generate ints) * 4)) / 4)))
            (map generate (List.concat tramps) ++ flat_map (elt_words (g_methods s)) (g_elements s)) data ss
            (g_methods s) (g_elements s) tramps ints))
    (fun img _ => Forall (fun m => m_depth m = 0 -> body_struct c m) (im_methods img))).
  { eapply hoare_bind; [apply hoare_lift|]. intros nop. apply hoare_pure_pre. intros _.
    eapply hoare_bind; [apply generate_data_spec; apply GenWF2.objs_are_stable|]. intros data.
    intros s0 _. cbn. exact HS. }
  exact (G s (conj eq_refl (conj eq_refl eq_refl))).
Qed.

Theorem run_gen_bodies c script img rest :
  cfg_facts c -> run_gen c script = OK (img, rest) ->
  Forall (fun m => m_depth m = 0 -> body_struct c m) (im_methods img).
Proof.
  intros F H. unfold run_gen in H.
  pose proof (gen_main_bodies c F (mk_gs script [] [] []) ltac:(constructor)) as G.
  destruct (gen_main c (mk_gs script [] [] [])) as [[im s]|e]; [|discriminate].
  inversion H; subst. exact G.
Qed.

(* ------------------------------------------------------------------ execution of leaf bodies *)
Lemma Forall_decoded c body :
  Forall (body_dec c) body ->
  exists is, Forall2 (fun g i => decode (variant_ext (gv c)) (generate g) = Some i) body is /\
             Forall (body_instr (gv c) (c_data_reg c) (dsz c) (wr c)) is.
Proof.
  induction 1 as [|g tl (i & Hd & Hb) _ (is & F2 & Fb)].
  - exists []. split; constructor.
  - exists (i :: is). split; constructor; assumption.
Qed.

Lemma Forall2_len' {A B} (R : A -> B -> Prop) la lb : Forall2 R la lb -> List.length la = List.length lb.
Proof. intros F. induction F; cbn; congruence. Qed.

(* where the data section may be placed *)
Record placement (c : config) (L : layout) : Prop := {
  pl_pos : 0 <= data_lo L;
  pl_al : data_lo L mod 8 = 0;
  pl_fit : data_lo L + dsz c <= data_hi L;
  pl_hi : data_hi L < W64;
  pl_code : code_hi L <= data_lo L \/ data_hi L <= code_lo L;
  pl_stack : stk_hi L <= data_lo L \/ data_hi L <= stk_lo L
}.

Lemma placement_layout_ok c L :
  cfg_ok c = true -> placement c L -> layout_ok L (c_data_reg c) (dsz c) (wr c).
Proof.
  intros Hc [P1 P2 P3 P4 P5 P6]. destruct (GenWFProps.cfg_ok_facts c Hc) as [F R].
  constructor; try assumption.
  - destruct (GenWFProps.caller_saved_facts _ (GenWFProps.cr_data c R)) as (Hr & _). split; [lia|].
    unfold wr, in_zlist. destruct (existsb (Z.eqb (c_data_reg c)) (usable_registers c)) eqn:E; [|reflexivity].
    apply existsb_exists in E. destruct E as (y & Hy & Ey). apply Z.eqb_eq in Ey. subst y.
    destruct (GenWFProps.usable_subset c _ Hy) as [_ Hne]. contradiction.
  - intros r Hr. unfold wr, in_zlist in Hr. apply existsb_exists in Hr. destruct Hr as (y & Hy & Ey).
    apply Z.eqb_eq in Ey. subst y. pose proof (cf_regs_range c F) as RR. rewrite Forall_forall in RR.
    specialize (RR r Hy). lia.
Qed.

(* THE THEOREM: for every accepted configuration, decision script and emitted
   image, the random body of every depth-0 method decodes - word by word, with
   the independent decoder - to a block that the reference machine executes from
   ANY state whose data register holds the data base (and, in RIMI full, whose
   domain is the JIT domain: both are what env_ok says), wherever the data section is placed: one step per
   instruction, no fault, only usable registers and the data section change. *)
Theorem leaf_bodies_execute c script img :
  successful c script img ->
  Forall (fun m => m_depth m = 0 ->
    exists pro body epi is,
      m_instrs m = (pro ++ body ++ epi)%list /\ List.length body = Z.to_nat (m_body m) /\
      Forall2 (fun g i => decode (variant_ext (gv c)) (generate g) = Some i) body is /\
      forall L s A,
        placement c L -> env_ok (gv c) L (c_data_reg c) s -> pc s = A -> 0 <= A ->
        A + 4 * Z.of_nat (List.length is) < W64 ->
        exists s', exec_at (gv c) L A is s = Next s' /\
                   pc s' = A + 4 * Z.of_nat (List.length body) /\
                   frame L (dsz c) (wr c) s s' /\ env_ok (gv c) L (c_data_reg c) s')
    (im_methods img).
Proof.
  intros [Hc Hr]. destruct (GenWFProps.cfg_ok_facts c Hc) as [F R].
  pose proof (run_gen_bodies c script img [] F Hr) as HB.
  eapply Forall_impl; [|exact HB]. intros m Hm Hd. destruct (Hm Hd) as (pro & body & epi & Ei & _ & _ & Hbody & Hl).
  destruct (Forall_decoded c body Hbody) as (is & F2 & Fb).
  exists pro, body, epi, is. split; [exact Ei|]. split; [exact Hl|]. split; [exact F2|].
  intros L s A Hpl He Hpc HA Hend.
  destruct (body_exec (gv c) L (c_data_reg c) (dsz c) (wr c) (placement_layout_ok c L Hc Hpl) is s A Fb He Hpc HA Hend)
    as (s' & E & P & Fr & He').
  exists s'. rewrite (Forall2_len' _ _ _ F2). auto.
Qed.
