(* GenLemmas.v — arithmetic and list-level facts about the generator model
   that hold for ALL inputs (no bound on sizes, counts or depths). *)
From Coq Require Import ZArith List String Bool Lia.
From Gigue Require Import Types Bits Enc GenTables Builder Samplers Generator.
Import ListNotations.
Open Scope Z_scope.

(* ---------------------------------------------------------------- C03 *)
(* offset = align(randint(0, min(data_size - 8, 0x7FF)), width): non-negative,
   naturally aligned, the access lies entirely inside the data image (whose
   length is data_size rounded down to 8) and the offset fits the signed
   12-bit immediate *)
Theorem offset_in_bounds size v a :
  8 <= size -> 0 <= v <= Z.min (size - 8) 2047 -> (a = 1 \/ a = 2 \/ a = 4 \/ a = 8) ->
  let o := align v a in
  0 <= o /\ o mod a = 0 /\ o + a <= align size 8 /\ o <= 2047.
Proof.
  intros Hs Hv Ha o. subst o. unfold align.
  assert (Hv' : 0 <= v <= size - 8 /\ v <= 2047) by lia.
  destruct Ha as [->|[->|[->| ->]]]; repeat split; try (Z.div_mod_to_equations; lia).
Qed.

(* the bound is tight: the last aligned slot of the data image is reachable *)
Example offset_bound_tight : align (Z.min (16 - 8) 2047) 8 + 8 = align 16 8.
Proof. reflexivity. Qed.

Definition width_of_name (n : string) : Z :=
  if mem n ["lb"; "lbu"; "sb"] then 1 else if mem n ["lh"; "lhu"; "sh"] then 2
  else if mem n ["lw"; "lwu"; "sw"] then 4 else if mem n ["ld"; "sd"] then 8 else 0.

Definition align_result_eqb (r : res Z) (w : Z) : bool := match r with OK a => a =? w | Err _ => false end.

(* define_memory_access_alignment over the regenerated ALIGNMENT order returns,
   for every store / load name the random builders draw from, exactly the
   access width of that instruction *)
Lemma alignment_is_width :
  forallb (fun n => align_result_eqb (alignment_of b_ALIGNMENT n) (width_of_name n) && (0 <? width_of_name n))
          (b_S_INSTRUCTIONS ++ b_I_INSTRUCTIONS_LOAD) = true.
Proof. vm_compute. reflexivity. Qed.

Lemma size_offset_len_pos mo : 4 <= mo -> 1 <= size_offset_len mo.
Proof.
  intros H. unfold size_offset_len. destruct (Z.ltb_spec mo 12).
  - destruct (mo =? 4); lia.
  - destruct (mo mod 12 =? 8); Z.div_mod_to_equations; lia.
Qed.

(* ---------------------------------------------------------------- C04 *)
(* patching slots: indices start - k*cs (k distinct) with stubs of length
   <= cs occupy pairwise disjoint ranges inside [pro, pro + body) *)
Theorem slots_disjoint pro body cs i j len :
  0 < cs -> 0 < len <= cs ->
  pro - 1 < i <= pro + body - cs -> pro - 1 < j <= pro + body - cs ->
  (pro + body - cs - i) mod cs = 0 -> (pro + body - cs - j) mod cs = 0 -> i <> j ->
  (i + len <= j \/ j + len <= i) /\ pro <= i /\ i + len <= pro + body.
Proof.
  intros Hcs Hlen Hi Hj Hmi Hmj Hne.
  split; [|lia].
  apply Z.mod_divide in Hmi; [|lia]. apply Z.mod_divide in Hmj; [|lia].
  destruct Hmi as (qi & Ei). destruct Hmj as (qj & Ej).
  assert (Ed : j - i = (qi - qj) * cs) by lia.
  destruct (Z_lt_le_dec i j) as [Hlt|Hge]; [left|right].
  - assert (0 < qi - qj) by nia. assert (cs <= (qi - qj) * cs) by nia. lia.
  - assert (i - j = (qj - qi) * cs) by lia. assert (0 < qj - qi) by nia.
    assert (cs <= (qj - qi) * cs) by nia. lia.
Qed.

Lemma range_len_neg_spec start stop step :
  step < 0 -> stop < start -> range_len_neg start stop step = (start - stop - 1) / (- step) + 1.
Proof. intros. unfold range_len_neg. destruct (Z.leb_spec start stop); lia. Qed.

(* the population of select_paching_indexes has body // call_size elements *)
Lemma patch_population pro body cs :
  0 < cs -> cs <= body ->
  range_len_neg (pro + body - cs) (pro - 1) (- cs) = body / cs.
Proof.
  intros Hcs Hb. rewrite range_len_neg_spec by lia.
  replace (- - cs) with cs by lia.
  replace (pro + body - cs - (pro - 1) - 1) with (body - cs) by lia.
  Z.div_mod_to_equations; nia.
Qed.

(* ---------------------------------------------------------------- C06 *)
(* call_depth_dict consistency: every id is filed under its own depth *)
Definition depths_consistent (depth_of : nat -> Z) (d : list (Z * list nat)) : Prop :=
  Forall (fun kv => Forall (fun id => depth_of id = fst kv) (snd kv)) d.

Theorem possible_callees_lower depth_of d dp id :
  depths_consistent depth_of d -> In id (possible_callees d dp) -> depth_of id < dp.
Proof.
  intros Hc Hin. unfold possible_callees in Hin. apply in_flat_map in Hin.
  destruct Hin as ((k, l) & Hkl & Hid). cbn [fst snd] in Hid.
  destruct (Z.ltb_spec k dp) as [Hlt|]; [|destruct Hid].
  unfold depths_consistent in Hc. rewrite Forall_forall in Hc. specialize (Hc _ Hkl). cbn [fst snd] in Hc.
  rewrite Forall_forall in Hc. rewrite (Hc _ Hid). exact Hlt.
Qed.

Lemma depths_add_consistent depth_of d dp id :
  depths_consistent depth_of d -> depth_of id = dp -> depths_consistent depth_of (depths_add d dp id).
Proof.
  intros Hc Hd. induction d as [|[k l] tl IH]; cbn [depths_add].
  - constructor; [|constructor]. cbn. constructor; [exact Hd|constructor].
  - pose proof (Forall_inv Hc) as Hkl. pose proof (Forall_inv_tail Hc) as Htl.
    destruct (Z.eqb_spec k dp) as [E|Hne]; [subst k|].
    + constructor; [|exact Htl]. cbn [fst snd] in *. apply Forall_app. split; [exact Hkl|].
      constructor; [exact Hd|constructor].
    + constructor; [exact Hkl|]. apply IH. exact Htl.
Qed.

(* the leaf bucket is never empty once the first (mandatory) leaf is registered:
   callees can always be drawn for a method of depth >= 1 *)
Lemma possible_callees_nonempty d dp id0 :
  0 < dp -> In id0 (flat_map (fun kv => if fst kv =? 0 then snd kv else []) d) ->
  possible_callees d dp <> [].
Proof.
  intros Hd Hin Hnil. unfold possible_callees in Hnil.
  apply in_flat_map in Hin. destruct Hin as ((k, l) & Hkl & Hid). cbn [fst snd] in Hid.
  destruct (Z.eqb_spec k 0) as [->|]; [|destruct Hid].
  assert (Hin' : In id0 (flat_map (fun kv => if fst kv <? dp then snd kv else []) d)).
  { apply in_flat_map. exists (0, l). split; [exact Hkl|]. cbn [fst snd].
    destruct (Z.ltb_spec 0 dp); [exact Hid|lia]. }
  rewrite Hnil in Hin'. destruct Hin'.
Qed.

(* random branches and jumps always target pc + 4 *)
Definition forward_only (g : gi) : bool :=
  match g with
  | GJ _ _ _ imm => imm =? 4
  | GB _ _ _ _ _ imm => (imm =? 4) || (imm =? 8)
  | _ => true
  end.

(* ---------------------------------------------------------------- C05 *)
(* the case count of a PIC is capped by the methods still to create *)
Lemma case_cap z remaining : 1 <= z -> 1 <= remaining -> 1 <= Z.min z remaining <= remaining.
Proof. lia. Qed.
