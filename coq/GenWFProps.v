(* GenWFProps.v — what the Layer-A method invariant gives to the properties:
   corollaries over EVERY method instruction of EVERY image, for every accepted
   configuration and every decision script (no bound on sizes or depths). *)
From Coq Require Import ZArith List String Bool Lia.
From Gigue Require Import Types Bits Isa Enc EncProofs GenTables Builder Samplers Generator GenLemmas Machine ImageSem GenWF.
Import ListNotations.
Open Scope Z_scope.

Lemma gi_same_eq a b : gi_same a b = true -> a = b.
Proof.
  destruct a, b; cbn [gi_same]; try discriminate; unfold zeqb4; intros H;
    repeat match goal with
           | H : _ && _ = true |- _ => apply andb_prop in H; destruct H
           end;
    repeat match goal with
           | H : String.eqb _ _ = true |- _ => apply String.eqb_eq in H
           | H : (_ =? _) = true |- _ => apply Z.eqb_eq in H
           end; subst; reflexivity.
Qed.

Lemma instr_ok_elim c (Q : gi -> bool) :
  (forall g, rand_ok c g = true -> Q g = true) ->
  forallb Q (frame_instrs (c_variant c)) = true ->
  (forall g, stub_ok (is_fixer (c_variant c)) g = true -> Q g = true) ->
  forall g, instr_ok c g = true -> Q g = true.
Proof.
  intros Hr Hf Hs g H. unfold instr_ok in H.
  apply orb_prop in H. destruct H as [H|H]; [|apply Hs; exact H].
  apply orb_prop in H. destruct H as [H|H]; [apply Hr; exact H|].
  unfold frame_ok in H. apply existsb_exists in H. destruct H as (g' & Hin & E).
  apply gi_same_eq in E. subst g'. rewrite forallb_forall in Hf. apply Hf. exact Hin.
Qed.

(* ---- accepted configurations give the facts the invariant needs ---- *)
Lemma in_list_In x l : in_list x l = true -> In x l.
Proof.
  unfold in_list. intros H. apply existsb_exists in H. destruct H as (y & Hy & E). apply Z.eqb_eq in E. subst. exact Hy.
Qed.

Lemma caller_saved_range : forallb (fun r => (0 <? r) && (r <? 32) && negb (r =? 1) && negb (r =? 2) && negb (r =? 8))
                                   c_CALLER_SAVED_REG = true.
Proof. vm_compute. reflexivity. Qed.

Lemma caller_saved_facts r : In r c_CALLER_SAVED_REG -> 0 < r < 32 /\ r <> 1 /\ r <> 2 /\ r <> 8.
Proof.
  intros H. pose proof caller_saved_range as W. rewrite forallb_forall in W. specialize (W r H).
  repeat (apply andb_prop in W; destruct W as [W ?]).
  repeat match goal with
         | H : negb _ = true |- _ => apply negb_true_iff in H
         | H : (_ <? _) = true |- _ => apply Z.ltb_lt in H
         | H : (_ =? _) = false |- _ => apply Z.eqb_neq in H
         end. lia.
Qed.

Lemma usable_subset c r : In r (usable_registers c) -> In r (c_registers c) /\ r <> c_data_reg c.
Proof.
  unfold usable_registers. intros H.
  assert (H' : In r (filter (fun r => negb (r =? c_data_reg c)) (c_registers c))).
  { destruct (c_variant c); try exact H; apply filter_In in H; apply H. }
  apply filter_In in H'. destruct H' as [H1 H2]. apply negb_true_iff in H2. apply Z.eqb_neq in H2. auto.
Qed.

Record cfg_regs (c : config) : Prop := {
  cr_data : In (c_data_reg c) c_CALLER_SAVED_REG;
  cr_regs : forall r, In r (c_registers c) -> In r c_CALLER_SAVED_REG;
  cr_special : is_protected (c_variant c) = true -> c_data_reg c <> 28
}.

Theorem cfg_ok_facts c : cfg_ok c = true -> cfg_facts c /\ cfg_regs c.
Proof.
  intros H. unfold cfg_ok in H. apply andb_prop in H. destruct H as [H Hw]. apply andb_prop in H. destruct H as [H Hp].
  apply andb_prop in H. destruct H as [Hs Hr].
  unfold cfg_registers in Hr. apply andb_prop in Hr. destruct Hr as [Hr Hprot].
  apply andb_prop in Hr. destruct Hr as [Hr Hne]. apply andb_prop in Hr. destruct Hr as [Hregs Hdata].
  apply in_list_In in Hdata.
  assert (HR : forall r, In r (c_registers c) -> In r c_CALLER_SAVED_REG).
  { intros r Hin. rewrite forallb_forall in Hregs. apply in_list_In. apply Hregs. exact Hin. }
  unfold cfg_sizes in Hs. repeat (apply andb_prop in Hs; destruct Hs as [Hs ?]).
  split; constructor.
  - apply Forall_forall. intros r Hin. destruct (usable_subset c r Hin) as [Hin' _].
    destruct (caller_saved_facts r (HR r Hin')). lia.
  - destruct (caller_saved_facts _ Hdata). lia.
  - match goal with Hsz : (8 <=? c_data_size c) = true |- _ => apply Z.leb_le in Hsz; exact Hsz end.
  - exact Hdata.
  - exact HR.
  - intros Hv. rewrite Hv in Hprot. apply andb_prop in Hprot. destruct Hprot as [_ Hd].
    apply negb_true_iff in Hd. apply Z.eqb_neq in Hd. exact Hd.
Qed.

Lemma frame_instrs_forall_dep (Q : gvariant -> gi -> bool) v :
  forallb (fun v => forallb (Q v) (frame_instrs v)) [GBase; GTramp; GRimiSS; GRimiFull; GFixer] = true ->
  forallb (Q v) (frame_instrs v) = true.
Proof.
  intros H. cbn [forallb] in H. repeat (apply andb_prop in H; destruct H as [? H]). destruct v; assumption.
Qed.

Lemma frame_instrs_forall (Q : gi -> bool) v :
  forallb (fun v => forallb Q (frame_instrs v)) [GBase; GTramp; GRimiSS; GRimiFull; GFixer] = true ->
  forallb Q (frame_instrs v) = true.
Proof.
  intros H. cbn [forallb] in H. repeat (apply andb_prop in H; destruct H as [? H]). destruct v; assumption.
Qed.

(* ---------------------------------------------------------------- C03 *)
Definition is_any_load (name : string) : bool :=
  is_load_name name || Enc.mem name ["lw"; "lwu"; "lst"]%string.

(* every store / load of a method either goes through the data register with an
   in-bounds, aligned, non-negative offset, or through sp / t3 (frames, shadow stack) *)
Definition mem_discipline (c : config) (g : gi) : bool :=
  match g with
  | GS name _ _ rs1 _ imm => data_access_ok c name rs1 imm || ((rs1 =? 2) || (rs1 =? 28))
  | GI name _ _ _ _ rs1 imm =>
      if is_any_load name then data_access_ok c name rs1 imm || ((rs1 =? 2) || (rs1 =? 28)) else true
  | _ => true
  end.
Definition frame_mem (g : gi) : bool :=
  match g with
  | GS _ _ _ rs1 _ _ => (rs1 =? 2) || (rs1 =? 28)
  | GI name _ _ _ _ rs1 _ => if is_any_load name then (rs1 =? 2) || (rs1 =? 28) else true
  | _ => true
  end.

Lemma frame_mem_all :
  forallb (fun v => forallb frame_mem (frame_instrs v)) [GBase; GTramp; GRimiSS; GRimiFull; GFixer] = true.
Proof. vm_compute. reflexivity. Qed.

Lemma arith_names_not_loads :
  forallb (fun n => negb (is_any_load n)) (b_I_INSTRUCTIONS ++ ["jalr"; "addi"]%string) = true.
Proof. vm_compute. reflexivity. Qed.

Lemma not_any_load name : In name (b_I_INSTRUCTIONS ++ ["jalr"; "addi"]%string) -> is_any_load name = false.
Proof.
  intros H. pose proof arith_names_not_loads as W. rewrite forallb_forall in W.
  apply negb_true_iff. apply W. exact H.
Qed.

Theorem method_instr_mem_discipline c g : instr_ok c g = true -> mem_discipline c g = true.
Proof.
  apply instr_ok_elim.
  - intros g' H. destruct g'; cbn [rand_ok mem_discipline] in *; try reflexivity.
    + destruct (is_load_name name) eqn:El.
      * apply andb_prop in H. destruct H as [_ H]. unfold is_any_load. rewrite El. cbn [orb]. rewrite H. reflexivity.
      * apply andb_prop in H. destruct H as [Hn _]. apply mem_true_In in Hn.
        rewrite not_any_load by (apply in_or_app; left; exact Hn). reflexivity.
    + apply andb_prop in H. destruct H as [_ H]. rewrite H. reflexivity.
  - apply forallb_forall. intros g' Hg.
    pose proof (frame_instrs_forall frame_mem (c_variant c) frame_mem_all) as W.
    rewrite forallb_forall in W. specialize (W g' Hg).
    destruct g'; cbn [frame_mem mem_discipline] in *; try reflexivity.
    + destruct (is_any_load name); [|reflexivity]. rewrite W. apply orb_true_r.
    + rewrite W. apply orb_true_r.
  - intros g' H. destruct g'; cbn [stub_ok mem_discipline] in *; try reflexivity; try discriminate.
    assert (Hn : In name (b_I_INSTRUCTIONS ++ ["jalr"; "addi"]%string)).
    { apply in_or_app. right.
      apply orb_prop in H. destruct H as [H|H]; repeat (apply andb_prop in H; destruct H as [H ?]).
      - apply String.eqb_eq in H. subst. left. reflexivity.
      - match goal with Hs : String.eqb name "addi" = true |- _ => apply String.eqb_eq in Hs; subst end.
        right. left. reflexivity. }
    rewrite (not_any_load _ Hn). reflexivity.
Qed.

(* ---------------------------------------------------------------- C03 / C02 *)
Definition dest_of (g : gi) : Z :=
  match g with
  | GR name _ _ _ rd _ _ => rd
  | GI _ _ _ _ rd _ _ => rd
  | GU _ _ rd _ | GJ _ _ rd _ => rd
  | GS _ _ _ _ _ _ | GB _ _ _ _ _ _ => 0
  end.

(* destinations of prologue / epilogue instructions, per variant *)
Lemma frame_dests :
  forallb (fun v => forallb (fun g => existsb (Z.eqb (dest_of g)) (0 :: 1 :: 2 :: 8 :: (if is_protected v then [28] else [])))
                            (frame_instrs v)) [GBase; GTramp; GRimiSS; GRimiFull; GFixer] = true.
Proof. vm_compute. reflexivity. Qed.

(* no instruction of any method writes the data-base register *)
Theorem method_instr_keeps_data_reg c g :
  cfg_regs c -> instr_ok c g = true -> negb (dest_of g =? c_data_reg c) = true.
Proof.
  intros R. destruct (caller_saved_facts _ (cr_data c R)) as (Hrange & H1 & H2 & H8).
  apply (instr_ok_elim c (fun g => negb (dest_of g =? c_data_reg c))).
  - intros g' H. apply negb_true_iff. apply Z.eqb_neq.
    assert (HU : forall r, in_zlist r (usable_registers c) = true -> r <> c_data_reg c).
    { intros r Hr. unfold in_zlist in Hr. apply existsb_exists in Hr. destruct Hr as (y & Hy & E).
      apply Z.eqb_eq in E. subst y. apply (usable_subset c r Hy). }
    destruct g'; cbn [rand_ok dest_of] in *; try lia.
    all: apply HU; try destruct (is_load_name name);
      repeat match goal with H0 : (_ && _) = true |- _ => apply andb_prop in H0; destruct H0 end; assumption.
  - apply forallb_forall. intros g' Hg.
    pose proof (frame_instrs_forall_dep (fun v g => existsb (Z.eqb (dest_of g)) (0 :: 1 :: 2 :: 8 :: (if is_protected v then [28] else []))) (c_variant c) frame_dests) as W.
    rewrite forallb_forall in W. specialize (W g' Hg). cbv beta in W.
    apply negb_true_iff. apply Z.eqb_neq. intros E.
    apply existsb_exists in W. destruct W as (y & Hy & Ey). apply Z.eqb_eq in Ey. rewrite E in Ey. subst y.
    destruct (is_protected (c_variant c)) eqn:Ep; cbn [In] in Hy.
    + pose proof (cr_special c R Ep). lia.
    + lia.
  - intros g' H. apply negb_true_iff. apply Z.eqb_neq. intros E.
    destruct g'; cbn [stub_ok dest_of] in *; try discriminate.
    + repeat (apply andb_prop in H; destruct H as [H ?]).
      match goal with Hz : (rd =? 0) = true |- _ => apply Z.eqb_eq in Hz end. lia.
    + apply orb_prop in H. destruct H as [H|H]; repeat (apply andb_prop in H; destruct H as [H ?]).
      * match goal with Hz : (rd =? 1) = true |- _ => apply Z.eqb_eq in Hz end. lia.
      * match goal with Hz : (rd =? 28) = true |- _ => apply Z.eqb_eq in Hz end.
        assert (Ep : is_protected (c_variant c) = true) by (destruct (c_variant c); try discriminate; reflexivity).
        pose proof (cr_special c R Ep). lia.
    + apply andb_prop in H. destruct H as [_ H]. apply orb_prop in H. destruct H as [H|H].
      * apply Z.eqb_eq in H. lia.
      * apply andb_prop in H. destruct H as [Hf H]. apply Z.eqb_eq in H.
        assert (Ep : is_protected (c_variant c) = true) by (destruct (c_variant c); try discriminate; reflexivity).
        pose proof (cr_special c R Ep). lia.
Qed.

(* ---------------------------------------------------------------- C06 *)
(* every direct jump / branch of a method goes strictly forward (pc+4 or pc+8) *)
Definition forward (g : gi) : bool :=
  match g with
  | GJ _ _ _ imm => (imm =? 4) || (imm =? 8)
  | GB _ _ _ _ _ imm => (imm =? 4) || (imm =? 8)
  | _ => true
  end.

Lemma frame_forward :
  forallb (fun v => forallb forward (frame_instrs v)) [GBase; GTramp; GRimiSS; GRimiFull; GFixer] = true.
Proof. vm_compute. reflexivity. Qed.

Theorem method_instr_forward c g : instr_ok c g = true -> forward g = true.
Proof.
  apply instr_ok_elim.
  - intros g' H. destruct g'; cbn [rand_ok forward] in *; try reflexivity.
    + apply andb_prop in H. destruct H as [_ H]. rewrite H. reflexivity.
    + apply andb_prop in H. destruct H as [_ H]. rewrite H. reflexivity.
  - apply (frame_instrs_forall forward (c_variant c) frame_forward).
  - intros g' H. destruct g'; cbn [stub_ok forward] in *; try reflexivity; discriminate.
Qed.

(* ---------------------------------------------------------------- C09 *)
Definition ra_on_main (g : gi) : bool :=
  match g with
  | GS name _ _ rs1 rs2 _ => (rs1 =? 2) && (rs2 =? 1)
  | GI name _ _ _ rd rs1 _ => is_any_load name && (rd =? 1) && (rs1 =? 2)
  | _ => false
  end.

Lemma rimi_frames_no_ra :
  forallb (fun v => forallb (fun g => negb (ra_on_main g)) (frame_instrs v)) [GRimiSS; GRimiFull] = true.
Proof. vm_compute. reflexivity. Qed.

(* in both RIMI variants no method instruction stores ra to, or reloads it from, the main stack *)
Theorem rimi_method_instr_no_ra_on_main c g :
  cfg_regs c -> (c_variant c = GRimiSS \/ c_variant c = GRimiFull) ->
  instr_ok c g = true -> ra_on_main g = false.
Proof.
  intros R Hv. destruct (caller_saved_facts _ (cr_data c R)) as (Hrange & H1 & H2 & H8).
  intros H. apply negb_true_iff. revert g H.
  apply (instr_ok_elim c (fun g => negb (ra_on_main g))).
  - intros g' H. apply negb_true_iff. destruct g'; cbn [rand_ok ra_on_main] in *; try reflexivity.
    + destruct (is_load_name name) eqn:El.
      * apply andb_prop in H. destruct H as [_ H]. unfold data_access_ok in H.
        repeat (apply andb_prop in H; destruct H as [H ?]). apply Z.eqb_eq in H.
        destruct (Z.eqb_spec rs1 2); [lia|]. rewrite andb_false_r. reflexivity.
      * apply andb_prop in H. destruct H as [Hn _]. apply mem_true_In in Hn.
        rewrite not_any_load by (apply in_or_app; left; exact Hn). reflexivity.
    + apply andb_prop in H. destruct H as [_ H]. unfold data_access_ok in H.
      repeat (apply andb_prop in H; destruct H as [H ?]). apply Z.eqb_eq in H.
      destruct (Z.eqb_spec rs1 2); [lia|]. reflexivity.
  - pose proof rimi_frames_no_ra as W. cbn [forallb] in W. repeat (apply andb_prop in W; destruct W as [? W]).
    destruct Hv as [-> | ->]; assumption.
  - intros g' H. apply negb_true_iff. destruct g'; cbn [stub_ok ra_on_main] in *; try reflexivity; try discriminate.
    apply orb_prop in H. destruct H as [H|H]; repeat (apply andb_prop in H; destruct H as [H ?]).
    + match goal with Hz : (rs1 =? 1) = true |- _ => apply Z.eqb_eq in Hz; subst end.
      rewrite andb_false_r. reflexivity.
    + match goal with Hz : (rs1 =? 28) = true |- _ => apply Z.eqb_eq in Hz; subst end.
      rewrite andb_false_r. reflexivity.
Qed.

(* ------------------------------------------------------ whole-image forms *)
Theorem image_methods_disciplined c script img rest :
  cfg_ok c = true -> run_gen c script = OK (img, rest) ->
  Forall (fun m => Forall (fun g => mem_discipline c g = true /\ negb (dest_of g =? c_data_reg c) = true
                                    /\ forward g = true) (m_instrs m)) (im_methods img).
Proof.
  intros Hc Hr. destruct (cfg_ok_facts c Hc) as [F R].
  pose proof (run_gen_methods_ok c script img rest F Hr) as H.
  eapply Forall_impl; [|exact H]. intros m Hm. unfold method_ok in Hm.
  eapply Forall_impl; [|exact Hm]. intros g Hg. cbv beta in Hg. repeat split.
  - apply method_instr_mem_discipline. exact Hg.
  - apply method_instr_keeps_data_reg; assumption.
  - apply method_instr_forward with (c := c). exact Hg.
Qed.

Theorem rimi_image_no_ra_on_main c script img rest :
  cfg_ok c = true -> (c_variant c = GRimiSS \/ c_variant c = GRimiFull) ->
  run_gen c script = OK (img, rest) ->
  Forall (fun m => Forall (fun g => ra_on_main g = false) (m_instrs m)) (im_methods img).
Proof.
  intros Hc Hv Hr. destruct (cfg_ok_facts c Hc) as [F R].
  pose proof (run_gen_methods_ok c script img rest F Hr) as H.
  eapply Forall_impl; [|exact H]. intros m Hm. unfold method_ok in Hm.
  eapply Forall_impl; [|exact Hm]. intros g Hg. apply (rimi_method_instr_no_ra_on_main c g R Hv Hg).
Qed.

(* ------------------------------------------------ forms used by Properties *)
Theorem methods_access_discipline : forall c script img, successful c script img ->
  Forall (fun m => Forall (fun g => mem_discipline c g = true /\ negb (dest_of g =? c_data_reg c) = true)
                          (m_instrs m)) (im_methods img).
Proof.
  intros c script img [Hc Hr]. pose proof (image_methods_disciplined c script img [] Hc Hr) as H.
  eapply Forall_impl; [|exact H]. intros m Hm. eapply Forall_impl; [|exact Hm]. intros g (A & B & _). split; assumption.
Qed.

Theorem methods_forward_only : forall c script img, successful c script img ->
  Forall (fun m => Forall (fun g => forward g = true) (m_instrs m)) (im_methods img).
Proof.
  intros c script img [Hc Hr]. pose proof (image_methods_disciplined c script img [] Hc Hr) as H.
  eapply Forall_impl; [|exact H]. intros m Hm. eapply Forall_impl; [|exact Hm]. intros g (_ & _ & C). exact C.
Qed.

Theorem rimi_methods_no_ra_on_main : forall c script img, successful c script img ->
  (c_variant c = GRimiSS \/ c_variant c = GRimiFull) ->
  Forall (fun m => Forall (fun g => ra_on_main g = false) (m_instrs m)) (im_methods img).
Proof. intros c script img [Hc Hr] Hv. exact (rimi_image_no_ra_on_main c script img [] Hc Hv Hr). Qed.

(* non-vacuity: an accepted configuration and a script that generates an image exist *)
