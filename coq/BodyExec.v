(* BodyExec.v — Layer B, first step (specification side: Isa + Machine only).
   A straight-line block of instructions of the shapes random method bodies are
   made of executes on the reference machine, from ANY state in which the data
   register holds the data base, to the end of the block:
     - exactly one step per instruction, pc advancing by 4 each time (branches
       and jumps of a body target pc+4 whether or not they are taken);
     - no fault of any monitor;
     - every register outside the block's write set keeps its value;
     - memory outside the data section is untouched; dom and the CFI stack too. *)
From Coq Require Import ZArith List Bool Lia FMapPositive.
From Gigue Require Import Isa Machine MachineLemmas.
Import ListNotations.
Open Scope Z_scope.

(* ---------------------------------------------------------------- memory frame *)
Lemma key_eq a b : 0 <= a -> 0 <= b -> key a = key b -> a = b.
Proof. apply key_inj. Qed.

Lemma mget_add_same m a v : mget (PM.add (key a) v m) a = v.
Proof. unfold mget. rewrite PM.gss. reflexivity. Qed.

Lemma mget_add_other m a b v : 0 <= a -> 0 <= b -> a <> b -> mget (PM.add (key a) v m) b = mget m b.
Proof.
  intros Ha Hb Hne. unfold mget. rewrite PM.gso; [reflexivity|]. intros E. apply Hne. symmetry. apply key_inj; assumption.
Qed.

Lemma mget_store_other : forall n m a v b,
  0 <= a -> 0 <= b -> (b < a \/ a + Z.of_nat n <= b) -> mget (store_bytes m a n v) b = mget m b.
Proof.
  induction n as [|k IH]; intros m a v b Ha Hb Hd; cbn [store_bytes]; [reflexivity|].
  rewrite IH by lia. apply mget_add_other; lia.
Qed.

(* ---------------------------------------------------------------- body instructions *)
Section Body.
Variable v : variant.
Variable L : layout.
Variable dr : Z.            (* the data-base register *)
Variable dsize : Z.         (* length of the data image *)
Variable wr : Z -> bool.    (* registers a body instruction may write *)

Definition dup_needed : bool := match v with VRimiFull => true | _ => false end.

Definition access_fits (w imm : Z) : Prop := 0 <= imm /\ imm mod w = 0 /\ imm + w <= dsize.

Definition body_instr (i : instr) : Prop :=
  match i with
  | Rop _ rd _ _ | Iop _ rd _ _ | Shift _ rd _ _ | Lui rd _ | Auipc rd _ => wr rd = true
  | Load o rd rs1 imm => dup_needed = false /\ rs1 = dr /\ access_fits (Z.of_nat (lwidth o)) imm /\ wr rd = true
  | Store o rs1 _ imm => dup_needed = false /\ rs1 = dr /\ access_fits (Z.of_nat (swidth o)) imm
  | Load1 o rd rs1 imm => dup_needed = true /\ rs1 = dr /\ access_fits (Z.of_nat (lwidth o)) imm /\ wr rd = true
  | Store1 o rs1 _ imm => dup_needed = true /\ rs1 = dr /\ access_fits (Z.of_nat (swidth o)) imm
  | Branch _ _ _ off => off = 4
  | Jal rd off => off = 4 /\ wr rd = true
  | _ => False
  end.

(* what the surrounding state must provide *)
Record env_ok (s : mstate) : Prop := {
  e_dr : rget s dr = data_lo L;
  e_dom : match v with VRimiFull => dom s = 1 | _ => True end
}.

Record layout_ok : Prop := {
  l_data_pos : 0 <= data_lo L;
  l_data_al : data_lo L mod 8 = 0;
  l_data_fit : data_lo L + dsize <= data_hi L;
  l_data_hi : data_hi L < W64;
  (* the data section is disjoint from the code image *)
  l_code : code_hi L <= data_lo L \/ data_hi L <= code_lo L;
  (* and from the stack: a base access must resolve to the data section *)
  l_stack : stk_hi L <= data_lo L \/ data_hi L <= stk_lo L;
  l_dr : 0 < dr /\ wr dr = false;
  l_wr_range : forall r, wr r = true -> 0 <= r
}.

Definition same_outside_data (s s' : mstate) : Prop :=
  forall a, 0 <= a -> (a < data_lo L \/ data_lo L + dsize <= a) -> mget (mem s') a = mget (mem s) a.

Definition frame (s s' : mstate) : Prop :=
  (forall r, 0 <= r -> wr r = false -> rget s' r = rget s r) /\
  same_outside_data s s' /\ dom s' = dom s /\ cfi s' = cfi s.

Lemma frame_refl s : frame s s.
Proof. repeat split; intros; reflexivity. Qed.

Lemma frame_trans a b c : frame a b -> frame b c -> frame a c.
Proof.
  intros (R1 & M1 & D1 & C1) (R2 & M2 & D2 & C2). repeat split.
  - intros r Hr Hw. rewrite R2, R1 by assumption. reflexivity.
  - intros x Hx Hd. rewrite M2, M1 by assumption. reflexivity.
  - congruence.
  - congruence.
Qed.

Hypothesis HL : layout_ok.

Lemma frame_rset s rd x p : wr rd = true -> frame s (set_pc (rset s rd x) p).
Proof.
  intros Hw. repeat split.
  - intros r Hr Hf. rewrite rget_set_pc. destruct (Z.eq_dec rd r) as [->|Hne]; [congruence|].
    apply rget_rset_other; [apply (l_wr_range HL); exact Hw|exact Hr|exact Hne].
  - intros a _ _. cbn [set_pc mem]. rewrite mem_rset. reflexivity.
  - cbn [set_pc dom]. apply dom_rset.
  - cbn [set_pc cfi]. apply cfi_rset.
Qed.

Lemma env_rset s rd x p : env_ok s -> wr rd = true -> env_ok (set_pc (rset s rd x) p).
Proof.
  intros [E1 E2] Hw. destruct (l_dr HL) as [Hd0 Hdw]. constructor.
  - rewrite rget_set_pc. rewrite rget_rset_other; [exact E1|apply (l_wr_range HL); exact Hw|lia|congruence].
  - cbn [set_pc dom]. rewrite dom_rset. exact E2.
Qed.

Lemma width_cases_l o : Z.of_nat (lwidth o) = 1 \/ Z.of_nat (lwidth o) = 2 \/ Z.of_nat (lwidth o) = 4 \/ Z.of_nat (lwidth o) = 8.
Proof. destruct o; cbn; auto. Qed.
Lemma width_cases_s o : Z.of_nat (swidth o) = 1 \/ Z.of_nat (swidth o) = 2 \/ Z.of_nat (swidth o) = 4 \/ Z.of_nat (swidth o) = 8.
Proof. destruct o; cbn; auto. Qed.

(* the address of a body access, and why no monitor objects *)
Lemma data_address s imm w :
  env_ok s -> access_fits w imm -> (w = 1 \/ w = 2 \/ w = 4 \/ w = 8) ->
  u64 (rget s dr + imm) = data_lo L + imm /\
  (data_lo L + imm) mod w = 0 /\ data_lo L <= data_lo L + imm /\ data_lo L + imm + w <= data_lo L + dsize.
Proof.
  intros [E _] (H0 & Hm & Hf) Hw. rewrite E.
  pose proof (l_data_pos HL). pose proof (l_data_fit HL). pose proof (l_data_hi HL). pose proof (l_data_al HL) as Hal.
  split; [apply u64_small; lia|]. split; [|lia].
  destruct Hw as [->|[->|[->| ->]]]; Z.div_mod_to_equations; lia.
Qed.

Lemma access_base_ok s a w st :
  dup_needed = false -> a mod w = 0 -> data_lo L <= a -> a + w <= data_lo L + dsize -> 0 < w ->
  access_ok v L ABase (dom s) a w st = None.
Proof.
  intros Hd Hm Hlo Hhi Hw. unfold access_ok, inr.
  pose proof (l_data_fit HL). pose proof (l_code HL). pose proof (l_stack HL).
  rewrite Hm, Z.eqb_refl. cbn [negb].
  destruct ((code_lo L <=? a) && (a + w <=? code_hi L)) eqn:Ec.
  { apply andb_prop in Ec. destruct Ec as [E1 E2]. apply Z.leb_le in E1. apply Z.leb_le in E2. lia. }
  destruct ((stk_lo L <=? a) && (a + w <=? stk_hi L)); [reflexivity|].
  assert (Ed : (data_lo L <=? a) && (a + w <=? data_hi L) = true).
  { apply andb_true_intro. split; apply Z.leb_le; lia. }
  rewrite Ed. unfold dup_needed in Hd. destruct v; try reflexivity; discriminate.
Qed.

Lemma access_dup_ok s a w st :
  env_ok s -> dom s = 1 -> a mod w = 0 -> data_lo L <= a -> a + w <= data_lo L + dsize -> 0 < w ->
  access_ok v L ADup (dom s) a w st = None.
Proof.
  intros _ Hd Hm Hlo Hhi Hw. unfold access_ok, inr.
  pose proof (l_data_fit HL). pose proof (l_code HL).
  rewrite Hm, Z.eqb_refl. cbn [negb].
  destruct ((code_lo L <=? a) && (a + w <=? code_hi L)) eqn:Ec.
  { apply andb_prop in Ec. destruct Ec as [E1 E2]. apply Z.leb_le in E1. apply Z.leb_le in E2. lia. }
  rewrite Hd. cbn.
  assert (Ed : (data_lo L <=? a) && (a + w <=? data_hi L) = true).
  { apply andb_true_intro. split; apply Z.leb_le; lia. }
  rewrite Ed. reflexivity.
Qed.

Lemma frame_store s a n x p :
  0 <= a -> data_lo L <= a -> a + Z.of_nat n <= data_lo L + dsize ->
  frame s (set_pc (set_mem s (store_bytes (mem s) a n x)) p).
Proof.
  intros Ha Hlo Hhi. repeat split.
  - intros b Hb Hout. cbn [set_pc set_mem mem]. apply mget_store_other; [exact Ha|exact Hb|lia].
Qed.

Lemma env_store s m p : env_ok s -> env_ok (set_pc (set_mem s m) p).
Proof. intros [E1 E2]. constructor; [exact E1|exact E2]. Qed.

(* RIMI-full needs the JIT domain for duplicated accesses *)
Definition dom_for_dup (s : mstate) : Prop := dom s = 1.

Lemma dup_dom s : env_ok s -> dup_needed = true -> dom s = 1.
Proof. intros [_ E] Hd. unfold dup_needed in Hd. destruct v; try discriminate. exact E. Qed.

Lemma step_body s i :
  env_ok s -> 0 <= pc s -> pc s + 4 < W64 ->
  body_instr i ->
  exists s', exec v L s i = Next s' /\ pc s' = pc s + 4 /\ frame s s' /\ env_ok s'.
Proof.
  intros He Hp0 Hp1 Hb.
  destruct i; cbn [body_instr] in Hb; try contradiction; cbn [exec].
  - eexists. split; [reflexivity|]. split; [reflexivity|]. split; [apply frame_rset|apply env_rset]; assumption.
  - eexists. split; [reflexivity|]. split; [reflexivity|]. split; [apply frame_rset|apply env_rset]; assumption.
  - eexists. split; [reflexivity|]. split; [reflexivity|]. split; [apply frame_rset|apply env_rset]; assumption.
  - (* Load *)
    destruct Hb as (Hdup & -> & Hfit & Hw).
    destruct (data_address s imm _ He Hfit (width_cases_l o)) as (Ea & Hm & Hlo & Hhi).
    unfold do_load. rewrite Ea.
    rewrite access_base_ok; [|assumption|assumption|assumption|assumption|destruct o; cbn; lia].
    eexists. split; [reflexivity|]. split; [reflexivity|]. split; [apply frame_rset|apply env_rset]; assumption.
  - (* Store *)
    destruct Hb as (Hdup & -> & Hfit).
    destruct (data_address s imm _ He Hfit (width_cases_s o)) as (Ea & Hm & Hlo & Hhi).
    unfold do_store. rewrite Ea.
    rewrite access_base_ok; [|assumption|assumption|assumption|assumption|destruct o; cbn; lia].
    eexists. split; [reflexivity|]. split; [reflexivity|].
    split; [apply frame_store; [pose proof (l_data_pos HL); lia|assumption|assumption]|apply env_store; assumption].
  - (* Branch *)
    subst off. eexists. split; [reflexivity|]. split.
    + cbn [set_pc pc]. destruct (btaken _ _ _); [apply u64_small; lia|reflexivity].
    + split; [|destruct He; constructor; assumption]. repeat split; intros; reflexivity.
  - eexists. split; [reflexivity|]. split; [reflexivity|]. split; [apply frame_rset|apply env_rset]; assumption.
  - eexists. split; [reflexivity|]. split; [reflexivity|]. split; [apply frame_rset|apply env_rset]; assumption.
  - (* Jal *)
    destruct Hb as (-> & Hw). eexists. split; [reflexivity|]. split; [cbn [set_pc pc]; apply u64_small; lia|].
    split; [apply frame_rset|apply env_rset]; assumption.
  - (* Load1 *)
    destruct Hb as (Hdup & -> & Hfit & Hw).
    destruct (data_address s imm _ He Hfit (width_cases_l o)) as (Ea & Hm & Hlo & Hhi).
    unfold do_load. rewrite Ea.
    rewrite access_dup_ok; [|assumption|apply dup_dom; assumption|assumption|assumption|assumption|destruct o; cbn; lia].
    eexists. split; [reflexivity|]. split; [reflexivity|]. split; [apply frame_rset|apply env_rset]; assumption.
  - (* Store1 *)
    destruct Hb as (Hdup & -> & Hfit).
    destruct (data_address s imm _ He Hfit (width_cases_s o)) as (Ea & Hm & Hlo & Hhi).
    unfold do_store. rewrite Ea.
    rewrite access_dup_ok; [|assumption|apply dup_dom; assumption|assumption|assumption|assumption|destruct o; cbn; lia].
    eexists. split; [reflexivity|]. split; [reflexivity|].
    split; [apply frame_store; [pose proof (l_data_pos HL); lia|assumption|assumption]|apply env_store; assumption].
Qed.

(* ---------------------------------------------------------------- the block theorem *)
Theorem body_exec : forall is s A,
  Forall body_instr is -> env_ok s -> pc s = A -> 0 <= A -> A + 4 * Z.of_nat (List.length is) < W64 ->
  exists s', exec_at v L A is s = Next s' /\ pc s' = A + 4 * Z.of_nat (List.length is) /\ frame s s' /\ env_ok s'.
Proof.
  induction is as [|i tl IH]; intros s A HF He Hpc HA Hend.
  - exists s. cbn [exec_at List.length]. split; [reflexivity|]. split; [cbn; lia|]. split; [apply frame_refl|exact He].
  - inversion HF as [|? ? Hi Htl]; subst.
    assert (Hlen : Z.of_nat (List.length (i :: tl)) = 1 + Z.of_nat (List.length tl)) by (cbn [List.length]; lia).
    rewrite Hlen in *. cbn [exec_at]. rewrite Z.eqb_refl.
    destruct (step_body s i He HA ltac:(lia) Hi) as (s1 & E1 & P1 & F1 & He1).
    rewrite E1.
    destruct (IH s1 (pc s + 4) Htl He1 P1 ltac:(lia) ltac:(lia)) as (s' & E' & P' & F' & He').
    exists s'. split; [exact E'|]. split; [rewrite P'; lia|]. split; [eapply frame_trans; eassumption|exact He'].
Qed.
End Body.
