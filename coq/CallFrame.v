(* CallFrame.v — Layer B (specification side): the call-making frame of the
   plain variants:  addi sp,sp,-32 ; sd s0,0(sp) ; sd ra,8(sp)   ...
                    ld s0,0(sp) ; ld ra,8(sp) ; addi sp,sp,32 ; ret  *)
From Coq Require Import ZArith List Bool Lia FMapPositive.
From Gigue Require Import Isa Machine MachineLemmas BodyExec FrameExec CodeMem.
Import ListNotations.
Open Scope Z_scope.

Definition call_pro : list instr := [Iop ADDI 2 2 (-32); Store SD 2 8 0; Store SD 2 1 8].
Definition call_epi : list instr := [Load LD 8 2 0; Load LD 1 2 8; Iop ADDI 2 2 32; Jalr 0 1 0].

Section CF.
Variable v : variant.
Variable L : layout.
Hypothesis Hstk_code : code_hi L <= stk_lo L \/ stk_hi L <= code_lo L.
Hypothesis Hstk_pos : 0 <= stk_lo L.

Lemma stack_ok s a st :
  a mod 8 = 0 -> stk_lo L <= a -> a + 8 <= stk_hi L -> access_ok v L ABase (dom s) a 8 st = None.
Proof.
  intros Hm Hlo Hhi. unfold access_ok, inr. rewrite Hm, Z.eqb_refl. cbn [negb].
  destruct ((code_lo L <=? a) && (a + 8 <=? code_hi L)) eqn:Ec.
  { apply andb_prop in Ec. destruct Ec as [E1 E2]. apply Z.leb_le in E1. apply Z.leb_le in E2. lia. }
  assert (Es : (stk_lo L <=? a) && (a + 8 <=? stk_hi L) = true).
  { apply andb_true_intro. split; apply Z.leb_le; lia. }
  rewrite Es. reflexivity.
Qed.

(* prologue: three steps *)
Lemma call_pro_exec s A :
  pc s = A -> let S := rget s 2 in
  S mod 8 = 0 -> 32 <= S < W64 -> stk_lo L <= S - 32 -> S <= stk_hi L ->
  exists s', exec_at v L A call_pro s = Next s' /\ pc s' = A + 12 /\
    rget s' 2 = S - 32 /\ (forall r, 0 <= r -> r <> 2 -> rget s' r = rget s r) /\
    mem s' = store_bytes (store_bytes (mem s) (S - 32) 8 (rget s 8)) (S - 24) 8 (rget s 1) /\
    dom s' = dom s /\ cfi s' = cfi s.
Proof.
  intros Hpc S Hal Hr Hlo Hhi. unfold call_pro. cbn [exec_at]. rewrite Hpc, Z.eqb_refl. cbn [exec alui]. rewrite !Hpc.
  set (s1 := set_pc (rset s 2 (u64 (rget s 2 + -32))) (A + 4)).
  assert (Hsp1 : rget s1 2 = S - 32).
  { unfold s1. rewrite rget_set_pc, rget_rset_same by lia. rewrite u64_idem. apply u64_small. fold S. lia. }
  assert (Hr1 : forall r, 0 <= r -> r <> 2 -> rget s1 r = rget s r).
  { intros r Hr0 Hne. unfold s1. rewrite rget_set_pc. apply rget_rset_other; lia. }
  change (pc s1) with (A + 4). rewrite Z.eqb_refl. unfold do_store. cbn [swidth]. change (Z.of_nat 8) with 8.
  replace (u64 (rget s1 2 + 0)) with (S - 32) by (rewrite Hsp1, Z.add_0_r; symmetry; apply u64_small; lia).
  rewrite (stack_ok s1 (S - 32) true) by (try lia; Z.div_mod_to_equations; lia).
  set (s2 := set_pc (set_mem s1 (store_bytes (mem s1) (S - 32) 8 (rget s1 8))) (pc s1 + 4)).
  change (pc s2) with (A + 4 + 4). rewrite Z.eqb_refl.
  replace (u64 (rget s2 2 + 8)) with (S - 24) by (change (rget s2 2) with (rget s1 2); rewrite Hsp1; symmetry; rewrite u64_small by lia; lia).
  rewrite (stack_ok s2 (S - 24) true) by (try lia; Z.div_mod_to_equations; lia).
  eexists. split; [reflexivity|]. cbn [set_pc set_mem pc mem dom cfi].
  split; [unfold s2, s1; cbn [set_pc set_mem pc]; lia|].
  split; [rewrite rget_set_pc, rget_set_mem; change (rget s2 2) with (rget s1 2); exact Hsp1|].
  split.
  { intros r Hr0 Hne. rewrite rget_set_pc, rget_set_mem. change (rget s2 r) with (rget s1 r). apply Hr1; assumption. }
  split.
  { unfold s2. cbn [set_pc set_mem mem]. change (rget (set_pc (set_mem s1 _) _) 1) with (rget s1 1).
    rewrite (Hr1 1), (Hr1 8) by lia. unfold s1. cbn [set_pc mem]. rewrite mem_rset. reflexivity. }
  split; [unfold s2, s1; cbn [set_pc set_mem dom]; apply dom_rset|unfold s2, s1; cbn [set_pc set_mem cfi]; apply cfi_rset].
Qed.

(* epilogue: four steps, from a state whose frame slots hold s0e / rae *)
Lemma call_epi_exec s A S s0e rae :
  pc s = A -> rget s 2 = S - 32 ->
  S mod 8 = 0 -> 32 <= S < W64 -> stk_lo L <= S - 32 -> S <= stk_hi L ->
  load_bytes (mem s) (S - 32) 8 = s0e -> load_bytes (mem s) (S - 24) 8 = rae ->
  0 <= s0e < W64 -> 0 <= rae < W64 ->
  exists s', exec_at v L A call_epi s = Next s' /\ pc s' = (u64 (rae + 0) / 2) * 2 /\
    rget s' 2 = S /\ rget s' 8 = s0e /\ rget s' 1 = rae /\
    (forall r, 0 <= r -> r <> 1 -> r <> 2 -> r <> 8 -> rget s' r = rget s r) /\
    mem s' = mem s /\ dom s' = dom s /\ cfi s' = cfi s.
Proof.
  intros Hpc Hsp Hal Hr Hlo Hhi Hl0 Hl1 H0 H1. unfold call_epi. cbn [exec_at]. rewrite Hpc, Z.eqb_refl. cbn [exec].
  unfold do_load. cbn [lwidth lext]. change (Z.of_nat 8) with 8.
  replace (u64 (rget s 2 + 0)) with (S - 32) by (rewrite Hsp, Z.add_0_r; symmetry; apply u64_small; lia).
  rewrite (stack_ok s (S - 32) false) by (try lia; Z.div_mod_to_equations; lia). rewrite Hl0.
  set (s1 := set_pc (rset s 8 s0e) (pc s + 4)).
  assert (Hpc1 : pc s1 = A + 4) by (unfold s1; cbn [set_pc pc]; lia).
  rewrite Hpc1, Z.eqb_refl.
  assert (Hsp1 : rget s1 2 = S - 32) by (unfold s1; rewrite rget_set_pc, rget_rset_other by lia; exact Hsp).
  replace (u64 (rget s1 2 + 8)) with (S - 24) by (rewrite Hsp1; symmetry; rewrite u64_small by lia; lia).
  rewrite (stack_ok s1 (S - 24) false) by (try lia; Z.div_mod_to_equations; lia).
  assert (Hm1 : mem s1 = mem s) by (unfold s1; cbn [set_pc mem]; apply mem_rset).
  rewrite Hm1, Hl1.
  set (s2 := set_pc (rset s1 1 rae) (A + 4 + 4)).
  assert (Hpc2 : pc s2 = A + 4 + 4) by reflexivity.
  rewrite Hpc2, Z.eqb_refl. cbn [alui].
  assert (Hsp2 : rget s2 2 = S - 32) by (unfold s2; rewrite rget_set_pc, rget_rset_other by lia; exact Hsp1).
  set (s3 := set_pc (rset s2 2 (u64 (rget s2 2 + 32))) (A + 4 + 4 + 4)).
  assert (Hpc3 : pc s3 = A + 4 + 4 + 4) by reflexivity.
  rewrite Hpc3, Z.eqb_refl.
  eexists. split; [reflexivity|]. rewrite rset_zero.
  assert (R3 : rget s3 2 = S).
  { unfold s3. rewrite rget_set_pc, rget_rset_same by lia. rewrite u64_idem, Hsp2. replace (S - 32 + 32) with S by lia. apply u64_small; lia. }
  assert (R1 : rget s3 1 = rae).
  { unfold s3. rewrite rget_set_pc, rget_rset_other by lia. unfold s2. rewrite rget_set_pc, rget_rset_same by lia. apply u64_small; lia. }
  assert (R8 : rget s3 8 = s0e).
  { unfold s3. rewrite rget_set_pc, rget_rset_other by lia. unfold s2. rewrite rget_set_pc, rget_rset_other by lia.
    unfold s1. rewrite rget_set_pc, rget_rset_same by lia. apply u64_small; lia. }
  split; [cbn [set_pc pc]; rewrite R1; reflexivity|].
  split; [rewrite rget_set_pc; exact R3|]. split; [rewrite rget_set_pc; exact R8|]. split; [rewrite rget_set_pc; exact R1|].
  split.
  { intros r Hr0 N1 N2 N8. rewrite rget_set_pc. unfold s3. rewrite rget_set_pc, rget_rset_other by lia.
    unfold s2. rewrite rget_set_pc, rget_rset_other by lia. unfold s1. rewrite rget_set_pc, rget_rset_other by lia. reflexivity. }
  split; [cbn [set_pc mem]; unfold s3, s2; cbn [set_pc mem]; rewrite !mem_rset; exact Hm1|].
  split; [cbn [set_pc dom]; unfold s3, s2, s1; cbn [set_pc dom]; rewrite !dom_rset; reflexivity|].
  cbn [set_pc cfi]; unfold s3, s2, s1; cbn [set_pc cfi]; rewrite !cfi_rset; reflexivity.
Qed.
End CF.
