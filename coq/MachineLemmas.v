(* MachineLemmas.v — basic facts about the reference machine's state. *)
From Coq Require Import ZArith List Bool Lia FMapPositive.
From Gigue Require Import Isa Machine.
Import ListNotations.
Open Scope Z_scope.

Lemma key_inj a b : 0 <= a -> 0 <= b -> key a = key b -> a = b.
Proof. unfold key. intros Ha Hb H. apply (f_equal Z.pos) in H. rewrite !Z2Pos.id in H by lia. lia. Qed.

Lemma u64_range x : 0 <= u64 x < W64.
Proof. unfold u64. apply Z.mod_pos_bound. reflexivity. Qed.

Lemma u64_small x : 0 <= x < W64 -> u64 x = x.
Proof. intros; unfold u64; apply Z.mod_small; assumption. Qed.

Lemma u64_idem x : u64 (u64 x) = u64 x.
Proof. unfold u64. apply Z.mod_mod. discriminate. Qed.

Lemma u64_add_l a b : u64 (u64 a + b) = u64 (a + b).
Proof. unfold u64. apply Zplus_mod_idemp_l. Qed.

Lemma u64_add_r a b : u64 (a + u64 b) = u64 (a + b).
Proof. unfold u64. apply Zplus_mod_idemp_r. Qed.

Lemma rget_rset_same s r v : 0 < r -> rget (rset s r v) r = u64 v.
Proof.
  intros Hr. unfold rget, rset. destruct (Z.eqb_spec r 0); [lia|].
  cbn [regs]. rewrite PM.gss. reflexivity.
Qed.

Lemma rget_rset_other s r r' v : 0 <= r -> 0 <= r' -> r <> r' -> rget (rset s r v) r' = rget s r'.
Proof.
  intros Hr Hr' Hne. unfold rget, rset. destruct (Z.eqb_spec r 0) as [|Hr0]; [reflexivity|].
  destruct (Z.eqb_spec r' 0); [reflexivity|]. cbn [regs].
  rewrite PM.gso; [reflexivity|]. intro E. apply key_inj in E; lia.
Qed.

Lemma rget_x0 s : rget s 0 = 0.
Proof. reflexivity. Qed.

Lemma rget_range s r : (forall k v, PM.find k (regs s) = Some v -> 0 <= v < W64) -> 0 <= rget s r < W64.
Proof.
  intros H. unfold rget. destruct (r =? 0); [unfold W64; lia|].
  destruct (PM.find (key r) (regs s)) eqn:E; [eapply H; eassumption|unfold W64; lia].
Qed.

Lemma pc_rset s r v : pc (rset s r v) = pc s.
Proof. unfold rset. destruct (r =? 0); reflexivity. Qed.
Lemma mem_rset s r v : mem (rset s r v) = mem s.
Proof. unfold rset. destruct (r =? 0); reflexivity. Qed.
Lemma dom_rset s r v : dom (rset s r v) = dom s.
Proof. unfold rset. destruct (r =? 0); reflexivity. Qed.
Lemma cfi_rset s r v : cfi (rset s r v) = cfi s.
Proof. unfold rset. destruct (r =? 0); reflexivity. Qed.

Lemma rget_set_pc s p r : rget (set_pc s p) r = rget s r.   Proof. reflexivity. Qed.
Lemma rget_set_cfi s c r : rget (set_cfi s c) r = rget s r. Proof. reflexivity. Qed.
Lemma rget_set_dom s d r : rget (set_dom s d) r = rget s r. Proof. reflexivity. Qed.
Lemma rget_set_mem s m r : rget (set_mem s m) r = rget s r. Proof. reflexivity. Qed.

(* straight-line execution of a list of instructions located at address a *)
Fixpoint exec_at (v : variant) (L : layout) (a : Z) (is : list instr) (s : mstate) : outcome :=
  match is with
  | [] => Next s
  | i :: tl =>
      if pc s =? a then
        match exec v L s i with
        | Next s' => exec_at v L (a + 4) tl s'
        | o => o
        end
      else Fault FFetchOutside s
  end.
