(* spec_driver.ml — line protocol around the extracted SPECIFICATION tools.
     dec <ext:0|1|2> <word>          -> printed instr | NONE
     mean <cls> <name> <a1> ...      -> printed intended instr | NONE
     wfargs|inrange <cls> <name> <a1> ... -> 1 | 0                                 *)
open Zio
open Instr_print

let () =
  try
    while true do
      let line = input_line stdin in
      (match split_ws line with
      | [ "dec"; x; w ] ->
        (match Isa.decode (ext_of x) (z_of_string w) with
         | Some i -> print_string (instr_s i ^ "\n")
         | None -> print_string "NONE\n")
      | "mean" :: cls :: name :: args ->
        (match CtorSpec.meaning (clist_of_string cls, clist_of_string name) (List.map z_of_string args) with
         | Some i -> print_string (instr_s i ^ "\n")
         | None -> print_string "NONE\n")
      | "inrange" :: cls :: name :: args ->
        print_string (if CtorSpec.in_range (clist_of_string cls, clist_of_string name) (List.map z_of_string args) then "1\n" else "0\n")
      | "wfargs" :: cls :: name :: args ->
        print_string (if CtorSpec.wf_args (clist_of_string cls, clist_of_string name) (List.map z_of_string args) then "1\n" else "0\n")
      | _ -> print_string "BAD\n")
    done
  with End_of_file -> ()
