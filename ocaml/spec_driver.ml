(* spec_driver.ml — line protocol around the extracted SPECIFICATION tools.
     dec <ext:0|1|2> <word>          -> printed instr | NONE
     mean <cls> <name> <a1> ...      -> printed intended instr | NONE
     wfargs|inrange <cls> <name> <a1> ... -> 1 | 0                                 *)
open Zio
open Instr_print

let () =
  try
    while true do
      let line = input_line stdin in
      (match split_ws line with
      | [ "dec"; x; w ] ->
        (match Isa.decode (ext_of x) (z_of_string w) with
         | Some i -> print_string (instr_s i ^ "\n")
         | None -> print_string "NONE\n")
      | "mean" :: cls :: name :: args ->
        (match CtorSpec.meaning (clist_of_string cls, clist_of_string name) (List.map z_of_string args) with
         | Some i -> print_string (instr_s i ^ "\n")
         | None -> print_string "NONE\n")
      | "inrange" :: cls :: name :: args ->
        print_string (if CtorSpec.in_range (clist_of_string cls, clist_of_string name) (List.map z_of_string args) then "1\n" else "0\n")
      | "wfargs" :: cls :: name :: args ->
        print_string (if CtorSpec.wf_args (clist_of_string cls, clist_of_string name) (List.map z_of_string args) then "1\n" else "0\n")
      | [ "fields"; w ] ->
        let w = z_of_string w in
        let rd = Isa.f_rd w and f3 = Isa.f_f3 w and rs1 = Isa.f_rs1 w and rs2 = Isa.f_rs2 w and f7 = Isa.f_f7 w in
        print_string (String.concat " " (List.map string_of_z
          [ Isa.f_op w; rd; f3; rs1; rs2; f7; Isa.immf_i rs2 f7; Isa.immf_s rd f7; Isa.immf_b rd f7;
            Isa.immf_u f3 rs1 rs2 f7; Isa.immf_j f3 rs1 rs2 f7 ]) ^ "\n")
      | "exec" :: vs :: clo :: jlo :: chi :: a :: nsteps :: dom0 :: rest ->
        (* exec <variant 0..4> <code_lo> <jit_lo> <code_hi> <A> <nsteps> <dom> w <words...> r <reg=val ...>
           memory = the words at A; data/stack/shadow regions empty; halt address = -1 *)
        let variant = (match vs with "0" -> Machine.VBase | "1" -> Machine.VTramp | "2" -> Machine.VRimiSS
                                   | "3" -> Machine.VRimiFull | _ -> Machine.VFixer) in
        let z = z_of_string in
        let rec split_ws_r acc l = (match l with
            | "r" :: tl -> (List.rev acc, tl) | x :: tl -> split_ws_r (x :: acc) tl | [] -> (List.rev acc, [])) in
        let (ws, rs) = (match rest with "w" :: tl -> split_ws_r [] tl | _ -> ([], [])) in
        let m1 = z_of_small (-1) in
        let lay = Machine.make_layout (z clo) (z jlo) (z chi) Z0 Z0 Z0 Z0 Z0 Z0 m1 in
        let four = z_of_small 4 in
        let (mem, _) = List.fold_left (fun (m, ad) w ->
            (Machine.store_bytes m ad (Datatypes.S (Datatypes.S (Datatypes.S (Datatypes.S Datatypes.O)))) (z w),
             BinInt.Z.add ad four)) (Machine.empty_map, z a) ws in
        let s0 = Machine.make_state (z a) Machine.empty_map mem (z dom0) [] in
        let s0 = List.fold_left (fun s rv ->
            (match String.split_on_char '=' rv with
             | [r; v] -> Machine.rset s (z r) (z v) | _ -> s)) s0 rs in
        let rec nat_of_int n = if n <= 0 then Datatypes.O else Datatypes.S (nat_of_int (n - 1)) in
        let (o, cnt) = Machine.run variant lay (nat_of_int (int_of_string nsteps)) s0 in
        let (tag, st) = (match o with
            | Machine.Next s -> ("next", s) | Machine.Halt s -> ("halt", s) | Machine.Trap s -> ("trap", s)
            | Machine.Fault (_, s) -> ("fault", s)) in
        let regs = String.concat " " (List.init 32 (fun i -> string_of_z (Machine.rget st (z_of_small i)))) in
        let rec nat_to_int n = (match n with Datatypes.O -> 0 | Datatypes.S k -> 1 + nat_to_int k) in
        print_string (Printf.sprintf "%s %d %s %s | %s | %s\n" tag (nat_to_int cnt) (string_of_z (Machine.st_pc st))
                        (string_of_z (Machine.st_dom st)) regs
                        (String.concat " " (List.map string_of_z (Machine.st_cfi st))))
      | _ -> print_string "BAD\n")
    done
  with End_of_file -> ()
