(* spec_driver.ml — line protocol around the extracted SPECIFICATION tools.
     dec <ext:0|1|2> <word>          -> printed instr | NONE
     mean <cls> <name> <a1> ...      -> printed intended instr | NONE
     wfargs|inrange <cls> <name> <a1> ... -> 1 | 0                                 *)
open Zio
open Instr_print

let () =
  try
    while true do
      let line = input_line stdin in
      (match split_ws line with
      | [ "dec"; x; w ] ->
        (match Isa.decode (ext_of x) (z_of_string w) with
         | Some i -> print_string (instr_s i ^ "\n")
         | None -> print_string "NONE\n")
      | "mean" :: cls :: name :: args ->
        (match CtorSpec.meaning (clist_of_string cls, clist_of_string name) (List.map z_of_string args) with
         | Some i -> print_string (instr_s i ^ "\n")
         | None -> print_string "NONE\n")
      | "inrange" :: cls :: name :: args ->
        print_string (if CtorSpec.in_range (clist_of_string cls, clist_of_string name) (List.map z_of_string args) then "1\n" else "0\n")
      | "wfargs" :: cls :: name :: args ->
        print_string (if CtorSpec.wf_args (clist_of_string cls, clist_of_string name) (List.map z_of_string args) then "1\n" else "0\n")
      | [ "fields"; w ] ->
        let w = z_of_string w in
        let rd = Isa.f_rd w and f3 = Isa.f_f3 w and rs1 = Isa.f_rs1 w and rs2 = Isa.f_rs2 w and f7 = Isa.f_f7 w in
        print_string (String.concat " " (List.map string_of_z
          [ Isa.f_op w; rd; f3; rs1; rs2; f7; Isa.immf_i rs2 f7; Isa.immf_s rd f7; Isa.immf_b rd f7;
            Isa.immf_u f3 rs1 rs2 f7; Isa.immf_j f3 rs1 rs2 f7 ]) ^ "\n")
      | _ -> print_string "BAD\n")
    done
  with End_of_file -> ()
