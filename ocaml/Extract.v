(* Extract.v — extraction of the executable model to OCaml.
   Directives: ExtrOcamlBasic (bool, option, unit, list, prod, sumbool, sumor;
   inlined fst/snd/andb/orb/negb) and ExtrOcamlString (ascii => char,
   string => char list) only.  Z, positive, N, nat stay the extracted
   inductive types.  Compiled from ocaml/gen (the .ml files land in the cwd). *)
From Coq Require Import ZArith List String.
From Coq Require Extraction ExtrOcamlBasic ExtrOcamlString.
From Gigue Require Import Types Bits Isa Enc GenTables.

Extraction Blacklist String List.

Separate Extraction
  Z.add Z.sub Z.mul Z.div Z.modulo Z.opp Z.eqb Z.ltb Z.leb Z.of_nat Z.to_nat Z.div_eucl Z.abs
  Isa.decode Isa.encode_spec Isa.wf
  Enc.apply_ctor Enc.generate Enc.generate_bytes Enc.to_signed
  GenTables.base_table GenTables.rimi_table GenTables.fixer_table.
