(* ExtractSpec.v — extraction of the SPECIFICATION side (judges and search
   tools).  Imports nothing derived from /repo (no GenTables, no Enc), so it
   still builds when the regenerated tables or the model break.
   Directives: ExtrOcamlBasic and ExtrOcamlString only; Z/positive/N/nat stay
   the extracted inductive types. *)
From Coq Require Import ZArith List String.
From Coq Require Extraction ExtrOcamlBasic ExtrOcamlString.
From Gigue Require Import Isa CtorSpec Machine.

Extraction Blacklist String List.

Separate Extraction
  Z.add Z.sub Z.mul Z.div Z.modulo Z.opp Z.eqb Z.ltb Z.leb Z.of_nat Z.to_nat Z.div_eucl Z.abs
  Isa.f_op Isa.f_rd Isa.f_f3 Isa.f_rs1 Isa.f_rs2 Isa.f_f7 Isa.immf_i Isa.immf_s Isa.immf_b Isa.immf_u Isa.immf_j
  Isa.decode Isa.encode_spec Isa.wf Isa.ext_ok
  Machine.step Machine.run Machine.rget Machine.rset Machine.store_bytes Machine.load_bytes Machine.make_layout Machine.make_state Machine.empty_map Machine.st_pc Machine.st_dom Machine.st_cfi Machine.st_mem Machine.st_regs Machine.variant_ext Machine.lwidth Machine.swidth
  CtorSpec.meaning CtorSpec.wf_args CtorSpec.in_range CtorSpec.ctor_ext.
