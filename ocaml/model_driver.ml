(* model_driver.ml — line protocol around the extracted MODEL of gigue.
     enc <cls> <name> <a1> ...  -> W <word> | NONE                              *)
open Zio

let () =
  try
    while true do
      let line = input_line stdin in
      (match split_ws line with
      | "enc" :: cls :: name :: args ->
        let args = List.map z_of_string args in
        (match Enc.apply_ctor GenTables.base_table GenTables.rimi_table GenTables.fixer_table
                 (clist_of_string cls) (clist_of_string name) args with
         | Some g -> print_string ("W " ^ string_of_z (Enc.generate g) ^ "\n")
         | None -> print_string "NONE\n")
      | _ -> print_string "BAD\n")
    done
  with End_of_file -> ()
