(* model_driver.ml — line protocol around the extracted MODEL of gigue.
     enc <cls> <name> <a1> ...  -> W <word> | NONE
     dis <table> <word>         -> name type 9 fields 5 unsigned imms 5 signed imms | NONE
     pcrel <auipc word> <low word> -> offset
     helper <table> <name>      -> mask match rvo6_2 rvo1_0 bitpat cva6bits                              *)
open Zio

let err_s (e : Builder.err) = match e with
  | Builder.EWrongOffset -> "WrongOffsetException" | EKeyError -> "KeyError"
  | EWrongAddress -> "WrongAddressException" | ECallNumber -> "CallNumberException"
  | ERecursive -> "RecursiveCallException" | EMutual -> "MutualCallException"
  | EScript w -> "Script:" ^ string_of_clist w | EZeroDivision -> "ZeroDivisionError"
  | EIndexError -> "IndexError" | EAlignment -> "InstructionAlignmentNotDefined"
  | EEmptyPopulation -> "IndexError" | EValueError -> "ValueError"

let exn_s (e : LogParse.exn) = match e with
  | LogParse.XMissingAddress -> "MissingAddressException" | XMissingCycle -> "MissingCycleException"
  | XEnvironment -> "OSError" | XValueError -> "ValueError" | XKeyError -> "KeyError"
  | XUnboundLocal -> "UnboundLocalError"

let unhex (h : string) : char list =
  List.init (String.length h / 2) (fun i -> Char.chr (int_of_string ("0x" ^ String.sub h (2 * i) 2)))

let file_of kind hex = match kind with
  | "A" -> LogParse.FAbsent | "N" -> LogParse.FNotText | _ -> LogParse.FText (unhex (if hex = "-" then "" else hex))

let rec nat_of_int n = if n <= 0 then Datatypes.O else Datatypes.S (nat_of_int (n - 1))

let pos_of_z z = match z with BinNums.Zpos p -> p | _ -> failwith "mantissa"

(* floats: z | nz | inf | ninf | nan | s,m,e *)
let fl_of (s : string) : SpecFloat.spec_float = match s with
  | "z" -> SpecFloat.S754_zero false | "nz" -> SpecFloat.S754_zero true
  | "inf" -> SpecFloat.S754_infinity false | "ninf" -> SpecFloat.S754_infinity true
  | "nan" -> SpecFloat.S754_nan
  | _ -> (match String.split_on_char ',' s with
      | [sg; m; e] -> SpecFloat.S754_finite (sg = "1", pos_of_z (z_of_string m), z_of_string e)
      | _ -> failwith "float")

let fl_s (x : SpecFloat.spec_float) : string = match x with
  | SpecFloat.S754_zero false -> "z" | S754_zero true -> "nz"
  | S754_infinity false -> "inf" | S754_infinity true -> "ninf" | S754_nan -> "nan"
  | S754_finite (sg, m, e) -> Printf.sprintf "%s,%s,%s" (if sg then "1" else "0") (string_of_z (BinNums.Zpos m)) (string_of_z e)

let rec nat_to_int n = (match n with Datatypes.O -> 0 | Datatypes.S k -> 1 + nat_to_int k)
let hex32 w = Printf.sprintf "%02x%02x%02x%02x" (w land 255) ((w lsr 8) land 255) ((w lsr 16) land 255) ((w lsr 24) land 255)
let nonempty s = if s = "" then "-" else s

let weights_of (s : string) : Generator.weights =
  if s = "-" then Generator.WNone
  else if String.length s > 2 && String.sub s 0 2 = "I:" then
    Generator.WInts (List.map z_of_string (String.split_on_char ',' (String.sub s 2 (String.length s - 2))))
  else Generator.WFloats (List.map fl_of (String.split_on_char ';' (String.sub s 2 (String.length s - 2))))

(* script lines as produced by tools/genslice.py (floats already as triples) *)
let draw_of (line : string) : Generator.draw =
  match split_ws line with
  | [ "CH"; n; i ] -> Generator.DChoice (z_of_string n, z_of_string i)
  | "CS" :: n :: k :: w :: idx -> Generator.DChoices (z_of_string n, z_of_string k, weights_of w, List.map z_of_string idx)
  | [ "RI"; a; b; v ] -> Generator.DRandint (z_of_string a, z_of_string b, z_of_string v)
  | "SA" :: a :: b :: c :: k :: vals ->
    Generator.DSample (z_of_string a, z_of_string b, z_of_string c, z_of_string k, List.map z_of_string vals)
  | "SH" :: n :: perm -> Generator.DShuffle (z_of_string n, List.map z_of_string perm)
  | [ "GA"; m; s; x ] -> Generator.DGauss (fl_of m, fl_of s, fl_of x)
  | [ "RA"; u ] -> Generator.DRandom (fl_of u)
  | [ "RB"; n; hex ] -> Generator.DBytes (z_of_string n, List.map (fun c -> z_of_small (Char.code c)) (unhex hex))
  | _ -> Generator.DChoice (z_of_small (-1), z_of_small (-1))      (* unknown event: always a mismatch *)

let table_of t = match t with
  | "base" -> GenTables.base_table
  | "rimi" -> Types.dict_union GenTables.rimi_table GenTables.base_table
  | "fixer" -> Types.dict_union GenTables.fixer_table GenTables.base_table
  | "rimi_only" -> GenTables.rimi_table
  | "fixer_only" -> GenTables.fixer_table
  | _ -> failwith "table"

let () =
  try
    while true do
      let line = input_line stdin in
      (match split_ws line with
      | "enc" :: cls :: name :: args ->
        let args = List.map z_of_string args in
        (match Enc.apply_ctor GenTables.base_table GenTables.rimi_table GenTables.fixer_table
                 (clist_of_string cls) (clist_of_string name) args with
         | Some g -> print_string ("W " ^ string_of_z (Enc.generate g) ^ "\n")
         | None -> print_string "NONE\n")
      | [ "dis"; t; w ] ->
        let w = z_of_string w in
        (match Disasm.get_instruction_info (table_of t) w with
         | None -> print_string "NONE\n"
         | Some e ->
           let f = [ Disasm.extract_opcode; Disasm.extract_funct3; Disasm.extract_xd; Disasm.extract_xs1;
                     Disasm.extract_xs2; Disasm.extract_rd; Disasm.extract_rs1; Disasm.extract_rs2;
                     Disasm.extract_funct7 ] in
           let im = [ Disasm.extract_imm_b; Disasm.extract_imm_i; Disasm.extract_imm_j;
                      Disasm.extract_imm_s; Disasm.extract_imm_u ] in
           let s1 = String.concat " " (List.map (fun g -> string_of_z (g w)) f) in
           let s2 = String.concat " " (List.map (fun g -> string_of_z (g w false)) im) in
           let s3 = String.concat " " (List.map (fun g -> string_of_z (g w true)) im) in
           print_string (Printf.sprintf "%s %s %s %s %s\n" (string_of_clist e.Types.ii_name)
                           (string_of_clist e.Types.ii_type) s1 s2 s3))
      | [ "pcrel"; a; b ] ->
        print_string (string_of_z (Disasm.extract_pc_relative_offset (z_of_string a) (z_of_string b)) ^ "\n")
      | [ "helper"; t; name ] ->
        (match Types.lookup_info (table_of t) (clist_of_string name) with
         | None -> print_string "NONE\n"
         | Some e ->
           let (m, v) = Disasm.gnu_mask_match e in
           let bp = (match Disasm.rocket_bitpat e with
               | None -> "INDEXERROR"
               | Some l -> String.concat "" (List.map (fun b -> match b with
                   | Disasm.P0 -> "0" | Disasm.P1 -> "1" | Disasm.PQ -> "?") l)) in
           let cv = String.concat "" (List.map (fun b -> if b then "1" else "0") (Disasm.cva6_bits e)) in
           print_string (Printf.sprintf "%s %s %s %s %s %s\n" (string_of_z m) (string_of_z v)
                           (string_of_z (Disasm.rvo_6_2 e)) (string_of_z (Disasm.rvo_1_0 e)) bp cv))
      | "stub" :: kind :: args ->
        let a = Array.of_list (List.map z_of_string args) in
        let tf z = (int_of_z z) <> 0 in
        let r = (match kind with
          | "method" -> Builder.build_method_base_call a.(0)
          | "pic" -> Builder.build_pic_base_call a.(0) a.(1) a.(2)
          | "imeth" -> Builder.build_interpreter_trampoline_method_call (tf a.(0)) a.(1) a.(2)
          | "ipic" -> Builder.build_interpreter_trampoline_pic_call (tf a.(0)) a.(1) a.(2) a.(3) a.(4)
          | "switch" -> Builder.build_switch_case a.(0) a.(1) a.(2) a.(3)
          | "regsave" -> Builder.build_pc_relative_reg_save a.(0) a.(1)
          | "fmeth" -> Builder.fixer_method_base_call a.(0)
          | "fpic" -> Builder.fixer_pic_base_call a.(0) a.(1) a.(2)
          | _ -> failwith "stub kind") in
        (match r with
         | Builder.OK l -> print_string ("OK " ^ String.concat " " (List.map (fun g -> string_of_z (Enc.generate g)) l) ^ "\n")
         | Builder.Err e -> print_string ("ERR " ^ err_s e ^ "\n"))
      | [ "dump"; kind; hex ] ->
        (match LogParse.parse_dump (file_of kind hex) with
         | LogParse.Ret d -> print_string (Printf.sprintf "RET %s %s %s %s %s\n"
             (string_of_z d.LogParse.dd_ok) (string_of_z d.LogParse.dd_start) (string_of_z d.LogParse.dd_end)
             (string_of_z d.LogParse.dd_ret) (string_of_z d.LogParse.dd_bin_size))
         | LogParse.Raise e -> print_string ("RAISE " ^ exn_s e ^ "\n"))
      | [ "log"; core; tbl; sa; ra; kind; hex ] ->
        let f = file_of kind hex in
        let ex = (if core = "rocket" then LogParse.rocket_extract (z_of_string sa) (z_of_string ra) f
                  else LogParse.cva6_extract (z_of_string sa) (z_of_string ra) f) in
        let t = (match tbl with
            | "base" -> GenTables.t_runner_table_base | "tramp" -> GenTables.t_runner_table_tramp
            | "rimiss" -> GenTables.t_runner_table_rimiss | "rimifull" -> GenTables.t_runner_table_rimifull
            | _ -> GenTables.t_runner_table_fixer) in
        let t = List.map (fun ((k, ty), cl) -> (k, (ty, cl))) t in
        let hs h = String.concat "," (List.map (fun (k, v) -> string_of_clist k ^ "=" ^ string_of_z v) h) in
        (match LogParse.parse_core_log ex t GenTables.t_type_keys GenTables.t_class_keys with
         | LogParse.Ret e -> print_string (Printf.sprintf "RET %s %s %s %s %s %s %s %s %s\n"
             (string_of_z e.LogParse.e_emulation_ok) (string_of_z e.LogParse.e_seed)
             (string_of_z e.LogParse.e_start_cycle) (string_of_z e.LogParse.e_end_cycle)
             (string_of_z e.LogParse.e_nb_cycles) (string_of_z e.LogParse.e_tracing_ok)
             (string_of_z e.LogParse.e_instrs_nb) (hs e.LogParse.e_instrs_type) (hs e.LogParse.e_instrs_class))
         | LogParse.Raise e -> print_string ("RAISE " ^ exn_s e ^ "\n"))
      | "tn" :: lo :: hi :: draws ->
        (match Samplers.trunc_norm (fl_of lo) (fl_of hi) (List.map fl_of draws) with
         | Some (x, rest) -> print_string (Printf.sprintf "%s %d\n" (fl_s x) (List.length draws - List.length rest))
         | None -> print_string "NONE\n")
      | [ "poisson"; fuel; lam; e; u ] ->
        (match Samplers.generate_poisson (nat_of_int (int_of_string fuel)) (z_of_string lam) (fl_of e) (fl_of u) with
         | Some k -> print_string (string_of_z k ^ "\n") | None -> print_string "NONE\n")
      | [ "ztp"; fuel; lam; e; u ] ->
        (match Samplers.generate_ztp (nat_of_int (int_of_string fuel)) (z_of_string lam) (fl_of e) (fl_of u) with
         | Some k -> print_string (string_of_z k ^ "\n") | None -> print_string "NONE\n")
      | [ "body"; ms; u; v ] ->
        (match Samplers.body_size_of (z_of_string ms) (fl_of u) (fl_of v) with
         | Some k -> print_string (string_of_z k ^ "\n") | None -> print_string "NONE\n")
      | [ "calls"; b; cs; o ] ->
        (match Samplers.call_nb_of (z_of_string b) (z_of_string cs) (fl_of o) with
         | Some k -> print_string (string_of_z k ^ "\n") | None -> print_string "NONE\n")
      | [ "kind"; r; u ] ->
        print_string (if Samplers.kind_is_pic (fl_of r) (fl_of u) then "pic\n" else "method\n")
      | "gen" :: rest ->
        (* gen <variant> <int_start> <jit_start> <jit_size> <nb> <var_mean> <var_std> <depth_mean> <exp_depth>
               <occ_mean> <occ_std> <ratio> <mean_case> <exp_case> <data_size> <strategy> <cmp> <hit>
               <regs,> <data_reg> <weights,> <special_reg> <ss_size> <fuel> <nlines>   then nlines script lines *)
        let a = Array.of_list rest in
        let z i = z_of_string a.(i) in
        let zl s = if s = "-" then [] else List.map z_of_string (String.split_on_char ',' s) in
        let variant = (match a.(0) with "0" -> Generator.GBase | "1" -> Generator.GTramp | "2" -> Generator.GRimiSS
                                      | "3" -> Generator.GRimiFull | _ -> Generator.GFixer) in
        let cfg = Generator.make_config variant (z 1) (z 2) (z 3) (z 4) (fl_of a.(5)) (fl_of a.(6)) (z 7) (fl_of a.(8))
            (fl_of a.(9)) (fl_of a.(10)) (fl_of a.(11)) (z 12) (fl_of a.(13)) (z 14) (clist_of_string a.(15))
            (z 16) (z 17) (zl a.(18)) (z 19) (zl a.(20)) (z 21) (z 22) (nat_of_int (int_of_string a.(23))) in
        let n = int_of_string a.(24) in
        let script = List.init n (fun _ -> draw_of (input_line stdin)) in
        (match Generator.run_gen cfg script with
         | Builder.Err e -> print_string ("ERR " ^ err_s e ^ "\n")
         | Builder.OK (im, left) ->
           let words ws = String.concat "" (List.map (fun w -> hex32 (int_of_z w)) ws) in
           let bytes bs = String.concat "" (List.map (fun b -> Printf.sprintf "%02x" (int_of_z b)) bs) in
           let ms = im.Generator.im_methods in
           let mrec (m : Generator.coq_method) =
             Printf.sprintf "%s:%s:%s:%s:%s:%s:%s" (string_of_z m.Generator.m_addr) (string_of_z m.Generator.m_body)
               (string_of_z m.Generator.m_calls) (string_of_z m.Generator.m_depth)
               (string_of_z m.Generator.m_pro) (string_of_z m.Generator.m_epi)
               (String.concat "," (List.map (fun i -> string_of_int (nat_to_int i)) m.Generator.m_callees)) in
           let erec (e : Generator.elt) = (match e with
               | Generator.EMethod id -> "M" ^ string_of_int (nat_to_int id)
               | Generator.EPic p -> Printf.sprintf "P%s:%s:%s" (string_of_z p.Generator.p_addr)
                                       (string_of_z p.Generator.p_cases)
                                       (String.concat "," (List.map (fun i -> string_of_int (nat_to_int i)) p.Generator.p_methods))) in
           let gd = Records.generation_data im in
           let mr (r : Records.method_rec) = Printf.sprintf "%s:%s:%s:%s" (string_of_z r.Records.r_addr)
               (string_of_z r.Records.r_full_size) (string_of_z r.Records.r_calls) (string_of_z r.Records.r_depth) in
           let recs = Printf.sprintf "%s %s %s %s %s ; %s ; %s"
               (string_of_z gd.Records.gd_nb_methods) (string_of_z gd.Records.gd_nb_pics)
               (fl_s gd.Records.gd_mean_method_size) (fl_s gd.Records.gd_pics_mean_case_nb)
               (string_of_z (Records.id_draws im))
               (String.concat " " (List.map mr (Records.methods_info im)))
               (String.concat " " (List.map (fun (p : Records.pic_rec) ->
                    Printf.sprintf "%s:%s:%s[%s]" (string_of_z p.Records.pr_addr) (string_of_z p.Records.pr_full_size)
                      (string_of_z p.Records.pr_cases) (String.concat "," (List.map mr p.Records.pr_methods)))
                    (Records.pics_info im))) in
           let fuel = ImageSem.max_depth ms in
           (* ImageSem.count_method / need_method recurse over the call TREE: their cost is the number of call
              paths, which explodes for deep, call-dense images.  The number of paths is computed first (memoised,
              cheap); above a budget the counts are not printed for this job (the judge then has nothing to
              compare for it - recorded in the evidence as fewer model_static_counts_compared). *)
           let marr = Array.of_list ms in
           let nm = Array.length marr in
           let memo = Array.make nm (-1.0) in
           let rec paths depth i =
             if i < 0 || i >= nm || depth > 64 then 1.0 else
             if memo.(i) >= 0.0 then memo.(i) else begin
               let r = List.fold_left (fun a cal -> a +. paths (depth + 1) (nat_to_int cal)) 1.0 marr.(i).Generator.m_callees in
               memo.(i) <- r; r end in
           let total = ref 0.0 in
           for i = 0 to nm - 1 do total := !total +. paths 0 i done;
           let counts = if !total > 3.0e6 then "" else String.concat " " (List.mapi (fun i (m : Generator.coq_method) ->
               Printf.sprintf "%s:%s:%s" (string_of_z m.Generator.m_addr)
                 (string_of_z (ImageSem.count_method cfg ms fuel (nat_of_int i)))
                 (string_of_z (ImageSem.need_method cfg ms fuel (nat_of_int i)))) ms) in
           print_string (Printf.sprintf "OK %s %s %s %s %d %s | %s | %s | %s | %s\n"
                           (nonempty (words im.Generator.im_int)) (nonempty (words im.Generator.im_jit))
                           (nonempty (bytes im.Generator.im_data)) (nonempty (bytes im.Generator.im_ss))
                           (List.length left) (if ImageSem.cfg_ok cfg then "1" else "0")
                           (String.concat " " (List.map mrec ms))
                           (String.concat " " (List.map erec im.Generator.im_elements))
                           recs counts))
      | _ -> print_string "BAD\n")
    done
  with End_of_file -> ()
