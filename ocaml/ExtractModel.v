(* ExtractModel.v — extraction of the MODEL of gigue (with the regenerated
   tables).  Directives: ExtrOcamlBasic and ExtrOcamlString only. *)
From Coq Require Import ZArith List String.
From Coq Require Extraction ExtrOcamlBasic ExtrOcamlString.
From Gigue Require Import Types Bits Enc GenTables.

Extraction Blacklist String List.

Separate Extraction
  Z.add Z.sub Z.mul Z.div Z.modulo Z.opp Z.eqb Z.ltb Z.leb Z.of_nat Z.to_nat Z.div_eucl Z.abs
  Enc.apply_ctor Enc.generate Enc.generate_bytes Enc.to_signed
  GenTables.base_table GenTables.rimi_table GenTables.fixer_table.
