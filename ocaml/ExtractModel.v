(* ExtractModel.v — extraction of the MODEL of gigue (with the regenerated
   tables).  Directives: ExtrOcamlBasic and ExtrOcamlString only. *)
From Coq Require Import ZArith List String.
From Coq Require Extraction ExtrOcamlBasic ExtrOcamlString.
From Gigue Require Import Types Bits Enc Disasm GenTables Builder LogParse Samplers Generator Records Machine ImageSem.

Extraction Blacklist String List.

Separate Extraction
  Z.add Z.sub Z.mul Z.div Z.modulo Z.opp Z.eqb Z.ltb Z.leb Z.of_nat Z.to_nat Z.div_eucl Z.abs
  Enc.apply_ctor Enc.generate Enc.generate_bytes Enc.to_signed
  Types.dict_union Types.lookup_info
  Disasm.get_instruction_info Disasm.extract_opcode Disasm.extract_funct3 Disasm.extract_xd
  Disasm.extract_xs1 Disasm.extract_xs2 Disasm.extract_rd Disasm.extract_rs1 Disasm.extract_rs2
  Disasm.extract_funct7 Disasm.extract_imm_b Disasm.extract_imm_i Disasm.extract_imm_j
  Disasm.extract_imm_s Disasm.extract_imm_u Disasm.extract_pc_relative_offset
  Disasm.gnu_mask_match Disasm.rvo_6_2 Disasm.rvo_1_0 Disasm.rocket_bitpat Disasm.cva6_bits
  Builder.build_method_base_call Builder.build_pic_base_call Builder.build_interpreter_trampoline_method_call
  Builder.build_interpreter_trampoline_pic_call Builder.build_switch_case Builder.build_pc_relative_reg_save
  Builder.fixer_method_base_call Builder.fixer_pic_base_call Builder.build_prologue Builder.build_epilogue
  Builder.build_call_jit_elt_trampoline Builder.build_ret_from_jit_elt_trampoline
  LogParse.parse_dump LogParse.parse_core_log LogParse.rocket_extract LogParse.cva6_extract
  LogParse.rocket_match LogParse.cva6_match LogParse.py_int
  Records.generation_data Records.methods_info Records.pics_info Records.id_draws
  Generator.run_gen Generator.make_config Generator.m_total ImageSem.cfg_ok
  ImageSem.count_method ImageSem.need_method ImageSem.max_depth
  Samplers.trunc_norm Samplers.generate_poisson Samplers.generate_ztp Samplers.body_size_of Samplers.call_nb_of
  Samplers.kind_is_pic Samplers.sign_of
  GenTables.t_runner_table_base GenTables.t_runner_table_tramp GenTables.t_runner_table_rimiss
  GenTables.t_runner_table_rimifull GenTables.t_runner_table_fixer GenTables.t_type_keys GenTables.t_class_keys
  GenTables.base_table GenTables.rimi_table GenTables.fixer_table.
