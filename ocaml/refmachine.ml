(* refmachine.ml — runs an emitted image on the extracted reference machine
   (Machine.step) with monitors.  All semantics comes from the extracted Coq
   code; this file only loads memory, iterates step, and observes.

   usage: refmachine <variant 0..4> <int.bin> <jit.bin> <data.bin> <ss.bin>
            <code_base> <data_base> <stack_top> <stack_size> <ss_base> <data_reg> <halt_addr> <max_steps>
            [regs <seed>] [trace <file>] [corrupt <below_addr> <period> <seed>]
            [tamper <step> <addr> <value>]
   prints one line:
     <outcome> <fault> steps=<n> pc=<pc> minsp=<min sp seen> dom=<d> cfi=<len> regs=<x0..x31 final> init=<x0..x31 initial>
   trace file (one line per step):  <pc - code_base> [<L|S|L1|S1|LS|SS> <addr> <width> <base reg>]            *)
open Zio

let rec nat_to_int_ n = (match n with Datatypes.O -> 0 | Datatypes.S k -> 1 + nat_to_int_ k)
let z = z_of_string
let zi = z_of_small
let ( +! ) = BinInt.Z.add
let ( -! ) = BinInt.Z.sub
let zlt a b = BinInt.Z.ltb a b
let rec nat_of_int n = if n <= 0 then Datatypes.O else Datatypes.S (nat_of_int (n - 1))
let one_nat = Datatypes.S Datatypes.O
let eight_nat = nat_of_int 8

let read_file path =
  let ic = open_in_bin path in
  let n = in_channel_length ic in
  let s = really_input_string ic n in
  close_in ic; s

let load_bytes mem base (s : string) =
  let m = ref mem in
  let a = ref base in
  let onez = zi 1 in
  String.iter (fun c -> m := Machine.store_bytes !m !a one_nat (zi (Char.code c)); a := !a +! onez) s;
  !m

(* small deterministic PRNG (xorshift) for initial register / stack contents *)
let rng_state = ref 88172645463325252
let rnd () =
  let x = !rng_state in
  let x = x lxor (x lsl 13) in let x = x lxor (x lsr 7) in let x = x lxor (x lsl 17) in
  rng_state := x land max_int; !rng_state
let rnd64 () =
  BinInt.Z.add (BinInt.Z.mul (zi (rnd () land 0x3FFFFFFF)) (z "17179869184")) (zi (rnd () land 0x3FFFFFFF))

let () =
  let a = Sys.argv in
  let variant = (match a.(1) with "0" -> Machine.VBase | "1" -> Machine.VTramp | "2" -> Machine.VRimiSS
                                | "3" -> Machine.VRimiFull | _ -> Machine.VFixer) in
  let ints = read_file a.(2) and jits = read_file a.(3) and datas = read_file a.(4) and sss = read_file a.(5) in
  let code_base = z a.(6) and data_base = z a.(7) and stack_top = z a.(8) and stack_size = z a.(9)
  and ss_base = z a.(10) and data_reg = z a.(11) and halt = z a.(12) in
  let max_steps = int_of_string a.(13) in
  let opts = Array.to_list (Array.sub a 14 (Array.length a - 14)) in
  let jit_base = code_base +! zi (String.length ints) in
  let code_hi = jit_base +! zi (String.length jits) in
  let data_hi = data_base +! zi (String.length datas) in
  let ss_hi = ss_base +! zi (String.length sss) in
  let is_rimi = (match variant with Machine.VRimiSS | Machine.VRimiFull -> true | _ -> false) in
  let lay = Machine.make_layout code_base jit_base code_hi data_base data_hi (stack_top -! stack_size) stack_top
      ss_base (if is_rimi then ss_hi else ss_base) halt in
  let mem = load_bytes Machine.empty_map code_base ints in
  let mem = load_bytes mem jit_base jits in
  let mem = load_bytes mem data_base datas in
  let mem = if is_rimi then load_bytes mem ss_base sss else mem in
  let rec find_opt key l = (match l with k :: rest when k = key -> Some rest | _ :: rest -> find_opt key rest | [] -> None) in
  let s0 = Machine.make_state code_base Machine.empty_map mem (zi 0) [] in
  (* initial registers: arbitrary, except sp, ra, the data register and (RIMI) the shadow-stack pointer *)
  let s0 = (match find_opt "regs" opts with
      | Some (seed :: _) ->
        rng_state := (int_of_string seed) * 2654435761 + 12345;
        let s = ref s0 in
        for r = 1 to 31 do s := Machine.rset !s (zi r) (rnd64 ()) done;
        (* arbitrary stack contents below sp *)
        let m = ref (Machine.st_mem !s) in
        let ad = ref (stack_top -! zi 4096) in
        for _ = 1 to 512 do m := Machine.store_bytes !m !ad eight_nat (rnd64 ()); ad := !ad +! zi 8 done;
        Machine.make_state code_base (Machine.st_regs !s) !m (zi 0) []
      | _ -> s0) in
  let s0 = Machine.rset s0 (zi 2) stack_top in
  let s0 = Machine.rset s0 (zi 1) halt in
  let s0 = Machine.rset s0 data_reg data_base in
  let s0 = if is_rimi then Machine.rset s0 (zi 28) ss_hi else s0 in
  let init_regs = List.init 32 (fun i -> Machine.rget s0 (zi i)) in
  let trace = (match find_opt "trace" opts with Some (f :: _) -> Some (open_out f) | _ -> None) in
  let corrupt = (match find_opt "corrupt" opts with
      | Some (below :: period :: seed :: _) -> Some (z below, int_of_string period, int_of_string seed) | _ -> None) in
  let tamper = (match find_opt "tamper" opts with
      | Some (st :: ad :: v :: _) -> Some (int_of_string st, z ad, z v) | _ -> None) in
  let ext = Machine.variant_ext variant in
  let minsp = ref stack_top in
  let steps = ref 0 in
  let s = ref s0 in
  let outcome = ref "timeout" and fault = ref "-" in
  let w64 = z "18446744073709551616" in
  (try
     while !steps < max_steps do
       let st = !s in
       (* adversary / tamper hooks act between steps *)
       (match tamper with
        | Some (t, ad, v) when t = !steps ->
          s := Machine.make_state (Machine.st_pc st) (Machine.st_regs st)
              (Machine.store_bytes (Machine.st_mem st) ad eight_nat v) (Machine.st_dom st) (Machine.st_cfi st)
        | _ -> ());
       (match corrupt with
        | Some (below, period, seed) when !steps mod period = 0 && !steps > 0 ->
          let st = !s in
          let sp = Machine.rget st (zi 2) in
          rng_state := seed + !steps;
          let m = ref (Machine.st_mem st) in
          let ad = ref sp in
          while zlt !ad below do m := Machine.store_bytes !m !ad eight_nat (rnd64 ()); ad := !ad +! zi 8 done;
          s := Machine.make_state (Machine.st_pc st) (Machine.st_regs st) !m
              (Machine.st_dom st) (Machine.st_cfi st)
        | _ -> ());
       let st = !s in
       (match trace with
        | Some oc ->
          let pcv = Machine.st_pc st in
          let word = Machine.load_bytes (Machine.st_mem st) pcv (nat_of_int 4) in
          let acc = (match Isa.decode ext word with
              | Some (Isa.Load (o, _, rs1, imm)) -> Printf.sprintf " L %s %d %s" (string_of_z (BinInt.Z.modulo (Machine.rget st rs1 +! imm) w64)) (nat_to_int_ (Machine.lwidth o)) (string_of_z rs1)
              | Some (Isa.Store (o, rs1, rs2, imm)) -> Printf.sprintf " S %s %d %s %s" (string_of_z (BinInt.Z.modulo (Machine.rget st rs1 +! imm) w64)) (nat_to_int_ (Machine.swidth o)) (string_of_z rs1) (string_of_z rs2)
              | Some (Isa.Load1 (o, _, rs1, imm)) -> Printf.sprintf " L1 %s %d %s" (string_of_z (BinInt.Z.modulo (Machine.rget st rs1 +! imm) w64)) (nat_to_int_ (Machine.lwidth o)) (string_of_z rs1)
              | Some (Isa.Store1 (o, rs1, rs2, imm)) -> Printf.sprintf " S1 %s %d %s %s" (string_of_z (BinInt.Z.modulo (Machine.rget st rs1 +! imm) w64)) (nat_to_int_ (Machine.swidth o)) (string_of_z rs1) (string_of_z rs2)
              | Some (Isa.Lst (rd, rs1, imm)) -> Printf.sprintf " LS %s 8 %s %s" (string_of_z (BinInt.Z.modulo (Machine.rget st rs1 +! imm) w64)) (string_of_z rs1) (string_of_z rd)
              | Some (Isa.Sst (rs1, rs2, imm)) -> Printf.sprintf " SS %s 8 %s %s" (string_of_z (BinInt.Z.modulo (Machine.rget st rs1 +! imm) w64)) (string_of_z rs1) (string_of_z rs2)
              | Some (Isa.Cficall (_, rs1, _)) -> Printf.sprintf " CC %s" (string_of_z (Machine.rget st rs1))
              | Some (Isa.Cfiret (_, _, _)) -> " CR"
              | Some Isa.Ecall -> " EC"
              | _ -> "") in
          output_string oc (string_of_z (pcv -! code_base) ^ " " ^ string_of_z (Machine.rget st (zi 2)) ^ acc ^ "\n")
        | None -> ());
       (match Machine.step variant lay st with
        | Machine.Next s' ->
          s := s'; incr steps;
          let sp = Machine.rget s' (zi 2) in
          if zlt sp !minsp then minsp := sp
        | Machine.Halt s' -> s := s'; outcome := "halt"; raise Exit
        | Machine.Trap s' -> s := s'; outcome := "trap"; raise Exit
        | Machine.Fault (f, s') ->
          s := s'; outcome := "fault";
          fault := (match f with
              | Machine.FFetchOutside -> "fetch-outside" | FFetchMisaligned -> "fetch-misaligned"
              | FIllegal -> "illegal-instruction" | FMisaligned -> "misaligned-access" | FUnmapped -> "unmapped-access"
              | FStoreCode -> "store-to-code" | FDomainFetch -> "domain-fetch" | FDomainAccess -> "domain-access"
              | FDomainSwitch -> "domain-switch" | FShadowAccess -> "shadow-access" | FCfiEmpty -> "cfi-empty"
              | FUnsupported -> "unsupported");
          raise Exit)
     done
   with Exit -> ());
  (match trace with Some oc -> close_out oc | None -> ());
  let st = !s in
  let regs = String.concat "," (List.init 32 (fun i -> string_of_z (Machine.rget st (zi i)))) in
  let init = String.concat "," (List.map string_of_z init_regs) in
  Printf.printf "%s %s steps=%d pc=%s minsp=%s dom=%s cfi=%d regs=%s init=%s\n" !outcome !fault !steps
    (string_of_z (Machine.st_pc st)) (string_of_z !minsp) (string_of_z (Machine.st_dom st))
    (List.length (Machine.st_cfi st)) regs init
