(* zio.ml — decimal I/O for the extracted inductive Z (no OCaml ints involved
   beyond single digits), char-list strings. *)
open BinNums

let rec pos_of_int (n : int) : positive =
  if n = 1 then Coq_xH
  else if n land 1 = 0 then Coq_xO (pos_of_int (n lsr 1))
  else Coq_xI (pos_of_int (n lsr 1))

let z_of_small (n : int) : coq_Z =
  if n = 0 then Z0 else if n > 0 then Zpos (pos_of_int n) else Zneg (pos_of_int (-n))

let z10 = z_of_small 10

let z_of_string (s : string) : coq_Z =
  let neg = String.length s > 0 && s.[0] = '-' in
  let start = if neg then 1 else 0 in
  let acc = ref Z0 in
  for i = start to String.length s - 1 do
    let d = Char.code s.[i] - 48 in
    if d < 0 || d > 9 then failwith ("bad integer: " ^ s);
    acc := BinInt.Z.add (BinInt.Z.mul !acc z10) (z_of_small d)
  done;
  if neg then BinInt.Z.opp !acc else !acc

let rec int_of_pos (p : positive) : int =
  match p with
  | Coq_xH -> 1
  | Coq_xO q -> 2 * int_of_pos q
  | Coq_xI q -> 2 * int_of_pos q + 1

let int_of_z (z : coq_Z) : int =
  match z with Z0 -> 0 | Zpos p -> int_of_pos p | Zneg p -> - (int_of_pos p)

let string_of_z (z : coq_Z) : string =
  match z with
  | Z0 -> "0"
  | _ ->
    let neg = (match z with Zneg _ -> true | _ -> false) in
    let a = ref (BinInt.Z.abs z) in
    let buf = Buffer.create 24 in
    let digits = ref [] in
    while !a <> Z0 do
      let (q, r) = BinInt.Z.div_eucl !a z10 in
      digits := (int_of_z r) :: !digits;
      a := q
    done;
    if neg then Buffer.add_char buf '-';
    List.iter (fun d -> Buffer.add_char buf (Char.chr (48 + d))) !digits;
    Buffer.contents buf

let clist_of_string (s : string) : char list =
  List.init (String.length s) (String.get s)

let string_of_clist (l : char list) : string =
  String.init (List.length l) (List.nth l)

let split_ws (s : string) : string list =
  List.filter (fun x -> x <> "") (String.split_on_char ' ' s)
