open BinNums
open Types

val base_table : iinfo list

val rimi_table : iinfo list

val fixer_table : iinfo list
