open BinInt
open BinNums

(** val le_bytes32 : coq_Z -> coq_Z list **)

let le_bytes32 w =
  (Z.modulo w (Zpos (Coq_xO (Coq_xO (Coq_xO (Coq_xO (Coq_xO (Coq_xO (Coq_xO
    (Coq_xO Coq_xH)))))))))) :: ((Z.modulo
                                   (Z.div w (Zpos (Coq_xO (Coq_xO (Coq_xO
                                     (Coq_xO (Coq_xO (Coq_xO (Coq_xO (Coq_xO
                                     Coq_xH)))))))))) (Zpos (Coq_xO (Coq_xO
                                   (Coq_xO (Coq_xO (Coq_xO (Coq_xO (Coq_xO
                                   (Coq_xO Coq_xH)))))))))) :: ((Z.modulo
                                                                  (Z.div w
                                                                    (Zpos
                                                                    (Coq_xO
                                                                    (Coq_xO
                                                                    (Coq_xO
                                                                    (Coq_xO
                                                                    (Coq_xO
                                                                    (Coq_xO
                                                                    (Coq_xO
                                                                    (Coq_xO
                                                                    (Coq_xO
                                                                    (Coq_xO
                                                                    (Coq_xO
                                                                    (Coq_xO
                                                                    (Coq_xO
                                                                    (Coq_xO
                                                                    (Coq_xO
                                                                    (Coq_xO
                                                                    Coq_xH))))))))))))))))))
                                                                  (Zpos
                                                                  (Coq_xO
                                                                  (Coq_xO
                                                                  (Coq_xO
                                                                  (Coq_xO
                                                                  (Coq_xO
                                                                  (Coq_xO
                                                                  (Coq_xO
                                                                  (Coq_xO
                                                                  Coq_xH)))))))))) :: (
    (Z.modulo
      (Z.div w (Zpos (Coq_xO (Coq_xO (Coq_xO (Coq_xO (Coq_xO (Coq_xO (Coq_xO
        (Coq_xO (Coq_xO (Coq_xO (Coq_xO (Coq_xO (Coq_xO (Coq_xO (Coq_xO
        (Coq_xO (Coq_xO (Coq_xO (Coq_xO (Coq_xO (Coq_xO (Coq_xO (Coq_xO
        (Coq_xO Coq_xH)))))))))))))))))))))))))) (Zpos (Coq_xO (Coq_xO
      (Coq_xO (Coq_xO (Coq_xO (Coq_xO (Coq_xO (Coq_xO Coq_xH)))))))))) :: [])))
