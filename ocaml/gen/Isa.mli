open BinInt
open BinNums

type rop =
| ADD
| SUB
| SLL
| SLT
| SLTU
| XOR
| SRL
| SRA
| OR
| AND
| MUL
| MULH
| MULHSU
| MULHU
| DIV
| DIVU
| REM
| REMU
| ADDW
| SUBW
| SLLW
| SRLW
| SRAW
| MULW
| DIVW
| DIVUW
| REMW
| REMUW

type iop =
| ADDI
| SLTI
| SLTIU
| XORI
| ORI
| ANDI
| ADDIW

type shop =
| SLLI
| SRLI
| SRAI
| SLLIW
| SRLIW
| SRAIW

type lop =
| LB
| LH
| LW
| LD
| LBU
| LHU
| LWU

type sop =
| SB
| SH
| SW
| SD

type bop =
| BEQ
| BNE
| BLT
| BGE
| BLTU
| BGEU

type csrop =
| CSRRW
| CSRRS
| CSRRC
| CSRRWI
| CSRRSI
| CSRRCI

type instr =
| Rop of rop * coq_Z * coq_Z * coq_Z
| Iop of iop * coq_Z * coq_Z * coq_Z
| Shift of shop * coq_Z * coq_Z * coq_Z
| Load of lop * coq_Z * coq_Z * coq_Z
| Store of sop * coq_Z * coq_Z * coq_Z
| Branch of bop * coq_Z * coq_Z * coq_Z
| Lui of coq_Z * coq_Z
| Auipc of coq_Z * coq_Z
| Jal of coq_Z * coq_Z
| Jalr of coq_Z * coq_Z * coq_Z
| Ecall
| Ebreak
| Fence of coq_Z * coq_Z * coq_Z
| FenceI of coq_Z * coq_Z * coq_Z
| Csr of csrop * coq_Z * coq_Z * coq_Z
| Load1 of lop * coq_Z * coq_Z * coq_Z
| Store1 of sop * coq_Z * coq_Z * coq_Z
| Lst of coq_Z * coq_Z * coq_Z
| Sst of coq_Z * coq_Z * coq_Z
| Chdom of coq_Z * coq_Z * coq_Z
| Retdom of coq_Z * coq_Z * coq_Z
| Cficall of coq_Z * coq_Z * coq_Z
| Cfiret of coq_Z * coq_Z * coq_Z

type ext =
| ExtNone
| ExtRimi
| ExtFixer

val f_op : coq_Z -> coq_Z

val f_rd : coq_Z -> coq_Z

val f_f3 : coq_Z -> coq_Z

val f_rs1 : coq_Z -> coq_Z

val f_rs2 : coq_Z -> coq_Z

val f_f7 : coq_Z -> coq_Z

val mkword : coq_Z -> coq_Z -> coq_Z -> coq_Z -> coq_Z -> coq_Z -> coq_Z

val sext : coq_Z -> coq_Z -> coq_Z

val usig : coq_Z -> coq_Z -> coq_Z

val immf_i : coq_Z -> coq_Z -> coq_Z

val immf_s : coq_Z -> coq_Z -> coq_Z

val immf_b : coq_Z -> coq_Z -> coq_Z

val immf_u : coq_Z -> coq_Z -> coq_Z -> coq_Z -> coq_Z

val immf_j : coq_Z -> coq_Z -> coq_Z -> coq_Z -> coq_Z

val dec_op : coq_Z -> coq_Z -> rop option

val dec_op32 : coq_Z -> coq_Z -> rop option

val dec_load : coq_Z -> lop option

val dec_store : coq_Z -> sop option

val dec_branch : coq_Z -> bop option

val dec_csr : coq_Z -> csrop option

val omap : ('a1 -> 'a2) -> 'a1 option -> 'a2 option

val decode_f :
  ext -> coq_Z -> coq_Z -> coq_Z -> coq_Z -> coq_Z -> coq_Z -> coq_Z -> instr
  option

val decode : ext -> coq_Z -> instr option

val enc_rop : rop -> (coq_Z * coq_Z) * coq_Z

val enc_iop : iop -> coq_Z * coq_Z

val enc_shop : shop -> (coq_Z * coq_Z) * coq_Z

val enc_lop : lop -> coq_Z

val enc_sop : sop -> coq_Z

val enc_bop : bop -> coq_Z

val enc_csrop : csrop -> coq_Z

val enc_I : coq_Z -> coq_Z -> coq_Z -> coq_Z -> coq_Z -> coq_Z

val enc_S : coq_Z -> coq_Z -> coq_Z -> coq_Z -> coq_Z -> coq_Z

val enc_B : coq_Z -> coq_Z -> coq_Z -> coq_Z -> coq_Z -> coq_Z

val enc_U : coq_Z -> coq_Z -> coq_Z -> coq_Z

val enc_J : coq_Z -> coq_Z -> coq_Z -> coq_Z

val encode_spec : instr -> coq_Z

val isreg : coq_Z -> bool

val simm : coq_Z -> coq_Z -> bool

val is_w_shift : shop -> bool

val wf : instr -> bool
