open BinInt
open BinNums

val le_bytes32 : coq_Z -> coq_Z list
