
(** val existsb : ('a1 -> bool) -> 'a1 list -> bool **)

let rec existsb f = function
| [] -> false
| a :: l0 -> (||) (f a) (existsb f l0)
