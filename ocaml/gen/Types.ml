open BinNums
open String0

type iinfo = { ii_key : char list; ii_name : char list; ii_opcode : coq_Z;
               ii_funct3 : coq_Z; ii_funct7 : coq_Z; ii_type : char list;
               ii_class : char list; ii_mask : coq_Z; ii_val : coq_Z;
               ii_x : ((coq_Z * coq_Z) * coq_Z) option; ii_alias : bool }

type gi =
| GR of char list * coq_Z * coq_Z * coq_Z * coq_Z * coq_Z * coq_Z
| GI of char list * coq_Z * coq_Z * coq_Z * coq_Z * coq_Z * coq_Z
| GU of char list * coq_Z * coq_Z * coq_Z
| GJ of char list * coq_Z * coq_Z * coq_Z
| GS of char list * coq_Z * coq_Z * coq_Z * coq_Z * coq_Z
| GB of char list * coq_Z * coq_Z * coq_Z * coq_Z * coq_Z

(** val lookup_info : iinfo list -> char list -> iinfo option **)

let rec lookup_info tbl key =
  match tbl with
  | [] -> None
  | e :: tl -> if eqb e.ii_key key then Some e else lookup_info tl key
