
type nat =
| O
| S of nat

type comparison =
| Eq
| Lt
| Gt

val coq_CompOpp : comparison -> comparison
