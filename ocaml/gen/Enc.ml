open BinInt
open BinNums
open Bits
open List0
open String0
open Types

(** val format_to : coq_Z -> coq_Z -> coq_Z **)

let format_to v n =
  Z.coq_land (Z.abs v) (Z.sub (Z.shiftl (Zpos Coq_xH) n) (Zpos Coq_xH))

(** val format_to_aligned : coq_Z -> coq_Z -> coq_Z **)

let format_to_aligned v n =
  Z.coq_land (Z.abs v)
    (Z.sub (Z.shiftl (Zpos Coq_xH) n) (Zpos (Coq_xO Coq_xH)))

(** val to_unsigned : coq_Z -> coq_Z -> coq_Z **)

let to_unsigned v n =
  if Z.leb Z0 v
  then v
  else Z.add
         (Z.sub (Z.sub (Z.shiftl (Zpos Coq_xH) n) (Zpos Coq_xH)) (Z.abs v))
         (Zpos Coq_xH)

(** val to_signed : coq_Z -> coq_Z -> coq_Z **)

let to_signed v n =
  let sign_mask = Z.shiftl (Zpos Coq_xH) (Z.sub n (Zpos Coq_xH)) in
  let mask = Z.sub (Z.shiftl (Zpos Coq_xH) n) (Zpos Coq_xH) in
  Z.sub (Z.coq_lxor (Z.coq_land v mask) sign_mask) sign_mask

(** val mkR :
    char list -> coq_Z -> coq_Z -> coq_Z -> coq_Z -> coq_Z -> coq_Z -> gi **)

let mkR name opcode funct3 rd rs1 rs2 funct7 =
  GR (name, (format_to opcode (Zpos (Coq_xI (Coq_xI Coq_xH)))),
    (format_to funct3 (Zpos (Coq_xI Coq_xH))),
    (format_to funct7 (Zpos (Coq_xI (Coq_xI Coq_xH)))),
    (format_to rd (Zpos (Coq_xI (Coq_xO Coq_xH)))),
    (format_to rs1 (Zpos (Coq_xI (Coq_xO Coq_xH)))),
    (format_to rs2 (Zpos (Coq_xI (Coq_xO Coq_xH)))))

(** val mkI :
    char list -> coq_Z -> coq_Z -> coq_Z -> coq_Z -> coq_Z -> coq_Z -> gi **)

let mkI name opcode funct3 rd rs1 imm funct7 =
  GI (name, (format_to opcode (Zpos (Coq_xI (Coq_xI Coq_xH)))),
    (format_to funct3 (Zpos (Coq_xI Coq_xH))),
    (format_to funct7 (Zpos (Coq_xI (Coq_xI Coq_xH)))),
    (format_to rd (Zpos (Coq_xI (Coq_xO Coq_xH)))),
    (format_to rs1 (Zpos (Coq_xI (Coq_xO Coq_xH)))),
    (format_to (to_unsigned imm (Zpos (Coq_xO (Coq_xO (Coq_xI Coq_xH)))))
      (Zpos (Coq_xO (Coq_xO (Coq_xI Coq_xH))))))

(** val mkU : char list -> coq_Z -> coq_Z -> coq_Z -> gi **)

let mkU name opcode rd imm =
  GU (name, (format_to opcode (Zpos (Coq_xI (Coq_xI Coq_xH)))),
    (format_to rd (Zpos (Coq_xI (Coq_xO Coq_xH)))),
    (format_to
      (to_unsigned imm (Zpos (Coq_xO (Coq_xO (Coq_xO (Coq_xO (Coq_xO
        Coq_xH))))))) (Zpos (Coq_xO (Coq_xO (Coq_xO (Coq_xO (Coq_xO
      Coq_xH))))))))

(** val mkJ : char list -> coq_Z -> coq_Z -> coq_Z -> gi **)

let mkJ name opcode rd imm =
  GJ (name, (format_to opcode (Zpos (Coq_xI (Coq_xI Coq_xH)))),
    (format_to rd (Zpos (Coq_xI (Coq_xO Coq_xH)))),
    (format_to_aligned
      (to_unsigned imm (Zpos (Coq_xI (Coq_xO (Coq_xI (Coq_xO Coq_xH))))))
      (Zpos (Coq_xI (Coq_xO (Coq_xI (Coq_xO Coq_xH)))))))

(** val mkS : char list -> coq_Z -> coq_Z -> coq_Z -> coq_Z -> coq_Z -> gi **)

let mkS name opcode funct3 rs1 rs2 imm =
  GS (name, (format_to opcode (Zpos (Coq_xI (Coq_xI Coq_xH)))),
    (format_to funct3 (Zpos (Coq_xI Coq_xH))),
    (format_to rs1 (Zpos (Coq_xI (Coq_xO Coq_xH)))),
    (format_to rs2 (Zpos (Coq_xI (Coq_xO Coq_xH)))),
    (format_to (to_unsigned imm (Zpos (Coq_xO (Coq_xO (Coq_xI Coq_xH)))))
      (Zpos (Coq_xO (Coq_xO (Coq_xI Coq_xH))))))

(** val mkB : char list -> coq_Z -> coq_Z -> coq_Z -> coq_Z -> coq_Z -> gi **)

let mkB name opcode funct3 rs1 rs2 imm =
  GB (name, (format_to opcode (Zpos (Coq_xI (Coq_xI Coq_xH)))),
    (format_to funct3 (Zpos (Coq_xI Coq_xH))),
    (format_to rs1 (Zpos (Coq_xI (Coq_xO Coq_xH)))),
    (format_to rs2 (Zpos (Coq_xI (Coq_xO Coq_xH)))),
    (format_to_aligned
      (to_unsigned imm (Zpos (Coq_xI (Coq_xO (Coq_xI Coq_xH))))) (Zpos
      (Coq_xI (Coq_xO (Coq_xI Coq_xH))))))

(** val mkRoCC :
    char list -> coq_Z -> coq_Z -> coq_Z -> coq_Z -> coq_Z -> coq_Z -> coq_Z
    -> coq_Z -> gi **)

let mkRoCC name xd xs1 xs2 opcode rd rs1 rs2 funct7 =
  let xd' = format_to xd (Zpos Coq_xH) in
  let xs1' = format_to xs1 (Zpos Coq_xH) in
  let xs2' = format_to xs2 (Zpos Coq_xH) in
  let funct3 =
    format_to
      (Z.add
        (Z.add (Z.shiftl xd' (Zpos (Coq_xO Coq_xH)))
          (Z.shiftl xs1' (Zpos Coq_xH))) xs2') (Zpos (Coq_xI Coq_xH))
  in
  mkR name opcode funct3 rd rs1 rs2 funct7

(** val j_shuffle : coq_Z -> coq_Z **)

let j_shuffle imm =
  let s =
    Z.shiftl
      (Z.coq_land
        (Z.shiftr imm (Zpos (Coq_xO (Coq_xO (Coq_xI (Coq_xO Coq_xH))))))
        (Zpos Coq_xH)) (Zpos (Coq_xI (Coq_xI (Coq_xO (Coq_xO Coq_xH)))))
  in
  let s0 =
    Z.coq_lor s
      (Z.shiftl
        (Z.coq_land (Z.shiftr imm (Zpos Coq_xH)) (Zpos (Coq_xI (Coq_xI
          (Coq_xI (Coq_xI (Coq_xI (Coq_xI (Coq_xI (Coq_xI (Coq_xI
          Coq_xH))))))))))) (Zpos (Coq_xI (Coq_xO (Coq_xO Coq_xH)))))
  in
  let s1 =
    Z.coq_lor s0
      (Z.shiftl
        (Z.coq_land (Z.shiftr imm (Zpos (Coq_xI (Coq_xI (Coq_xO Coq_xH)))))
          (Zpos Coq_xH)) (Zpos (Coq_xO (Coq_xO (Coq_xO Coq_xH)))))
  in
  Z.coq_lor s1
    (Z.coq_land (Z.shiftr imm (Zpos (Coq_xO (Coq_xO (Coq_xI Coq_xH))))) (Zpos
      (Coq_xI (Coq_xI (Coq_xI (Coq_xI (Coq_xI (Coq_xI (Coq_xI Coq_xH)))))))))

(** val s_shuffle : coq_Z -> coq_Z * coq_Z **)

let s_shuffle imm =
  ((Z.shiftl
     (Z.coq_land imm (Zpos (Coq_xI (Coq_xI (Coq_xI (Coq_xI Coq_xH)))))) (Zpos
     (Coq_xI (Coq_xI Coq_xH)))),
    (Z.shiftl
      (Z.shiftr
        (Z.coq_land imm (Zpos (Coq_xO (Coq_xO (Coq_xO (Coq_xO (Coq_xO (Coq_xI
          (Coq_xI (Coq_xI (Coq_xI (Coq_xI (Coq_xI Coq_xH))))))))))))) (Zpos
        (Coq_xI (Coq_xO Coq_xH)))) (Zpos (Coq_xI (Coq_xO (Coq_xO (Coq_xI
      Coq_xH)))))))

(** val b_shuffle : coq_Z -> coq_Z * coq_Z **)

let b_shuffle imm =
  let s1 =
    Z.shiftl
      (Z.coq_land (Z.shiftr imm (Zpos (Coq_xO (Coq_xO (Coq_xI Coq_xH)))))
        (Zpos Coq_xH)) (Zpos (Coq_xO (Coq_xI Coq_xH)))
  in
  let s2 =
    Z.coq_lor s1
      (Z.coq_land (Z.shiftr imm (Zpos (Coq_xI (Coq_xO Coq_xH)))) (Zpos
        (Coq_xI (Coq_xI (Coq_xI (Coq_xI (Coq_xI Coq_xH)))))))
  in
  let s3 =
    Z.shiftl
      (Z.coq_land (Z.shiftr imm (Zpos Coq_xH)) (Zpos (Coq_xI (Coq_xI (Coq_xI
        Coq_xH))))) (Zpos Coq_xH)
  in
  let s4 =
    Z.coq_lor s3
      (Z.coq_land (Z.shiftr imm (Zpos (Coq_xI (Coq_xI (Coq_xO Coq_xH)))))
        (Zpos Coq_xH))
  in
  (s2, s4)

(** val generate : gi -> coq_Z **)

let generate = function
| GR (_, op, f3, f7, rd, rs1, rs2) ->
  let m = Z.coq_lor op (Z.shiftl rd (Zpos (Coq_xI (Coq_xI Coq_xH)))) in
  let m0 = Z.coq_lor m (Z.shiftl f3 (Zpos (Coq_xO (Coq_xO (Coq_xI Coq_xH)))))
  in
  let m1 =
    Z.coq_lor m0 (Z.shiftl rs1 (Zpos (Coq_xI (Coq_xI (Coq_xI Coq_xH)))))
  in
  let m2 =
    Z.coq_lor m1
      (Z.shiftl rs2 (Zpos (Coq_xO (Coq_xO (Coq_xI (Coq_xO Coq_xH))))))
  in
  Z.coq_lor m2 (Z.shiftl f7 (Zpos (Coq_xI (Coq_xO (Coq_xO (Coq_xI Coq_xH))))))
| GI (_, op, f3, f7, rd, rs1, imm) ->
  let m = Z.coq_lor op (Z.shiftl rd (Zpos (Coq_xI (Coq_xI Coq_xH)))) in
  let m0 = Z.coq_lor m (Z.shiftl f3 (Zpos (Coq_xO (Coq_xO (Coq_xI Coq_xH)))))
  in
  let m1 =
    Z.coq_lor m0 (Z.shiftl rs1 (Zpos (Coq_xI (Coq_xI (Coq_xI Coq_xH)))))
  in
  let m2 =
    Z.coq_lor m1
      (Z.shiftl imm (Zpos (Coq_xO (Coq_xO (Coq_xI (Coq_xO Coq_xH))))))
  in
  Z.coq_lor m2 (Z.shiftl f7 (Zpos (Coq_xI (Coq_xO (Coq_xO (Coq_xI Coq_xH))))))
| GU (_, op, rd, imm) ->
  let m = Z.coq_lor op (Z.shiftl rd (Zpos (Coq_xI (Coq_xI Coq_xH)))) in
  Z.coq_lor m
    (Z.coq_land imm (Zpos (Coq_xO (Coq_xO (Coq_xO (Coq_xO (Coq_xO (Coq_xO
      (Coq_xO (Coq_xO (Coq_xO (Coq_xO (Coq_xO (Coq_xO (Coq_xI (Coq_xI (Coq_xI
      (Coq_xI (Coq_xI (Coq_xI (Coq_xI (Coq_xI (Coq_xI (Coq_xI (Coq_xI (Coq_xI
      (Coq_xI (Coq_xI (Coq_xI (Coq_xI (Coq_xI (Coq_xI (Coq_xI
      Coq_xH)))))))))))))))))))))))))))))))))
| GJ (_, op, rd, imm) ->
  let m = Z.coq_lor op (Z.shiftl rd (Zpos (Coq_xI (Coq_xI Coq_xH)))) in
  Z.coq_lor m
    (Z.shiftl (j_shuffle imm) (Zpos (Coq_xO (Coq_xO (Coq_xI Coq_xH)))))
| GS (_, op, f3, rs1, rs2, imm) ->
  let (s1, s2) = s_shuffle imm in
  let m = Z.coq_lor op s1 in
  let m0 = Z.coq_lor m (Z.shiftl f3 (Zpos (Coq_xO (Coq_xO (Coq_xI Coq_xH)))))
  in
  let m1 =
    Z.coq_lor m0 (Z.shiftl rs1 (Zpos (Coq_xI (Coq_xI (Coq_xI Coq_xH)))))
  in
  let m2 =
    Z.coq_lor m1
      (Z.shiftl rs2 (Zpos (Coq_xO (Coq_xO (Coq_xI (Coq_xO Coq_xH))))))
  in
  Z.coq_lor m2 s2
| GB (_, op, f3, rs1, rs2, imm) ->
  let (s1, s2) = b_shuffle imm in
  let m = Z.coq_lor op (Z.shiftl s2 (Zpos (Coq_xI (Coq_xI Coq_xH)))) in
  let m0 = Z.coq_lor m (Z.shiftl f3 (Zpos (Coq_xO (Coq_xO (Coq_xI Coq_xH)))))
  in
  let m1 =
    Z.coq_lor m0 (Z.shiftl rs1 (Zpos (Coq_xI (Coq_xI (Coq_xI Coq_xH)))))
  in
  let m2 =
    Z.coq_lor m1
      (Z.shiftl rs2 (Zpos (Coq_xO (Coq_xO (Coq_xI (Coq_xO Coq_xH))))))
  in
  Z.coq_lor m2 (Z.shiftl s1 (Zpos (Coq_xI (Coq_xO (Coq_xO (Coq_xI Coq_xH))))))

(** val generate_bytes : gi -> coq_Z list **)

let generate_bytes g =
  le_bytes32 (generate g)

(** val r_instr :
    iinfo list -> char list -> coq_Z -> coq_Z -> coq_Z -> gi option **)

let r_instr tbl name rd rs1 rs2 =
  match lookup_info tbl name with
  | Some e -> Some (mkR name e.ii_opcode e.ii_funct3 rd rs1 rs2 e.ii_funct7)
  | None -> None

(** val i_instr :
    iinfo list -> char list -> coq_Z -> coq_Z -> coq_Z -> gi option **)

let i_instr tbl name rd rs1 imm =
  match lookup_info tbl name with
  | Some e -> Some (mkI name e.ii_opcode e.ii_funct3 rd rs1 imm e.ii_funct7)
  | None -> None

(** val u_instr : iinfo list -> char list -> coq_Z -> coq_Z -> gi option **)

let u_instr tbl name rd imm =
  match lookup_info tbl name with
  | Some e -> Some (mkU name e.ii_opcode rd imm)
  | None -> None

(** val j_instr : iinfo list -> char list -> coq_Z -> coq_Z -> gi option **)

let j_instr tbl name rd imm =
  match lookup_info tbl name with
  | Some e -> Some (mkJ name e.ii_opcode rd imm)
  | None -> None

(** val s_instr :
    iinfo list -> char list -> coq_Z -> coq_Z -> coq_Z -> gi option **)

let s_instr tbl name rs1 rs2 imm =
  match lookup_info tbl name with
  | Some e -> Some (mkS name e.ii_opcode e.ii_funct3 rs1 rs2 imm)
  | None -> None

(** val b_instr :
    iinfo list -> char list -> coq_Z -> coq_Z -> coq_Z -> gi option **)

let b_instr tbl name rs1 rs2 imm =
  match lookup_info tbl name with
  | Some e -> Some (mkB name e.ii_opcode e.ii_funct3 rs1 rs2 imm)
  | None -> None

(** val custom_instr :
    iinfo list -> char list -> coq_Z -> coq_Z -> coq_Z -> gi option **)

let custom_instr tbl name rd rs1 rs2 =
  match lookup_info tbl name with
  | Some e ->
    (match e.ii_x with
     | Some p ->
       let (p0, xs2) = p in
       let (xd, xs1) = p0 in
       Some (mkRoCC name xd xs1 xs2 e.ii_opcode rd rs1 rs2 e.ii_funct7)
     | None -> None)
  | None -> None

(** val r_ctor_names : char list list **)

let r_ctor_names =
  ('a'::('d'::('d'::[]))) :: (('a'::('d'::('d'::('w'::[])))) :: (('a'::('n'::('d'::('r'::[])))) :: (('m'::('u'::('l'::[]))) :: (('m'::('u'::('l'::('h'::[])))) :: (('m'::('u'::('l'::('h'::('s'::('u'::[])))))) :: (('m'::('u'::('l'::('h'::('u'::[]))))) :: (('m'::('u'::('l'::('w'::[])))) :: (('o'::('r'::('r'::[]))) :: (('s'::('l'::('l'::[]))) :: (('s'::('l'::('l'::('w'::[])))) :: (('s'::('l'::('t'::[]))) :: (('s'::('l'::('t'::('u'::[])))) :: (('s'::('r'::('a'::[]))) :: (('s'::('r'::('a'::('w'::[])))) :: (('s'::('r'::('l'::[]))) :: (('s'::('r'::('l'::('w'::[])))) :: (('s'::('u'::('b'::[]))) :: (('s'::('u'::('b'::('w'::[])))) :: (('x'::('o'::('r'::[]))) :: [])))))))))))))))))))

(** val i_plain_names : char list list **)

let i_plain_names =
  ('a'::('d'::('d'::('i'::[])))) :: (('a'::('d'::('d'::('i'::('w'::[]))))) :: (('a'::('n'::('d'::('i'::[])))) :: (('j'::('a'::('l'::('r'::[])))) :: (('l'::('b'::[])) :: (('l'::('b'::('u'::[]))) :: (('l'::('d'::[])) :: (('l'::('h'::[])) :: (('l'::('h'::('u'::[]))) :: (('l'::('w'::[])) :: (('l'::('w'::('u'::[]))) :: (('o'::('r'::('i'::[]))) :: (('s'::('l'::('t'::('i'::[])))) :: (('s'::('l'::('t'::('i'::('u'::[]))))) :: (('x'::('o'::('r'::('i'::[])))) :: []))))))))))))))

(** val s_ctor_names : char list list **)

let s_ctor_names =
  ('s'::('b'::[])) :: (('s'::('h'::[])) :: (('s'::('w'::[])) :: (('s'::('d'::[])) :: [])))

(** val b_ctor_names : char list list **)

let b_ctor_names =
  ('b'::('e'::('q'::[]))) :: (('b'::('g'::('e'::[]))) :: (('b'::('g'::('e'::('u'::[])))) :: (('b'::('l'::('t'::[]))) :: (('b'::('l'::('t'::('u'::[])))) :: (('b'::('n'::('e'::[]))) :: [])))))

(** val rimi_i_names : char list list **)

let rimi_i_names =
  ('l'::('b'::('1'::[]))) :: (('l'::('b'::('u'::('1'::[])))) :: (('l'::('h'::('1'::[]))) :: (('l'::('h'::('u'::('1'::[])))) :: (('l'::('w'::('1'::[]))) :: (('l'::('w'::('u'::('1'::[])))) :: (('l'::('d'::('1'::[]))) :: (('l'::('s'::('t'::[]))) :: (('c'::('h'::('d'::('o'::('m'::[]))))) :: []))))))))

(** val rimi_s_names : char list list **)

let rimi_s_names =
  ('s'::('b'::('1'::[]))) :: (('s'::('h'::('1'::[]))) :: (('s'::('w'::('1'::[]))) :: (('s'::('d'::('1'::[]))) :: (('s'::('s'::('t'::[]))) :: []))))

(** val mem : char list -> char list list -> bool **)

let mem s l =
  existsb (eqb s) l

(** val apply_ctor :
    iinfo list -> iinfo list -> iinfo list -> char list -> char list -> coq_Z
    list -> gi option **)

let apply_ctor base rimi fixer cls name args =
  if eqb cls
       ('R'::('I'::('n'::('s'::('t'::('r'::('u'::('c'::('t'::('i'::('o'::('n'::[]))))))))))))
  then (match args with
        | [] -> None
        | rd :: l ->
          (match l with
           | [] -> None
           | rs1 :: l0 ->
             (match l0 with
              | [] -> None
              | rs2 :: l1 ->
                (match l1 with
                 | [] ->
                   if mem name r_ctor_names
                   then r_instr base name rd rs1 rs2
                   else None
                 | _ :: _ -> None))))
  else if eqb cls
            ('I'::('I'::('n'::('s'::('t'::('r'::('u'::('c'::('t'::('i'::('o'::('n'::[]))))))))))))
       then (match args with
             | [] ->
               if eqb name ('r'::('e'::('t'::[])))
               then i_instr base ('j'::('a'::('l'::('r'::[])))) Z0 (Zpos
                      Coq_xH) Z0
               else if eqb name ('n'::('o'::('p'::[])))
                    then i_instr base ('a'::('d'::('d'::('i'::[])))) Z0 Z0 Z0
                    else if eqb name
                              ('e'::('b'::('r'::('e'::('a'::('k'::[]))))))
                         then i_instr base
                                ('e'::('b'::('r'::('e'::('a'::('k'::[]))))))
                                Z0 Z0 (Zpos Coq_xH)
                         else if eqb name
                                   ('e'::('c'::('a'::('l'::('l'::[])))))
                              then i_instr base
                                     ('e'::('c'::('a'::('l'::('l'::[]))))) Z0
                                     Z0 Z0
                              else None
             | rs1 :: l ->
               (match l with
                | [] ->
                  if eqb name ('j'::('r'::[]))
                  then i_instr base ('j'::('a'::('l'::('r'::[])))) Z0 rs1 Z0
                  else None
                | rs2 :: l0 ->
                  (match l0 with
                   | [] -> None
                   | imm :: l1 ->
                     (match l1 with
                      | [] ->
                        if mem name i_plain_names
                        then i_instr base name rs1 rs2 imm
                        else if eqb name ('s'::('l'::('l'::('i'::[]))))
                             then i_instr base ('s'::('l'::('l'::('i'::[]))))
                                    rs1 rs2
                                    (Z.coq_land imm (Zpos (Coq_xI (Coq_xI
                                      (Coq_xI (Coq_xI (Coq_xO Coq_xH)))))))
                             else if eqb name ('s'::('r'::('l'::('i'::[]))))
                                  then i_instr base
                                         ('s'::('r'::('l'::('i'::[])))) rs1
                                         rs2
                                         (Z.coq_land imm (Zpos (Coq_xI
                                           (Coq_xI (Coq_xI (Coq_xI (Coq_xO
                                           Coq_xH)))))))
                                  else if eqb name
                                            ('s'::('r'::('a'::('i'::[]))))
                                       then i_instr base
                                              ('s'::('r'::('a'::('i'::[]))))
                                              rs1 rs2
                                              (Z.coq_land imm (Zpos (Coq_xI
                                                (Coq_xI (Coq_xI (Coq_xI
                                                (Coq_xO Coq_xH)))))))
                                       else if eqb name
                                                 ('s'::('l'::('l'::('i'::('w'::[])))))
                                            then i_instr base
                                                   ('s'::('l'::('l'::('i'::('w'::[])))))
                                                   rs1 rs2
                                                   (Z.coq_land imm (Zpos
                                                     (Coq_xI (Coq_xI (Coq_xI
                                                     (Coq_xI Coq_xH))))))
                                            else if eqb name
                                                      ('s'::('r'::('l'::('i'::('w'::[])))))
                                                 then i_instr base
                                                        ('s'::('r'::('l'::('i'::('w'::[])))))
                                                        rs1 rs2
                                                        (Z.coq_land imm (Zpos
                                                          (Coq_xI (Coq_xI
                                                          (Coq_xI (Coq_xI
                                                          Coq_xH))))))
                                                 else if eqb name
                                                           ('s'::('r'::('a'::('i'::('w'::[])))))
                                                      then i_instr base
                                                             ('s'::('r'::('a'::('i'::('w'::[])))))
                                                             rs1 rs2
                                                             (Z.coq_land imm
                                                               (Zpos (Coq_xI
                                                               (Coq_xI
                                                               (Coq_xI
                                                               (Coq_xI
                                                               Coq_xH))))))
                                                      else None
                      | _ :: _ -> None))))
       else if eqb cls
                 ('U'::('I'::('n'::('s'::('t'::('r'::('u'::('c'::('t'::('i'::('o'::('n'::[]))))))))))))
            then (match args with
                  | [] -> None
                  | rd :: l ->
                    (match l with
                     | [] -> None
                     | imm :: l0 ->
                       (match l0 with
                        | [] ->
                          if mem name
                               (('a'::('u'::('i'::('p'::('c'::[]))))) :: (('l'::('u'::('i'::[]))) :: []))
                          then u_instr base name rd imm
                          else None
                        | _ :: _ -> None)))
            else if eqb cls
                      ('J'::('I'::('n'::('s'::('t'::('r'::('u'::('c'::('t'::('i'::('o'::('n'::[]))))))))))))
                 then (match args with
                       | [] -> None
                       | imm :: l ->
                         (match l with
                          | [] ->
                            if eqb name ('j'::[])
                            then j_instr base ('j'::('a'::('l'::[]))) Z0 imm
                            else None
                          | imm0 :: l0 ->
                            (match l0 with
                             | [] ->
                               if eqb name ('j'::('a'::('l'::[])))
                               then j_instr base ('j'::('a'::('l'::[]))) imm
                                      imm0
                               else None
                             | _ :: _ -> None)))
                 else if eqb cls
                           ('S'::('I'::('n'::('s'::('t'::('r'::('u'::('c'::('t'::('i'::('o'::('n'::[]))))))))))))
                      then (match args with
                            | [] -> None
                            | rs1 :: l ->
                              (match l with
                               | [] -> None
                               | rs2 :: l0 ->
                                 (match l0 with
                                  | [] -> None
                                  | imm :: l1 ->
                                    (match l1 with
                                     | [] ->
                                       if mem name s_ctor_names
                                       then s_instr base name rs1 rs2 imm
                                       else None
                                     | _ :: _ -> None))))
                      else if eqb cls
                                ('B'::('I'::('n'::('s'::('t'::('r'::('u'::('c'::('t'::('i'::('o'::('n'::[]))))))))))))
                           then (match args with
                                 | [] -> None
                                 | rs1 :: l ->
                                   (match l with
                                    | [] -> None
                                    | rs2 :: l0 ->
                                      (match l0 with
                                       | [] -> None
                                       | imm :: l1 ->
                                         (match l1 with
                                          | [] ->
                                            if mem name b_ctor_names
                                            then b_instr base name rs1 rs2 imm
                                            else None
                                          | _ :: _ -> None))))
                           else if eqb cls
                                     ('R'::('I'::('M'::('I'::('I'::('I'::('n'::('s'::('t'::('r'::('u'::('c'::('t'::('i'::('o'::('n'::[]))))))))))))))))
                                then (match args with
                                      | [] ->
                                        if eqb name
                                             ('r'::('e'::('t'::('d'::('o'::('m'::[]))))))
                                        then i_instr rimi
                                               ('r'::('e'::('t'::('d'::('o'::('m'::[]))))))
                                               Z0 (Zpos Coq_xH) Z0
                                        else None
                                      | rd :: l ->
                                        (match l with
                                         | [] -> None
                                         | rs1 :: l0 ->
                                           (match l0 with
                                            | [] -> None
                                            | imm :: l1 ->
                                              (match l1 with
                                               | [] ->
                                                 if mem name rimi_i_names
                                                 then i_instr rimi name rd
                                                        rs1 imm
                                                 else None
                                               | _ :: _ -> None))))
                                else if eqb cls
                                          ('R'::('I'::('M'::('I'::('S'::('I'::('n'::('s'::('t'::('r'::('u'::('c'::('t'::('i'::('o'::('n'::[]))))))))))))))))
                                     then (match args with
                                           | [] -> None
                                           | rs1 :: l ->
                                             (match l with
                                              | [] -> None
                                              | rs2 :: l0 ->
                                                (match l0 with
                                                 | [] -> None
                                                 | imm :: l1 ->
                                                   (match l1 with
                                                    | [] ->
                                                      if mem name rimi_s_names
                                                      then s_instr rimi name
                                                             rs1 rs2 imm
                                                      else None
                                                    | _ :: _ -> None))))
                                     else if eqb cls
                                               ('F'::('I'::('X'::('E'::('R'::('C'::('u'::('s'::('t'::('o'::('m'::('I'::('n'::('s'::('t'::('r'::('u'::('c'::('t'::('i'::('o'::('n'::[]))))))))))))))))))))))
                                          then (match args with
                                                | [] -> None
                                                | rd :: l ->
                                                  (match l with
                                                   | [] -> None
                                                   | rs1 :: l0 ->
                                                     (match l0 with
                                                      | [] -> None
                                                      | rs2 :: l1 ->
                                                        (match l1 with
                                                         | [] ->
                                                           if mem name
                                                                (('c'::('f'::('i'::('c'::('a'::('l'::('l'::[]))))))) :: (('c'::('f'::('i'::('r'::('e'::('t'::[])))))) :: []))
                                                           then custom_instr
                                                                  fixer name
                                                                  rd rs1 rs2
                                                           else None
                                                         | _ :: _ -> None))))
                                          else None
