
val eqb : char list -> char list -> bool
