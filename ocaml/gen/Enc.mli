open BinInt
open BinNums
open Bits
open List0
open String0
open Types

val format_to : coq_Z -> coq_Z -> coq_Z

val format_to_aligned : coq_Z -> coq_Z -> coq_Z

val to_unsigned : coq_Z -> coq_Z -> coq_Z

val to_signed : coq_Z -> coq_Z -> coq_Z

val mkR :
  char list -> coq_Z -> coq_Z -> coq_Z -> coq_Z -> coq_Z -> coq_Z -> gi

val mkI :
  char list -> coq_Z -> coq_Z -> coq_Z -> coq_Z -> coq_Z -> coq_Z -> gi

val mkU : char list -> coq_Z -> coq_Z -> coq_Z -> gi

val mkJ : char list -> coq_Z -> coq_Z -> coq_Z -> gi

val mkS : char list -> coq_Z -> coq_Z -> coq_Z -> coq_Z -> coq_Z -> gi

val mkB : char list -> coq_Z -> coq_Z -> coq_Z -> coq_Z -> coq_Z -> gi

val mkRoCC :
  char list -> coq_Z -> coq_Z -> coq_Z -> coq_Z -> coq_Z -> coq_Z -> coq_Z ->
  coq_Z -> gi

val j_shuffle : coq_Z -> coq_Z

val s_shuffle : coq_Z -> coq_Z * coq_Z

val b_shuffle : coq_Z -> coq_Z * coq_Z

val generate : gi -> coq_Z

val generate_bytes : gi -> coq_Z list

val r_instr : iinfo list -> char list -> coq_Z -> coq_Z -> coq_Z -> gi option

val i_instr : iinfo list -> char list -> coq_Z -> coq_Z -> coq_Z -> gi option

val u_instr : iinfo list -> char list -> coq_Z -> coq_Z -> gi option

val j_instr : iinfo list -> char list -> coq_Z -> coq_Z -> gi option

val s_instr : iinfo list -> char list -> coq_Z -> coq_Z -> coq_Z -> gi option

val b_instr : iinfo list -> char list -> coq_Z -> coq_Z -> coq_Z -> gi option

val custom_instr :
  iinfo list -> char list -> coq_Z -> coq_Z -> coq_Z -> gi option

val r_ctor_names : char list list

val i_plain_names : char list list

val s_ctor_names : char list list

val b_ctor_names : char list list

val rimi_i_names : char list list

val rimi_s_names : char list list

val mem : char list -> char list list -> bool

val apply_ctor :
  iinfo list -> iinfo list -> iinfo list -> char list -> char list -> coq_Z
  list -> gi option
