
val existsb : ('a1 -> bool) -> 'a1 list -> bool
