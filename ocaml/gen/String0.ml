
(** val eqb : char list -> char list -> bool **)

let rec eqb s1 s2 =
  match s1 with
  | [] -> (match s2 with
           | [] -> true
           | _::_ -> false)
  | c1::s1' ->
    (match s2 with
     | [] -> false
     | c2::s2' -> if (=) c1 c2 then eqb s1' s2' else false)
