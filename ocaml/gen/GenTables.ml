open BinNums
open Types

(** val base_table : iinfo list **)

let base_table =
  { ii_key = ('a'::('d'::('d'::[]))); ii_name = ('a'::('d'::('d'::[])));
    ii_opcode = (Zpos (Coq_xI (Coq_xI (Coq_xO (Coq_xO (Coq_xI Coq_xH))))));
    ii_funct3 = Z0; ii_funct7 = Z0; ii_type = ('R'::[]); ii_class =
    ('a'::('r'::('i'::('t'::('h'::('m'::('e'::('t'::('i'::('c'::[]))))))))));
    ii_mask = (Zpos (Coq_xI (Coq_xI (Coq_xI (Coq_xI (Coq_xI (Coq_xI (Coq_xI
    (Coq_xO (Coq_xO (Coq_xO (Coq_xO (Coq_xO (Coq_xI (Coq_xI (Coq_xI (Coq_xO
    (Coq_xO (Coq_xO (Coq_xO (Coq_xO (Coq_xO (Coq_xO (Coq_xO (Coq_xO (Coq_xO
    (Coq_xI (Coq_xI (Coq_xI (Coq_xI (Coq_xI (Coq_xI
    Coq_xH)))))))))))))))))))))))))))))))); ii_val = (Zpos (Coq_xI (Coq_xI
    (Coq_xO (Coq_xO (Coq_xI Coq_xH)))))); ii_x = None; ii_alias =
    false } :: ({ ii_key = ('a'::('d'::('d'::('i'::[])))); ii_name =
    ('a'::('d'::('d'::('i'::[])))); ii_opcode = (Zpos (Coq_xI (Coq_xI (Coq_xO
    (Coq_xO Coq_xH))))); ii_funct3 = Z0; ii_funct7 = Z0; ii_type = ('I'::[]);
    ii_class =
    ('a'::('r'::('i'::('t'::('h'::('m'::('e'::('t'::('i'::('c'::[]))))))))));
    ii_mask = (Zpos (Coq_xI (Coq_xI (Coq_xI (Coq_xI (Coq_xI (Coq_xI (Coq_xI
    (Coq_xO (Coq_xO (Coq_xO (Coq_xO (Coq_xO (Coq_xI (Coq_xI
    Coq_xH))))))))))))))); ii_val = (Zpos (Coq_xI (Coq_xI (Coq_xO (Coq_xO
    Coq_xH))))); ii_x = None; ii_alias = false } :: ({ ii_key =
    ('a'::('d'::('d'::('i'::('w'::[]))))); ii_name =
    ('a'::('d'::('d'::('i'::('w'::[]))))); ii_opcode = (Zpos (Coq_xI (Coq_xI
    (Coq_xO (Coq_xI Coq_xH))))); ii_funct3 = Z0; ii_funct7 = Z0; ii_type =
    ('I'::[]); ii_class =
    ('a'::('r'::('i'::('t'::('h'::('m'::('e'::('t'::('i'::('c'::[]))))))))));
    ii_mask = (Zpos (Coq_xI (Coq_xI (Coq_xI (Coq_xI (Coq_xI (Coq_xI (Coq_xI
    (Coq_xO (Coq_xO (Coq_xO (Coq_xO (Coq_xO (Coq_xI (Coq_xI
    Coq_xH))))))))))))))); ii_val = (Zpos (Coq_xI (Coq_xI (Coq_xO (Coq_xI
    Coq_xH))))); ii_x = None; ii_alias = false } :: ({ ii_key =
    ('a'::('d'::('d'::('w'::[])))); ii_name = ('a'::('d'::('d'::('w'::[]))));
    ii_opcode = (Zpos (Coq_xI (Coq_xI (Coq_xO (Coq_xI (Coq_xI Coq_xH))))));
    ii_funct3 = Z0; ii_funct7 = Z0; ii_type = ('R'::[]); ii_class =
    ('a'::('r'::('i'::('t'::('h'::('m'::('e'::('t'::('i'::('c'::[]))))))))));
    ii_mask = (Zpos (Coq_xI (Coq_xI (Coq_xI (Coq_xI (Coq_xI (Coq_xI (Coq_xI
    (Coq_xO (Coq_xO (Coq_xO (Coq_xO (Coq_xO (Coq_xI (Coq_xI (Coq_xI (Coq_xO
    (Coq_xO (Coq_xO (Coq_xO (Coq_xO (Coq_xO (Coq_xO (Coq_xO (Coq_xO (Coq_xO
    (Coq_xI (Coq_xI (Coq_xI (Coq_xI (Coq_xI (Coq_xI
    Coq_xH)))))))))))))))))))))))))))))))); ii_val = (Zpos (Coq_xI (Coq_xI
    (Coq_xO (Coq_xI (Coq_xI Coq_xH)))))); ii_x = None; ii_alias =
    false } :: ({ ii_key = ('a'::('n'::('d'::('r'::[])))); ii_name =
    ('a'::('n'::('d'::('r'::[])))); ii_opcode = (Zpos (Coq_xI (Coq_xI (Coq_xO
    (Coq_xO (Coq_xI Coq_xH)))))); ii_funct3 = (Zpos (Coq_xI (Coq_xI
    Coq_xH))); ii_funct7 = Z0; ii_type = ('R'::[]); ii_class =
    ('a'::('r'::('i'::('t'::('h'::('m'::('e'::('t'::('i'::('c'::[]))))))))));
    ii_mask = (Zpos (Coq_xI (Coq_xI (Coq_xI (Coq_xI (Coq_xI (Coq_xI (Coq_xI
    (Coq_xO (Coq_xO (Coq_xO (Coq_xO (Coq_xO (Coq_xI (Coq_xI (Coq_xI (Coq_xO
    (Coq_xO (Coq_xO (Coq_xO (Coq_xO (Coq_xO (Coq_xO (Coq_xO (Coq_xO (Coq_xO
    (Coq_xI (Coq_xI (Coq_xI (Coq_xI (Coq_xI (Coq_xI
    Coq_xH)))))))))))))))))))))))))))))))); ii_val = (Zpos (Coq_xI (Coq_xI
    (Coq_xO (Coq_xO (Coq_xI (Coq_xI (Coq_xO (Coq_xO (Coq_xO (Coq_xO (Coq_xO
    (Coq_xO (Coq_xI (Coq_xI Coq_xH))))))))))))))); ii_x = None; ii_alias =
    false } :: ({ ii_key = ('a'::('n'::('d'::('i'::[])))); ii_name =
    ('a'::('n'::('d'::('i'::[])))); ii_opcode = (Zpos (Coq_xI (Coq_xI (Coq_xO
    (Coq_xO Coq_xH))))); ii_funct3 = (Zpos (Coq_xI (Coq_xI Coq_xH)));
    ii_funct7 = Z0; ii_type = ('I'::[]); ii_class =
    ('a'::('r'::('i'::('t'::('h'::('m'::('e'::('t'::('i'::('c'::[]))))))))));
    ii_mask = (Zpos (Coq_xI (Coq_xI (Coq_xI (Coq_xI (Coq_xI (Coq_xI (Coq_xI
    (Coq_xO (Coq_xO (Coq_xO (Coq_xO (Coq_xO (Coq_xI (Coq_xI
    Coq_xH))))))))))))))); ii_val = (Zpos (Coq_xI (Coq_xI (Coq_xO (Coq_xO
    (Coq_xI (Coq_xO (Coq_xO (Coq_xO (Coq_xO (Coq_xO (Coq_xO (Coq_xO (Coq_xI
    (Coq_xI Coq_xH))))))))))))))); ii_x = None; ii_alias =
    false } :: ({ ii_key = ('a'::('u'::('i'::('p'::('c'::[]))))); ii_name =
    ('a'::('u'::('i'::('p'::('c'::[]))))); ii_opcode = (Zpos (Coq_xI (Coq_xI
    (Coq_xI (Coq_xO Coq_xH))))); ii_funct3 = Z0; ii_funct7 = Z0; ii_type =
    ('U'::[]); ii_class =
    ('a'::('r'::('i'::('t'::('h'::('m'::('e'::('t'::('i'::('c'::[]))))))))));
    ii_mask = (Zpos (Coq_xI (Coq_xI (Coq_xI (Coq_xI (Coq_xI (Coq_xI
    Coq_xH))))))); ii_val = (Zpos (Coq_xI (Coq_xI (Coq_xI (Coq_xO
    Coq_xH))))); ii_x = None; ii_alias = false } :: ({ ii_key =
    ('b'::('e'::('q'::[]))); ii_name = ('b'::('e'::('q'::[]))); ii_opcode =
    (Zpos (Coq_xI (Coq_xI (Coq_xO (Coq_xO (Coq_xO (Coq_xI Coq_xH)))))));
    ii_funct3 = Z0; ii_funct7 = Z0; ii_type = ('B'::[]); ii_class =
    ('b'::('r'::('a'::('n'::('c'::('h'::('i'::('n'::('g'::[])))))))));
    ii_mask = (Zpos (Coq_xI (Coq_xI (Coq_xI (Coq_xI (Coq_xI (Coq_xI (Coq_xI
    (Coq_xO (Coq_xO (Coq_xO (Coq_xO (Coq_xO (Coq_xI (Coq_xI
    Coq_xH))))))))))))))); ii_val = (Zpos (Coq_xI (Coq_xI (Coq_xO (Coq_xO
    (Coq_xO (Coq_xI Coq_xH))))))); ii_x = None; ii_alias =
    false } :: ({ ii_key = ('b'::('g'::('e'::[]))); ii_name =
    ('b'::('g'::('e'::[]))); ii_opcode = (Zpos (Coq_xI (Coq_xI (Coq_xO
    (Coq_xO (Coq_xO (Coq_xI Coq_xH))))))); ii_funct3 = (Zpos (Coq_xI (Coq_xO
    Coq_xH))); ii_funct7 = Z0; ii_type = ('B'::[]); ii_class =
    ('b'::('r'::('a'::('n'::('c'::('h'::('i'::('n'::('g'::[])))))))));
    ii_mask = (Zpos (Coq_xI (Coq_xI (Coq_xI (Coq_xI (Coq_xI (Coq_xI (Coq_xI
    (Coq_xO (Coq_xO (Coq_xO (Coq_xO (Coq_xO (Coq_xI (Coq_xI
    Coq_xH))))))))))))))); ii_val = (Zpos (Coq_xI (Coq_xI (Coq_xO (Coq_xO
    (Coq_xO (Coq_xI (Coq_xI (Coq_xO (Coq_xO (Coq_xO (Coq_xO (Coq_xO (Coq_xI
    (Coq_xO Coq_xH))))))))))))))); ii_x = None; ii_alias =
    false } :: ({ ii_key = ('b'::('g'::('e'::('u'::[])))); ii_name =
    ('b'::('g'::('e'::('u'::[])))); ii_opcode = (Zpos (Coq_xI (Coq_xI (Coq_xO
    (Coq_xO (Coq_xO (Coq_xI Coq_xH))))))); ii_funct3 = (Zpos (Coq_xI (Coq_xI
    Coq_xH))); ii_funct7 = Z0; ii_type = ('B'::[]); ii_class =
    ('b'::('r'::('a'::('n'::('c'::('h'::('i'::('n'::('g'::[])))))))));
    ii_mask = (Zpos (Coq_xI (Coq_xI (Coq_xI (Coq_xI (Coq_xI (Coq_xI (Coq_xI
    (Coq_xO (Coq_xO (Coq_xO (Coq_xO (Coq_xO (Coq_xI (Coq_xI
    Coq_xH))))))))))))))); ii_val = (Zpos (Coq_xI (Coq_xI (Coq_xO (Coq_xO
    (Coq_xO (Coq_xI (Coq_xI (Coq_xO (Coq_xO (Coq_xO (Coq_xO (Coq_xO (Coq_xI
    (Coq_xI Coq_xH))))))))))))))); ii_x = None; ii_alias =
    false } :: ({ ii_key = ('b'::('l'::('t'::[]))); ii_name =
    ('b'::('l'::('t'::[]))); ii_opcode = (Zpos (Coq_xI (Coq_xI (Coq_xO
    (Coq_xO (Coq_xO (Coq_xI Coq_xH))))))); ii_funct3 = (Zpos (Coq_xO (Coq_xO
    Coq_xH))); ii_funct7 = Z0; ii_type = ('B'::[]); ii_class =
    ('b'::('r'::('a'::('n'::('c'::('h'::('i'::('n'::('g'::[])))))))));
    ii_mask = (Zpos (Coq_xI (Coq_xI (Coq_xI (Coq_xI (Coq_xI (Coq_xI (Coq_xI
    (Coq_xO (Coq_xO (Coq_xO (Coq_xO (Coq_xO (Coq_xI (Coq_xI
    Coq_xH))))))))))))))); ii_val = (Zpos (Coq_xI (Coq_xI (Coq_xO (Coq_xO
    (Coq_xO (Coq_xI (Coq_xI (Coq_xO (Coq_xO (Coq_xO (Coq_xO (Coq_xO (Coq_xO
    (Coq_xO Coq_xH))))))))))))))); ii_x = None; ii_alias =
    false } :: ({ ii_key = ('b'::('l'::('t'::('u'::[])))); ii_name =
    ('b'::('l'::('t'::('u'::[])))); ii_opcode = (Zpos (Coq_xI (Coq_xI (Coq_xO
    (Coq_xO (Coq_xO (Coq_xI Coq_xH))))))); ii_funct3 = (Zpos (Coq_xO (Coq_xI
    Coq_xH))); ii_funct7 = Z0; ii_type = ('B'::[]); ii_class =
    ('b'::('r'::('a'::('n'::('c'::('h'::('i'::('n'::('g'::[])))))))));
    ii_mask = (Zpos (Coq_xI (Coq_xI (Coq_xI (Coq_xI (Coq_xI (Coq_xI (Coq_xI
    (Coq_xO (Coq_xO (Coq_xO (Coq_xO (Coq_xO (Coq_xI (Coq_xI
    Coq_xH))))))))))))))); ii_val = (Zpos (Coq_xI (Coq_xI (Coq_xO (Coq_xO
    (Coq_xO (Coq_xI (Coq_xI (Coq_xO (Coq_xO (Coq_xO (Coq_xO (Coq_xO (Coq_xO
    (Coq_xI Coq_xH))))))))))))))); ii_x = None; ii_alias =
    false } :: ({ ii_key = ('b'::('n'::('e'::[]))); ii_name =
    ('b'::('n'::('e'::[]))); ii_opcode = (Zpos (Coq_xI (Coq_xI (Coq_xO
    (Coq_xO (Coq_xO (Coq_xI Coq_xH))))))); ii_funct3 = (Zpos Coq_xH);
    ii_funct7 = Z0; ii_type = ('B'::[]); ii_class =
    ('b'::('r'::('a'::('n'::('c'::('h'::('i'::('n'::('g'::[])))))))));
    ii_mask = (Zpos (Coq_xI (Coq_xI (Coq_xI (Coq_xI (Coq_xI (Coq_xI (Coq_xI
    (Coq_xO (Coq_xO (Coq_xO (Coq_xO (Coq_xO (Coq_xI (Coq_xI
    Coq_xH))))))))))))))); ii_val = (Zpos (Coq_xI (Coq_xI (Coq_xO (Coq_xO
    (Coq_xO (Coq_xI (Coq_xI (Coq_xO (Coq_xO (Coq_xO (Coq_xO (Coq_xO
    Coq_xH))))))))))))); ii_x = None; ii_alias = false } :: ({ ii_key =
    ('j'::('a'::('l'::[]))); ii_name = ('j'::('a'::('l'::[]))); ii_opcode =
    (Zpos (Coq_xI (Coq_xI (Coq_xI (Coq_xI (Coq_xO (Coq_xI Coq_xH)))))));
    ii_funct3 = Z0; ii_funct7 = Z0; ii_type = ('J'::[]); ii_class =
    ('b'::('r'::('a'::('n'::('c'::('h'::('i'::('n'::('g'::[])))))))));
    ii_mask = (Zpos (Coq_xI (Coq_xI (Coq_xI (Coq_xI (Coq_xI (Coq_xI
    Coq_xH))))))); ii_val = (Zpos (Coq_xI (Coq_xI (Coq_xI (Coq_xI (Coq_xO
    (Coq_xI Coq_xH))))))); ii_x = None; ii_alias = false } :: ({ ii_key =
    ('j'::('a'::('l'::('r'::[])))); ii_name = ('j'::('a'::('l'::('r'::[]))));
    ii_opcode = (Zpos (Coq_xI (Coq_xI (Coq_xI (Coq_xO (Coq_xO (Coq_xI
    Coq_xH))))))); ii_funct3 = Z0; ii_funct7 = Z0; ii_type = ('I'::[]);
    ii_class =
    ('b'::('r'::('a'::('n'::('c'::('h'::('i'::('n'::('g'::[])))))))));
    ii_mask = (Zpos (Coq_xI (Coq_xI (Coq_xI (Coq_xI (Coq_xI (Coq_xI (Coq_xI
    (Coq_xO (Coq_xO (Coq_xO (Coq_xO (Coq_xO (Coq_xI (Coq_xI
    Coq_xH))))))))))))))); ii_val = (Zpos (Coq_xI (Coq_xI (Coq_xI (Coq_xO
    (Coq_xO (Coq_xI Coq_xH))))))); ii_x = None; ii_alias =
    false } :: ({ ii_key = ('l'::('b'::[])); ii_name = ('l'::('b'::[]));
    ii_opcode = (Zpos (Coq_xI Coq_xH)); ii_funct3 = Z0; ii_funct7 = Z0;
    ii_type = ('I'::[]); ii_class =
    ('m'::('e'::('m'::('o'::('r'::('y'::[])))))); ii_mask = (Zpos (Coq_xI
    (Coq_xI (Coq_xI (Coq_xI (Coq_xI (Coq_xI (Coq_xI (Coq_xO (Coq_xO (Coq_xO
    (Coq_xO (Coq_xO (Coq_xI (Coq_xI Coq_xH))))))))))))))); ii_val = (Zpos
    (Coq_xI Coq_xH)); ii_x = None; ii_alias = false } :: ({ ii_key =
    ('l'::('b'::('u'::[]))); ii_name = ('l'::('b'::('u'::[]))); ii_opcode =
    (Zpos (Coq_xI Coq_xH)); ii_funct3 = (Zpos (Coq_xO (Coq_xO Coq_xH)));
    ii_funct7 = Z0; ii_type = ('I'::[]); ii_class =
    ('m'::('e'::('m'::('o'::('r'::('y'::[])))))); ii_mask = (Zpos (Coq_xI
    (Coq_xI (Coq_xI (Coq_xI (Coq_xI (Coq_xI (Coq_xI (Coq_xO (Coq_xO (Coq_xO
    (Coq_xO (Coq_xO (Coq_xI (Coq_xI Coq_xH))))))))))))))); ii_val = (Zpos
    (Coq_xI (Coq_xI (Coq_xO (Coq_xO (Coq_xO (Coq_xO (Coq_xO (Coq_xO (Coq_xO
    (Coq_xO (Coq_xO (Coq_xO (Coq_xO (Coq_xO Coq_xH))))))))))))))); ii_x =
    None; ii_alias = false } :: ({ ii_key = ('l'::('d'::[])); ii_name =
    ('l'::('d'::[])); ii_opcode = (Zpos (Coq_xI Coq_xH)); ii_funct3 = (Zpos
    (Coq_xI Coq_xH)); ii_funct7 = Z0; ii_type = ('I'::[]); ii_class =
    ('m'::('e'::('m'::('o'::('r'::('y'::[])))))); ii_mask = (Zpos (Coq_xI
    (Coq_xI (Coq_xI (Coq_xI (Coq_xI (Coq_xI (Coq_xI (Coq_xO (Coq_xO (Coq_xO
    (Coq_xO (Coq_xO (Coq_xI (Coq_xI Coq_xH))))))))))))))); ii_val = (Zpos
    (Coq_xI (Coq_xI (Coq_xO (Coq_xO (Coq_xO (Coq_xO (Coq_xO (Coq_xO (Coq_xO
    (Coq_xO (Coq_xO (Coq_xO (Coq_xI Coq_xH)))))))))))))); ii_x = None;
    ii_alias = false } :: ({ ii_key = ('l'::('h'::[])); ii_name =
    ('l'::('h'::[])); ii_opcode = (Zpos (Coq_xI Coq_xH)); ii_funct3 = (Zpos
    Coq_xH); ii_funct7 = Z0; ii_type = ('I'::[]); ii_class =
    ('m'::('e'::('m'::('o'::('r'::('y'::[])))))); ii_mask = (Zpos (Coq_xI
    (Coq_xI (Coq_xI (Coq_xI (Coq_xI (Coq_xI (Coq_xI (Coq_xO (Coq_xO (Coq_xO
    (Coq_xO (Coq_xO (Coq_xI (Coq_xI Coq_xH))))))))))))))); ii_val = (Zpos
    (Coq_xI (Coq_xI (Coq_xO (Coq_xO (Coq_xO (Coq_xO (Coq_xO (Coq_xO (Coq_xO
    (Coq_xO (Coq_xO (Coq_xO Coq_xH))))))))))))); ii_x = None; ii_alias =
    false } :: ({ ii_key = ('l'::('h'::('u'::[]))); ii_name =
    ('l'::('h'::('u'::[]))); ii_opcode = (Zpos (Coq_xI Coq_xH)); ii_funct3 =
    (Zpos (Coq_xI (Coq_xO Coq_xH))); ii_funct7 = Z0; ii_type = ('I'::[]);
    ii_class = ('m'::('e'::('m'::('o'::('r'::('y'::[])))))); ii_mask = (Zpos
    (Coq_xI (Coq_xI (Coq_xI (Coq_xI (Coq_xI (Coq_xI (Coq_xI (Coq_xO (Coq_xO
    (Coq_xO (Coq_xO (Coq_xO (Coq_xI (Coq_xI Coq_xH))))))))))))))); ii_val =
    (Zpos (Coq_xI (Coq_xI (Coq_xO (Coq_xO (Coq_xO (Coq_xO (Coq_xO (Coq_xO
    (Coq_xO (Coq_xO (Coq_xO (Coq_xO (Coq_xI (Coq_xO Coq_xH)))))))))))))));
    ii_x = None; ii_alias = false } :: ({ ii_key = ('l'::('w'::[]));
    ii_name = ('l'::('w'::[])); ii_opcode = (Zpos (Coq_xI Coq_xH));
    ii_funct3 = (Zpos (Coq_xO Coq_xH)); ii_funct7 = Z0; ii_type = ('I'::[]);
    ii_class = ('m'::('e'::('m'::('o'::('r'::('y'::[])))))); ii_mask = (Zpos
    (Coq_xI (Coq_xI (Coq_xI (Coq_xI (Coq_xI (Coq_xI (Coq_xI (Coq_xO (Coq_xO
    (Coq_xO (Coq_xO (Coq_xO (Coq_xI (Coq_xI Coq_xH))))))))))))))); ii_val =
    (Zpos (Coq_xI (Coq_xI (Coq_xO (Coq_xO (Coq_xO (Coq_xO (Coq_xO (Coq_xO
    (Coq_xO (Coq_xO (Coq_xO (Coq_xO (Coq_xO Coq_xH)))))))))))))); ii_x =
    None; ii_alias = false } :: ({ ii_key = ('l'::('w'::('u'::[])));
    ii_name = ('l'::('w'::('u'::[]))); ii_opcode = (Zpos (Coq_xI Coq_xH));
    ii_funct3 = (Zpos (Coq_xO (Coq_xI Coq_xH))); ii_funct7 = Z0; ii_type =
    ('I'::[]); ii_class = ('m'::('e'::('m'::('o'::('r'::('y'::[]))))));
    ii_mask = (Zpos (Coq_xI (Coq_xI (Coq_xI (Coq_xI (Coq_xI (Coq_xI (Coq_xI
    (Coq_xO (Coq_xO (Coq_xO (Coq_xO (Coq_xO (Coq_xI (Coq_xI
    Coq_xH))))))))))))))); ii_val = (Zpos (Coq_xI (Coq_xI (Coq_xO (Coq_xO
    (Coq_xO (Coq_xO (Coq_xO (Coq_xO (Coq_xO (Coq_xO (Coq_xO (Coq_xO (Coq_xO
    (Coq_xI Coq_xH))))))))))))))); ii_x = None; ii_alias =
    false } :: ({ ii_key = ('l'::('u'::('i'::[]))); ii_name =
    ('l'::('u'::('i'::[]))); ii_opcode = (Zpos (Coq_xI (Coq_xI (Coq_xI
    (Coq_xO (Coq_xI Coq_xH)))))); ii_funct3 = Z0; ii_funct7 = Z0; ii_type =
    ('U'::[]); ii_class =
    ('a'::('r'::('i'::('t'::('h'::('m'::('e'::('t'::('i'::('c'::[]))))))))));
    ii_mask = (Zpos (Coq_xI (Coq_xI (Coq_xI (Coq_xI (Coq_xI (Coq_xI
    Coq_xH))))))); ii_val = (Zpos (Coq_xI (Coq_xI (Coq_xI (Coq_xO (Coq_xI
    Coq_xH)))))); ii_x = None; ii_alias = false } :: ({ ii_key =
    ('m'::('u'::('l'::[]))); ii_name = ('m'::('u'::('l'::[]))); ii_opcode =
    (Zpos (Coq_xI (Coq_xI (Coq_xO (Coq_xO (Coq_xI Coq_xH)))))); ii_funct3 =
    Z0; ii_funct7 = (Zpos Coq_xH); ii_type = ('R'::[]); ii_class =
    ('a'::('r'::('i'::('t'::('h'::('m'::('e'::('t'::('i'::('c'::[]))))))))));
    ii_mask = (Zpos (Coq_xI (Coq_xI (Coq_xI (Coq_xI (Coq_xI (Coq_xI (Coq_xI
    (Coq_xO (Coq_xO (Coq_xO (Coq_xO (Coq_xO (Coq_xI (Coq_xI (Coq_xI (Coq_xO
    (Coq_xO (Coq_xO (Coq_xO (Coq_xO (Coq_xO (Coq_xO (Coq_xO (Coq_xO (Coq_xO
    (Coq_xI (Coq_xI (Coq_xI (Coq_xI (Coq_xI (Coq_xI
    Coq_xH)))))))))))))))))))))))))))))))); ii_val = (Zpos (Coq_xI (Coq_xI
    (Coq_xO (Coq_xO (Coq_xI (Coq_xI (Coq_xO (Coq_xO (Coq_xO (Coq_xO (Coq_xO
    (Coq_xO (Coq_xO (Coq_xO (Coq_xO (Coq_xO (Coq_xO (Coq_xO (Coq_xO (Coq_xO
    (Coq_xO (Coq_xO (Coq_xO (Coq_xO (Coq_xO Coq_xH))))))))))))))))))))))))));
    ii_x = None; ii_alias = false } :: ({ ii_key =
    ('m'::('u'::('l'::('h'::[])))); ii_name = ('m'::('u'::('l'::('h'::[]))));
    ii_opcode = (Zpos (Coq_xI (Coq_xI (Coq_xO (Coq_xO (Coq_xI Coq_xH))))));
    ii_funct3 = (Zpos Coq_xH); ii_funct7 = (Zpos Coq_xH); ii_type =
    ('R'::[]); ii_class =
    ('a'::('r'::('i'::('t'::('h'::('m'::('e'::('t'::('i'::('c'::[]))))))))));
    ii_mask = (Zpos (Coq_xI (Coq_xI (Coq_xI (Coq_xI (Coq_xI (Coq_xI (Coq_xI
    (Coq_xO (Coq_xO (Coq_xO (Coq_xO (Coq_xO (Coq_xI (Coq_xI (Coq_xI (Coq_xO
    (Coq_xO (Coq_xO (Coq_xO (Coq_xO (Coq_xO (Coq_xO (Coq_xO (Coq_xO (Coq_xO
    (Coq_xI (Coq_xI (Coq_xI (Coq_xI (Coq_xI (Coq_xI
    Coq_xH)))))))))))))))))))))))))))))))); ii_val = (Zpos (Coq_xI (Coq_xI
    (Coq_xO (Coq_xO (Coq_xI (Coq_xI (Coq_xO (Coq_xO (Coq_xO (Coq_xO (Coq_xO
    (Coq_xO (Coq_xI (Coq_xO (Coq_xO (Coq_xO (Coq_xO (Coq_xO (Coq_xO (Coq_xO
    (Coq_xO (Coq_xO (Coq_xO (Coq_xO (Coq_xO Coq_xH))))))))))))))))))))))))));
    ii_x = None; ii_alias = false } :: ({ ii_key =
    ('m'::('u'::('l'::('h'::('s'::('u'::[])))))); ii_name =
    ('m'::('u'::('l'::('h'::('s'::('u'::[])))))); ii_opcode = (Zpos (Coq_xI
    (Coq_xI (Coq_xO (Coq_xO (Coq_xI Coq_xH)))))); ii_funct3 = (Zpos (Coq_xO
    Coq_xH)); ii_funct7 = (Zpos Coq_xH); ii_type = ('R'::[]); ii_class =
    ('a'::('r'::('i'::('t'::('h'::('m'::('e'::('t'::('i'::('c'::[]))))))))));
    ii_mask = (Zpos (Coq_xI (Coq_xI (Coq_xI (Coq_xI (Coq_xI (Coq_xI (Coq_xI
    (Coq_xO (Coq_xO (Coq_xO (Coq_xO (Coq_xO (Coq_xI (Coq_xI (Coq_xI (Coq_xO
    (Coq_xO (Coq_xO (Coq_xO (Coq_xO (Coq_xO (Coq_xO (Coq_xO (Coq_xO (Coq_xO
    (Coq_xI (Coq_xI (Coq_xI (Coq_xI (Coq_xI (Coq_xI
    Coq_xH)))))))))))))))))))))))))))))))); ii_val = (Zpos (Coq_xI (Coq_xI
    (Coq_xO (Coq_xO (Coq_xI (Coq_xI (Coq_xO (Coq_xO (Coq_xO (Coq_xO (Coq_xO
    (Coq_xO (Coq_xO (Coq_xI (Coq_xO (Coq_xO (Coq_xO (Coq_xO (Coq_xO (Coq_xO
    (Coq_xO (Coq_xO (Coq_xO (Coq_xO (Coq_xO Coq_xH))))))))))))))))))))))))));
    ii_x = None; ii_alias = false } :: ({ ii_key =
    ('m'::('u'::('l'::('h'::('u'::[]))))); ii_name =
    ('m'::('u'::('l'::('h'::('u'::[]))))); ii_opcode = (Zpos (Coq_xI (Coq_xI
    (Coq_xO (Coq_xO (Coq_xI Coq_xH)))))); ii_funct3 = (Zpos (Coq_xI Coq_xH));
    ii_funct7 = (Zpos Coq_xH); ii_type = ('R'::[]); ii_class =
    ('a'::('r'::('i'::('t'::('h'::('m'::('e'::('t'::('i'::('c'::[]))))))))));
    ii_mask = (Zpos (Coq_xI (Coq_xI (Coq_xI (Coq_xI (Coq_xI (Coq_xI (Coq_xI
    (Coq_xO (Coq_xO (Coq_xO (Coq_xO (Coq_xO (Coq_xI (Coq_xI (Coq_xI (Coq_xO
    (Coq_xO (Coq_xO (Coq_xO (Coq_xO (Coq_xO (Coq_xO (Coq_xO (Coq_xO (Coq_xO
    (Coq_xI (Coq_xI (Coq_xI (Coq_xI (Coq_xI (Coq_xI
    Coq_xH)))))))))))))))))))))))))))))))); ii_val = (Zpos (Coq_xI (Coq_xI
    (Coq_xO (Coq_xO (Coq_xI (Coq_xI (Coq_xO (Coq_xO (Coq_xO (Coq_xO (Coq_xO
    (Coq_xO (Coq_xI (Coq_xI (Coq_xO (Coq_xO (Coq_xO (Coq_xO (Coq_xO (Coq_xO
    (Coq_xO (Coq_xO (Coq_xO (Coq_xO (Coq_xO Coq_xH))))))))))))))))))))))))));
    ii_x = None; ii_alias = false } :: ({ ii_key =
    ('m'::('u'::('l'::('w'::[])))); ii_name = ('m'::('u'::('l'::('w'::[]))));
    ii_opcode = (Zpos (Coq_xI (Coq_xI (Coq_xO (Coq_xI (Coq_xI Coq_xH))))));
    ii_funct3 = Z0; ii_funct7 = (Zpos Coq_xH); ii_type = ('R'::[]);
    ii_class =
    ('a'::('r'::('i'::('t'::('h'::('m'::('e'::('t'::('i'::('c'::[]))))))))));
    ii_mask = (Zpos (Coq_xI (Coq_xI (Coq_xI (Coq_xI (Coq_xI (Coq_xI (Coq_xI
    (Coq_xO (Coq_xO (Coq_xO (Coq_xO (Coq_xO (Coq_xI (Coq_xI (Coq_xI (Coq_xO
    (Coq_xO (Coq_xO (Coq_xO (Coq_xO (Coq_xO (Coq_xO (Coq_xO (Coq_xO (Coq_xO
    (Coq_xI (Coq_xI (Coq_xI (Coq_xI (Coq_xI (Coq_xI
    Coq_xH)))))))))))))))))))))))))))))))); ii_val = (Zpos (Coq_xI (Coq_xI
    (Coq_xO (Coq_xI (Coq_xI (Coq_xI (Coq_xO (Coq_xO (Coq_xO (Coq_xO (Coq_xO
    (Coq_xO (Coq_xO (Coq_xO (Coq_xO (Coq_xO (Coq_xO (Coq_xO (Coq_xO (Coq_xO
    (Coq_xO (Coq_xO (Coq_xO (Coq_xO (Coq_xO Coq_xH))))))))))))))))))))))))));
    ii_x = None; ii_alias = false } :: ({ ii_key = ('o'::('r'::('r'::[])));
    ii_name = ('o'::('r'::('r'::[]))); ii_opcode = (Zpos (Coq_xI (Coq_xI
    (Coq_xO (Coq_xO (Coq_xI Coq_xH)))))); ii_funct3 = (Zpos (Coq_xO (Coq_xI
    Coq_xH))); ii_funct7 = Z0; ii_type = ('R'::[]); ii_class =
    ('a'::('r'::('i'::('t'::('h'::('m'::('e'::('t'::('i'::('c'::[]))))))))));
    ii_mask = (Zpos (Coq_xI (Coq_xI (Coq_xI (Coq_xI (Coq_xI (Coq_xI (Coq_xI
    (Coq_xO (Coq_xO (Coq_xO (Coq_xO (Coq_xO (Coq_xI (Coq_xI (Coq_xI (Coq_xO
    (Coq_xO (Coq_xO (Coq_xO (Coq_xO (Coq_xO (Coq_xO (Coq_xO (Coq_xO (Coq_xO
    (Coq_xI (Coq_xI (Coq_xI (Coq_xI (Coq_xI (Coq_xI
    Coq_xH)))))))))))))))))))))))))))))))); ii_val = (Zpos (Coq_xI (Coq_xI
    (Coq_xO (Coq_xO (Coq_xI (Coq_xI (Coq_xO (Coq_xO (Coq_xO (Coq_xO (Coq_xO
    (Coq_xO (Coq_xO (Coq_xI Coq_xH))))))))))))))); ii_x = None; ii_alias =
    false } :: ({ ii_key = ('o'::('r'::('i'::[]))); ii_name =
    ('o'::('r'::('i'::[]))); ii_opcode = (Zpos (Coq_xI (Coq_xI (Coq_xO
    (Coq_xO Coq_xH))))); ii_funct3 = (Zpos (Coq_xO (Coq_xI Coq_xH)));
    ii_funct7 = Z0; ii_type = ('I'::[]); ii_class =
    ('a'::('r'::('i'::('t'::('h'::('m'::('e'::('t'::('i'::('c'::[]))))))))));
    ii_mask = (Zpos (Coq_xI (Coq_xI (Coq_xI (Coq_xI (Coq_xI (Coq_xI (Coq_xI
    (Coq_xO (Coq_xO (Coq_xO (Coq_xO (Coq_xO (Coq_xI (Coq_xI
    Coq_xH))))))))))))))); ii_val = (Zpos (Coq_xI (Coq_xI (Coq_xO (Coq_xO
    (Coq_xI (Coq_xO (Coq_xO (Coq_xO (Coq_xO (Coq_xO (Coq_xO (Coq_xO (Coq_xO
    (Coq_xI Coq_xH))))))))))))))); ii_x = None; ii_alias =
    false } :: ({ ii_key = ('s'::('b'::[])); ii_name = ('s'::('b'::[]));
    ii_opcode = (Zpos (Coq_xI (Coq_xI (Coq_xO (Coq_xO (Coq_xO Coq_xH))))));
    ii_funct3 = Z0; ii_funct7 = Z0; ii_type = ('S'::[]); ii_class =
    ('m'::('e'::('m'::('o'::('r'::('y'::[])))))); ii_mask = (Zpos (Coq_xI
    (Coq_xI (Coq_xI (Coq_xI (Coq_xI (Coq_xI (Coq_xI (Coq_xO (Coq_xO (Coq_xO
    (Coq_xO (Coq_xO (Coq_xI (Coq_xI Coq_xH))))))))))))))); ii_val = (Zpos
    (Coq_xI (Coq_xI (Coq_xO (Coq_xO (Coq_xO Coq_xH)))))); ii_x = None;
    ii_alias = false } :: ({ ii_key = ('s'::('d'::[])); ii_name =
    ('s'::('d'::[])); ii_opcode = (Zpos (Coq_xI (Coq_xI (Coq_xO (Coq_xO
    (Coq_xO Coq_xH)))))); ii_funct3 = (Zpos (Coq_xI Coq_xH)); ii_funct7 = Z0;
    ii_type = ('S'::[]); ii_class =
    ('m'::('e'::('m'::('o'::('r'::('y'::[])))))); ii_mask = (Zpos (Coq_xI
    (Coq_xI (Coq_xI (Coq_xI (Coq_xI (Coq_xI (Coq_xI (Coq_xO (Coq_xO (Coq_xO
    (Coq_xO (Coq_xO (Coq_xI (Coq_xI Coq_xH))))))))))))))); ii_val = (Zpos
    (Coq_xI (Coq_xI (Coq_xO (Coq_xO (Coq_xO (Coq_xI (Coq_xO (Coq_xO (Coq_xO
    (Coq_xO (Coq_xO (Coq_xO (Coq_xI Coq_xH)))))))))))))); ii_x = None;
    ii_alias = false } :: ({ ii_key = ('s'::('h'::[])); ii_name =
    ('s'::('h'::[])); ii_opcode = (Zpos (Coq_xI (Coq_xI (Coq_xO (Coq_xO
    (Coq_xO Coq_xH)))))); ii_funct3 = (Zpos Coq_xH); ii_funct7 = Z0;
    ii_type = ('S'::[]); ii_class =
    ('m'::('e'::('m'::('o'::('r'::('y'::[])))))); ii_mask = (Zpos (Coq_xI
    (Coq_xI (Coq_xI (Coq_xI (Coq_xI (Coq_xI (Coq_xI (Coq_xO (Coq_xO (Coq_xO
    (Coq_xO (Coq_xO (Coq_xI (Coq_xI Coq_xH))))))))))))))); ii_val = (Zpos
    (Coq_xI (Coq_xI (Coq_xO (Coq_xO (Coq_xO (Coq_xI (Coq_xO (Coq_xO (Coq_xO
    (Coq_xO (Coq_xO (Coq_xO Coq_xH))))))))))))); ii_x = None; ii_alias =
    false } :: ({ ii_key = ('s'::('w'::[])); ii_name = ('s'::('w'::[]));
    ii_opcode = (Zpos (Coq_xI (Coq_xI (Coq_xO (Coq_xO (Coq_xO Coq_xH))))));
    ii_funct3 = (Zpos (Coq_xO Coq_xH)); ii_funct7 = Z0; ii_type = ('S'::[]);
    ii_class = ('m'::('e'::('m'::('o'::('r'::('y'::[])))))); ii_mask = (Zpos
    (Coq_xI (Coq_xI (Coq_xI (Coq_xI (Coq_xI (Coq_xI (Coq_xI (Coq_xO (Coq_xO
    (Coq_xO (Coq_xO (Coq_xO (Coq_xI (Coq_xI Coq_xH))))))))))))))); ii_val =
    (Zpos (Coq_xI (Coq_xI (Coq_xO (Coq_xO (Coq_xO (Coq_xI (Coq_xO (Coq_xO
    (Coq_xO (Coq_xO (Coq_xO (Coq_xO (Coq_xO Coq_xH)))))))))))))); ii_x =
    None; ii_alias = false } :: ({ ii_key = ('s'::('l'::('l'::[])));
    ii_name = ('s'::('l'::('l'::[]))); ii_opcode = (Zpos (Coq_xI (Coq_xI
    (Coq_xO (Coq_xO (Coq_xI Coq_xH)))))); ii_funct3 = (Zpos Coq_xH);
    ii_funct7 = Z0; ii_type = ('R'::[]); ii_class =
    ('a'::('r'::('i'::('t'::('h'::('m'::('e'::('t'::('i'::('c'::[]))))))))));
    ii_mask = (Zpos (Coq_xI (Coq_xI (Coq_xI (Coq_xI (Coq_xI (Coq_xI (Coq_xI
    (Coq_xO (Coq_xO (Coq_xO (Coq_xO (Coq_xO (Coq_xI (Coq_xI (Coq_xI (Coq_xO
    (Coq_xO (Coq_xO (Coq_xO (Coq_xO (Coq_xO (Coq_xO (Coq_xO (Coq_xO (Coq_xO
    (Coq_xI (Coq_xI (Coq_xI (Coq_xI (Coq_xI (Coq_xI
    Coq_xH)))))))))))))))))))))))))))))))); ii_val = (Zpos (Coq_xI (Coq_xI
    (Coq_xO (Coq_xO (Coq_xI (Coq_xI (Coq_xO (Coq_xO (Coq_xO (Coq_xO (Coq_xO
    (Coq_xO Coq_xH))))))))))))); ii_x = None; ii_alias =
    false } :: ({ ii_key = ('s'::('l'::('l'::('i'::[])))); ii_name =
    ('s'::('l'::('l'::('i'::[])))); ii_opcode = (Zpos (Coq_xI (Coq_xI (Coq_xO
    (Coq_xO Coq_xH))))); ii_funct3 = (Zpos Coq_xH); ii_funct7 = Z0; ii_type =
    ('I'::[]); ii_class =
    ('a'::('r'::('i'::('t'::('h'::('m'::('e'::('t'::('i'::('c'::[]))))))))));
    ii_mask = (Zpos (Coq_xI (Coq_xI (Coq_xI (Coq_xI (Coq_xI (Coq_xI (Coq_xI
    (Coq_xO (Coq_xO (Coq_xO (Coq_xO (Coq_xO (Coq_xI (Coq_xI (Coq_xI (Coq_xO
    (Coq_xO (Coq_xO (Coq_xO (Coq_xO (Coq_xO (Coq_xO (Coq_xO (Coq_xO (Coq_xO
    (Coq_xO (Coq_xI (Coq_xI (Coq_xI (Coq_xI (Coq_xI
    Coq_xH)))))))))))))))))))))))))))))))); ii_val = (Zpos (Coq_xI (Coq_xI
    (Coq_xO (Coq_xO (Coq_xI (Coq_xO (Coq_xO (Coq_xO (Coq_xO (Coq_xO (Coq_xO
    (Coq_xO Coq_xH))))))))))))); ii_x = None; ii_alias =
    false } :: ({ ii_key = ('s'::('l'::('l'::('i'::('w'::[]))))); ii_name =
    ('s'::('l'::('l'::('i'::('w'::[]))))); ii_opcode = (Zpos (Coq_xI (Coq_xI
    (Coq_xO (Coq_xI Coq_xH))))); ii_funct3 = (Zpos Coq_xH); ii_funct7 = Z0;
    ii_type = ('I'::[]); ii_class =
    ('a'::('r'::('i'::('t'::('h'::('m'::('e'::('t'::('i'::('c'::[]))))))))));
    ii_mask = (Zpos (Coq_xI (Coq_xI (Coq_xI (Coq_xI (Coq_xI (Coq_xI (Coq_xI
    (Coq_xO (Coq_xO (Coq_xO (Coq_xO (Coq_xO (Coq_xI (Coq_xI (Coq_xI (Coq_xO
    (Coq_xO (Coq_xO (Coq_xO (Coq_xO (Coq_xO (Coq_xO (Coq_xO (Coq_xO (Coq_xO
    (Coq_xO (Coq_xI (Coq_xI (Coq_xI (Coq_xI (Coq_xI
    Coq_xH)))))))))))))))))))))))))))))))); ii_val = (Zpos (Coq_xI (Coq_xI
    (Coq_xO (Coq_xI (Coq_xI (Coq_xO (Coq_xO (Coq_xO (Coq_xO (Coq_xO (Coq_xO
    (Coq_xO Coq_xH))))))))))))); ii_x = None; ii_alias =
    false } :: ({ ii_key = ('s'::('l'::('l'::('w'::[])))); ii_name =
    ('s'::('l'::('l'::('w'::[])))); ii_opcode = (Zpos (Coq_xI (Coq_xI (Coq_xO
    (Coq_xI (Coq_xI Coq_xH)))))); ii_funct3 = (Zpos Coq_xH); ii_funct7 = Z0;
    ii_type = ('R'::[]); ii_class =
    ('a'::('r'::('i'::('t'::('h'::('m'::('e'::('t'::('i'::('c'::[]))))))))));
    ii_mask = (Zpos (Coq_xI (Coq_xI (Coq_xI (Coq_xI (Coq_xI (Coq_xI (Coq_xI
    (Coq_xO (Coq_xO (Coq_xO (Coq_xO (Coq_xO (Coq_xI (Coq_xI (Coq_xI (Coq_xO
    (Coq_xO (Coq_xO (Coq_xO (Coq_xO (Coq_xO (Coq_xO (Coq_xO (Coq_xO (Coq_xO
    (Coq_xI (Coq_xI (Coq_xI (Coq_xI (Coq_xI (Coq_xI
    Coq_xH)))))))))))))))))))))))))))))))); ii_val = (Zpos (Coq_xI (Coq_xI
    (Coq_xO (Coq_xI (Coq_xI (Coq_xI (Coq_xO (Coq_xO (Coq_xO (Coq_xO (Coq_xO
    (Coq_xO Coq_xH))))))))))))); ii_x = None; ii_alias =
    false } :: ({ ii_key = ('s'::('l'::('t'::[]))); ii_name =
    ('s'::('l'::('t'::[]))); ii_opcode = (Zpos (Coq_xI (Coq_xI (Coq_xO
    (Coq_xO (Coq_xI Coq_xH)))))); ii_funct3 = (Zpos (Coq_xO Coq_xH));
    ii_funct7 = Z0; ii_type = ('R'::[]); ii_class =
    ('a'::('r'::('i'::('t'::('h'::('m'::('e'::('t'::('i'::('c'::[]))))))))));
    ii_mask = (Zpos (Coq_xI (Coq_xI (Coq_xI (Coq_xI (Coq_xI (Coq_xI (Coq_xI
    (Coq_xO (Coq_xO (Coq_xO (Coq_xO (Coq_xO (Coq_xI (Coq_xI (Coq_xI (Coq_xO
    (Coq_xO (Coq_xO (Coq_xO (Coq_xO (Coq_xO (Coq_xO (Coq_xO (Coq_xO (Coq_xO
    (Coq_xI (Coq_xI (Coq_xI (Coq_xI (Coq_xI (Coq_xI
    Coq_xH)))))))))))))))))))))))))))))))); ii_val = (Zpos (Coq_xI (Coq_xI
    (Coq_xO (Coq_xO (Coq_xI (Coq_xI (Coq_xO (Coq_xO (Coq_xO (Coq_xO (Coq_xO
    (Coq_xO (Coq_xO Coq_xH)))))))))))))); ii_x = None; ii_alias =
    false } :: ({ ii_key = ('s'::('l'::('t'::('i'::[])))); ii_name =
    ('s'::('l'::('t'::('i'::[])))); ii_opcode = (Zpos (Coq_xI (Coq_xI (Coq_xO
    (Coq_xO Coq_xH))))); ii_funct3 = (Zpos (Coq_xO Coq_xH)); ii_funct7 = Z0;
    ii_type = ('I'::[]); ii_class =
    ('a'::('r'::('i'::('t'::('h'::('m'::('e'::('t'::('i'::('c'::[]))))))))));
    ii_mask = (Zpos (Coq_xI (Coq_xI (Coq_xI (Coq_xI (Coq_xI (Coq_xI (Coq_xI
    (Coq_xO (Coq_xO (Coq_xO (Coq_xO (Coq_xO (Coq_xI (Coq_xI
    Coq_xH))))))))))))))); ii_val = (Zpos (Coq_xI (Coq_xI (Coq_xO (Coq_xO
    (Coq_xI (Coq_xO (Coq_xO (Coq_xO (Coq_xO (Coq_xO (Coq_xO (Coq_xO (Coq_xO
    Coq_xH)))))))))))))); ii_x = None; ii_alias = false } :: ({ ii_key =
    ('s'::('l'::('t'::('i'::('u'::[]))))); ii_name =
    ('s'::('l'::('t'::('i'::('u'::[]))))); ii_opcode = (Zpos (Coq_xI (Coq_xI
    (Coq_xO (Coq_xO Coq_xH))))); ii_funct3 = (Zpos (Coq_xI Coq_xH));
    ii_funct7 = Z0; ii_type = ('I'::[]); ii_class =
    ('a'::('r'::('i'::('t'::('h'::('m'::('e'::('t'::('i'::('c'::[]))))))))));
    ii_mask = (Zpos (Coq_xI (Coq_xI (Coq_xI (Coq_xI (Coq_xI (Coq_xI (Coq_xI
    (Coq_xO (Coq_xO (Coq_xO (Coq_xO (Coq_xO (Coq_xI (Coq_xI
    Coq_xH))))))))))))))); ii_val = (Zpos (Coq_xI (Coq_xI (Coq_xO (Coq_xO
    (Coq_xI (Coq_xO (Coq_xO (Coq_xO (Coq_xO (Coq_xO (Coq_xO (Coq_xO (Coq_xI
    Coq_xH)))))))))))))); ii_x = None; ii_alias = false } :: ({ ii_key =
    ('s'::('l'::('t'::('u'::[])))); ii_name = ('s'::('l'::('t'::('u'::[]))));
    ii_opcode = (Zpos (Coq_xI (Coq_xI (Coq_xO (Coq_xO (Coq_xI Coq_xH))))));
    ii_funct3 = (Zpos (Coq_xI Coq_xH)); ii_funct7 = Z0; ii_type = ('R'::[]);
    ii_class =
    ('a'::('r'::('i'::('t'::('h'::('m'::('e'::('t'::('i'::('c'::[]))))))))));
    ii_mask = (Zpos (Coq_xI (Coq_xI (Coq_xI (Coq_xI (Coq_xI (Coq_xI (Coq_xI
    (Coq_xO (Coq_xO (Coq_xO (Coq_xO (Coq_xO (Coq_xI (Coq_xI (Coq_xI (Coq_xO
    (Coq_xO (Coq_xO (Coq_xO (Coq_xO (Coq_xO (Coq_xO (Coq_xO (Coq_xO (Coq_xO
    (Coq_xI (Coq_xI (Coq_xI (Coq_xI (Coq_xI (Coq_xI
    Coq_xH)))))))))))))))))))))))))))))))); ii_val = (Zpos (Coq_xI (Coq_xI
    (Coq_xO (Coq_xO (Coq_xI (Coq_xI (Coq_xO (Coq_xO (Coq_xO (Coq_xO (Coq_xO
    (Coq_xO (Coq_xI Coq_xH)))))))))))))); ii_x = None; ii_alias =
    false } :: ({ ii_key = ('s'::('r'::('a'::[]))); ii_name =
    ('s'::('r'::('a'::[]))); ii_opcode = (Zpos (Coq_xI (Coq_xI (Coq_xO
    (Coq_xO (Coq_xI Coq_xH)))))); ii_funct3 = (Zpos (Coq_xI (Coq_xO
    Coq_xH))); ii_funct7 = (Zpos (Coq_xO (Coq_xO (Coq_xO (Coq_xO (Coq_xO
    Coq_xH)))))); ii_type = ('R'::[]); ii_class =
    ('a'::('r'::('i'::('t'::('h'::('m'::('e'::('t'::('i'::('c'::[]))))))))));
    ii_mask = (Zpos (Coq_xI (Coq_xI (Coq_xI (Coq_xI (Coq_xI (Coq_xI (Coq_xI
    (Coq_xO (Coq_xO (Coq_xO (Coq_xO (Coq_xO (Coq_xI (Coq_xI (Coq_xI (Coq_xO
    (Coq_xO (Coq_xO (Coq_xO (Coq_xO (Coq_xO (Coq_xO (Coq_xO (Coq_xO (Coq_xO
    (Coq_xI (Coq_xI (Coq_xI (Coq_xI (Coq_xI (Coq_xI
    Coq_xH)))))))))))))))))))))))))))))))); ii_val = (Zpos (Coq_xI (Coq_xI
    (Coq_xO (Coq_xO (Coq_xI (Coq_xI (Coq_xO (Coq_xO (Coq_xO (Coq_xO (Coq_xO
    (Coq_xO (Coq_xI (Coq_xO (Coq_xI (Coq_xO (Coq_xO (Coq_xO (Coq_xO (Coq_xO
    (Coq_xO (Coq_xO (Coq_xO (Coq_xO (Coq_xO (Coq_xO (Coq_xO (Coq_xO (Coq_xO
    (Coq_xO Coq_xH))))))))))))))))))))))))))))))); ii_x = None; ii_alias =
    false } :: ({ ii_key = ('s'::('r'::('a'::('i'::[])))); ii_name =
    ('s'::('r'::('a'::('i'::[])))); ii_opcode = (Zpos (Coq_xI (Coq_xI (Coq_xO
    (Coq_xO Coq_xH))))); ii_funct3 = (Zpos (Coq_xI (Coq_xO Coq_xH)));
    ii_funct7 = (Zpos (Coq_xO (Coq_xO (Coq_xO (Coq_xO (Coq_xO Coq_xH))))));
    ii_type = ('I'::[]); ii_class =
    ('a'::('r'::('i'::('t'::('h'::('m'::('e'::('t'::('i'::('c'::[]))))))))));
    ii_mask = (Zpos (Coq_xI (Coq_xI (Coq_xI (Coq_xI (Coq_xI (Coq_xI (Coq_xI
    (Coq_xO (Coq_xO (Coq_xO (Coq_xO (Coq_xO (Coq_xI (Coq_xI (Coq_xI (Coq_xO
    (Coq_xO (Coq_xO (Coq_xO (Coq_xO (Coq_xO (Coq_xO (Coq_xO (Coq_xO (Coq_xO
    (Coq_xO (Coq_xI (Coq_xI (Coq_xI (Coq_xI (Coq_xI
    Coq_xH)))))))))))))))))))))))))))))))); ii_val = (Zpos (Coq_xI (Coq_xI
    (Coq_xO (Coq_xO (Coq_xI (Coq_xO (Coq_xO (Coq_xO (Coq_xO (Coq_xO (Coq_xO
    (Coq_xO (Coq_xI (Coq_xO (Coq_xI (Coq_xO (Coq_xO (Coq_xO (Coq_xO (Coq_xO
    (Coq_xO (Coq_xO (Coq_xO (Coq_xO (Coq_xO (Coq_xO (Coq_xO (Coq_xO (Coq_xO
    (Coq_xO Coq_xH))))))))))))))))))))))))))))))); ii_x = None; ii_alias =
    false } :: ({ ii_key = ('s'::('r'::('a'::('i'::('w'::[]))))); ii_name =
    ('s'::('r'::('a'::('i'::('w'::[]))))); ii_opcode = (Zpos (Coq_xI (Coq_xI
    (Coq_xO (Coq_xI Coq_xH))))); ii_funct3 = (Zpos (Coq_xI (Coq_xO Coq_xH)));
    ii_funct7 = (Zpos (Coq_xO (Coq_xO (Coq_xO (Coq_xO (Coq_xO Coq_xH))))));
    ii_type = ('I'::[]); ii_class =
    ('a'::('r'::('i'::('t'::('h'::('m'::('e'::('t'::('i'::('c'::[]))))))))));
    ii_mask = (Zpos (Coq_xI (Coq_xI (Coq_xI (Coq_xI (Coq_xI (Coq_xI (Coq_xI
    (Coq_xO (Coq_xO (Coq_xO (Coq_xO (Coq_xO (Coq_xI (Coq_xI (Coq_xI (Coq_xO
    (Coq_xO (Coq_xO (Coq_xO (Coq_xO (Coq_xO (Coq_xO (Coq_xO (Coq_xO (Coq_xO
    (Coq_xO (Coq_xI (Coq_xI (Coq_xI (Coq_xI (Coq_xI
    Coq_xH)))))))))))))))))))))))))))))))); ii_val = (Zpos (Coq_xI (Coq_xI
    (Coq_xO (Coq_xI (Coq_xI (Coq_xO (Coq_xO (Coq_xO (Coq_xO (Coq_xO (Coq_xO
    (Coq_xO (Coq_xI (Coq_xO (Coq_xI (Coq_xO (Coq_xO (Coq_xO (Coq_xO (Coq_xO
    (Coq_xO (Coq_xO (Coq_xO (Coq_xO (Coq_xO (Coq_xO (Coq_xO (Coq_xO (Coq_xO
    (Coq_xO Coq_xH))))))))))))))))))))))))))))))); ii_x = None; ii_alias =
    false } :: ({ ii_key = ('s'::('r'::('a'::('w'::[])))); ii_name =
    ('s'::('r'::('a'::('w'::[])))); ii_opcode = (Zpos (Coq_xI (Coq_xI (Coq_xO
    (Coq_xI (Coq_xI Coq_xH)))))); ii_funct3 = (Zpos (Coq_xI (Coq_xO
    Coq_xH))); ii_funct7 = (Zpos (Coq_xO (Coq_xO (Coq_xO (Coq_xO (Coq_xO
    Coq_xH)))))); ii_type = ('R'::[]); ii_class =
    ('a'::('r'::('i'::('t'::('h'::('m'::('e'::('t'::('i'::('c'::[]))))))))));
    ii_mask = (Zpos (Coq_xI (Coq_xI (Coq_xI (Coq_xI (Coq_xI (Coq_xI (Coq_xI
    (Coq_xO (Coq_xO (Coq_xO (Coq_xO (Coq_xO (Coq_xI (Coq_xI (Coq_xI (Coq_xO
    (Coq_xO (Coq_xO (Coq_xO (Coq_xO (Coq_xO (Coq_xO (Coq_xO (Coq_xO (Coq_xO
    (Coq_xI (Coq_xI (Coq_xI (Coq_xI (Coq_xI (Coq_xI
    Coq_xH)))))))))))))))))))))))))))))))); ii_val = (Zpos (Coq_xI (Coq_xI
    (Coq_xO (Coq_xI (Coq_xI (Coq_xI (Coq_xO (Coq_xO (Coq_xO (Coq_xO (Coq_xO
    (Coq_xO (Coq_xI (Coq_xO (Coq_xI (Coq_xO (Coq_xO (Coq_xO (Coq_xO (Coq_xO
    (Coq_xO (Coq_xO (Coq_xO (Coq_xO (Coq_xO (Coq_xO (Coq_xO (Coq_xO (Coq_xO
    (Coq_xO Coq_xH))))))))))))))))))))))))))))))); ii_x = None; ii_alias =
    false } :: ({ ii_key = ('s'::('r'::('l'::[]))); ii_name =
    ('s'::('r'::('l'::[]))); ii_opcode = (Zpos (Coq_xI (Coq_xI (Coq_xO
    (Coq_xO (Coq_xI Coq_xH)))))); ii_funct3 = (Zpos (Coq_xI (Coq_xO
    Coq_xH))); ii_funct7 = Z0; ii_type = ('R'::[]); ii_class =
    ('a'::('r'::('i'::('t'::('h'::('m'::('e'::('t'::('i'::('c'::[]))))))))));
    ii_mask = (Zpos (Coq_xI (Coq_xI (Coq_xI (Coq_xI (Coq_xI (Coq_xI (Coq_xI
    (Coq_xO (Coq_xO (Coq_xO (Coq_xO (Coq_xO (Coq_xI (Coq_xI (Coq_xI (Coq_xO
    (Coq_xO (Coq_xO (Coq_xO (Coq_xO (Coq_xO (Coq_xO (Coq_xO (Coq_xO (Coq_xO
    (Coq_xI (Coq_xI (Coq_xI (Coq_xI (Coq_xI (Coq_xI
    Coq_xH)))))))))))))))))))))))))))))))); ii_val = (Zpos (Coq_xI (Coq_xI
    (Coq_xO (Coq_xO (Coq_xI (Coq_xI (Coq_xO (Coq_xO (Coq_xO (Coq_xO (Coq_xO
    (Coq_xO (Coq_xI (Coq_xO Coq_xH))))))))))))))); ii_x = None; ii_alias =
    false } :: ({ ii_key = ('s'::('r'::('l'::('i'::[])))); ii_name =
    ('s'::('r'::('l'::('i'::[])))); ii_opcode = (Zpos (Coq_xI (Coq_xI (Coq_xO
    (Coq_xO Coq_xH))))); ii_funct3 = (Zpos (Coq_xI (Coq_xO Coq_xH)));
    ii_funct7 = Z0; ii_type = ('I'::[]); ii_class =
    ('a'::('r'::('i'::('t'::('h'::('m'::('e'::('t'::('i'::('c'::[]))))))))));
    ii_mask = (Zpos (Coq_xI (Coq_xI (Coq_xI (Coq_xI (Coq_xI (Coq_xI (Coq_xI
    (Coq_xO (Coq_xO (Coq_xO (Coq_xO (Coq_xO (Coq_xI (Coq_xI (Coq_xI (Coq_xO
    (Coq_xO (Coq_xO (Coq_xO (Coq_xO (Coq_xO (Coq_xO (Coq_xO (Coq_xO (Coq_xO
    (Coq_xO (Coq_xI (Coq_xI (Coq_xI (Coq_xI (Coq_xI
    Coq_xH)))))))))))))))))))))))))))))))); ii_val = (Zpos (Coq_xI (Coq_xI
    (Coq_xO (Coq_xO (Coq_xI (Coq_xO (Coq_xO (Coq_xO (Coq_xO (Coq_xO (Coq_xO
    (Coq_xO (Coq_xI (Coq_xO Coq_xH))))))))))))))); ii_x = None; ii_alias =
    false } :: ({ ii_key = ('s'::('r'::('l'::('i'::('w'::[]))))); ii_name =
    ('s'::('r'::('l'::('i'::('w'::[]))))); ii_opcode = (Zpos (Coq_xI (Coq_xI
    (Coq_xO (Coq_xI Coq_xH))))); ii_funct3 = (Zpos (Coq_xI (Coq_xO Coq_xH)));
    ii_funct7 = Z0; ii_type = ('I'::[]); ii_class =
    ('a'::('r'::('i'::('t'::('h'::('m'::('e'::('t'::('i'::('c'::[]))))))))));
    ii_mask = (Zpos (Coq_xI (Coq_xI (Coq_xI (Coq_xI (Coq_xI (Coq_xI (Coq_xI
    (Coq_xO (Coq_xO (Coq_xO (Coq_xO (Coq_xO (Coq_xI (Coq_xI (Coq_xI (Coq_xO
    (Coq_xO (Coq_xO (Coq_xO (Coq_xO (Coq_xO (Coq_xO (Coq_xO (Coq_xO (Coq_xO
    (Coq_xO (Coq_xI (Coq_xI (Coq_xI (Coq_xI (Coq_xI
    Coq_xH)))))))))))))))))))))))))))))))); ii_val = (Zpos (Coq_xI (Coq_xI
    (Coq_xO (Coq_xI (Coq_xI (Coq_xO (Coq_xO (Coq_xO (Coq_xO (Coq_xO (Coq_xO
    (Coq_xO (Coq_xI (Coq_xO Coq_xH))))))))))))))); ii_x = None; ii_alias =
    false } :: ({ ii_key = ('s'::('r'::('l'::('w'::[])))); ii_name =
    ('s'::('r'::('l'::('w'::[])))); ii_opcode = (Zpos (Coq_xI (Coq_xI (Coq_xO
    (Coq_xI (Coq_xI Coq_xH)))))); ii_funct3 = (Zpos (Coq_xI (Coq_xO
    Coq_xH))); ii_funct7 = Z0; ii_type = ('R'::[]); ii_class =
    ('a'::('r'::('i'::('t'::('h'::('m'::('e'::('t'::('i'::('c'::[]))))))))));
    ii_mask = (Zpos (Coq_xI (Coq_xI (Coq_xI (Coq_xI (Coq_xI (Coq_xI (Coq_xI
    (Coq_xO (Coq_xO (Coq_xO (Coq_xO (Coq_xO (Coq_xI (Coq_xI (Coq_xI (Coq_xO
    (Coq_xO (Coq_xO (Coq_xO (Coq_xO (Coq_xO (Coq_xO (Coq_xO (Coq_xO (Coq_xO
    (Coq_xI (Coq_xI (Coq_xI (Coq_xI (Coq_xI (Coq_xI
    Coq_xH)))))))))))))))))))))))))))))))); ii_val = (Zpos (Coq_xI (Coq_xI
    (Coq_xO (Coq_xI (Coq_xI (Coq_xI (Coq_xO (Coq_xO (Coq_xO (Coq_xO (Coq_xO
    (Coq_xO (Coq_xI (Coq_xO Coq_xH))))))))))))))); ii_x = None; ii_alias =
    false } :: ({ ii_key = ('s'::('u'::('b'::[]))); ii_name =
    ('s'::('u'::('b'::[]))); ii_opcode = (Zpos (Coq_xI (Coq_xI (Coq_xO
    (Coq_xO (Coq_xI Coq_xH)))))); ii_funct3 = Z0; ii_funct7 = (Zpos (Coq_xO
    (Coq_xO (Coq_xO (Coq_xO (Coq_xO Coq_xH)))))); ii_type = ('R'::[]);
    ii_class =
    ('a'::('r'::('i'::('t'::('h'::('m'::('e'::('t'::('i'::('c'::[]))))))))));
    ii_mask = (Zpos (Coq_xI (Coq_xI (Coq_xI (Coq_xI (Coq_xI (Coq_xI (Coq_xI
    (Coq_xO (Coq_xO (Coq_xO (Coq_xO (Coq_xO (Coq_xI (Coq_xI (Coq_xI (Coq_xO
    (Coq_xO (Coq_xO (Coq_xO (Coq_xO (Coq_xO (Coq_xO (Coq_xO (Coq_xO (Coq_xO
    (Coq_xI (Coq_xI (Coq_xI (Coq_xI (Coq_xI (Coq_xI
    Coq_xH)))))))))))))))))))))))))))))))); ii_val = (Zpos (Coq_xI (Coq_xI
    (Coq_xO (Coq_xO (Coq_xI (Coq_xI (Coq_xO (Coq_xO (Coq_xO (Coq_xO (Coq_xO
    (Coq_xO (Coq_xO (Coq_xO (Coq_xO (Coq_xO (Coq_xO (Coq_xO (Coq_xO (Coq_xO
    (Coq_xO (Coq_xO (Coq_xO (Coq_xO (Coq_xO (Coq_xO (Coq_xO (Coq_xO (Coq_xO
    (Coq_xO Coq_xH))))))))))))))))))))))))))))))); ii_x = None; ii_alias =
    false } :: ({ ii_key = ('s'::('u'::('b'::('w'::[])))); ii_name =
    ('s'::('u'::('b'::('w'::[])))); ii_opcode = (Zpos (Coq_xI (Coq_xI (Coq_xO
    (Coq_xI (Coq_xI Coq_xH)))))); ii_funct3 = Z0; ii_funct7 = (Zpos (Coq_xO
    (Coq_xO (Coq_xO (Coq_xO (Coq_xO Coq_xH)))))); ii_type = ('R'::[]);
    ii_class =
    ('a'::('r'::('i'::('t'::('h'::('m'::('e'::('t'::('i'::('c'::[]))))))))));
    ii_mask = (Zpos (Coq_xI (Coq_xI (Coq_xI (Coq_xI (Coq_xI (Coq_xI (Coq_xI
    (Coq_xO (Coq_xO (Coq_xO (Coq_xO (Coq_xO (Coq_xI (Coq_xI (Coq_xI (Coq_xO
    (Coq_xO (Coq_xO (Coq_xO (Coq_xO (Coq_xO (Coq_xO (Coq_xO (Coq_xO (Coq_xO
    (Coq_xI (Coq_xI (Coq_xI (Coq_xI (Coq_xI (Coq_xI
    Coq_xH)))))))))))))))))))))))))))))))); ii_val = (Zpos (Coq_xI (Coq_xI
    (Coq_xO (Coq_xI (Coq_xI (Coq_xI (Coq_xO (Coq_xO (Coq_xO (Coq_xO (Coq_xO
    (Coq_xO (Coq_xO (Coq_xO (Coq_xO (Coq_xO (Coq_xO (Coq_xO (Coq_xO (Coq_xO
    (Coq_xO (Coq_xO (Coq_xO (Coq_xO (Coq_xO (Coq_xO (Coq_xO (Coq_xO (Coq_xO
    (Coq_xO Coq_xH))))))))))))))))))))))))))))))); ii_x = None; ii_alias =
    false } :: ({ ii_key = ('x'::('o'::('r'::[]))); ii_name =
    ('x'::('o'::('r'::[]))); ii_opcode = (Zpos (Coq_xI (Coq_xI (Coq_xO
    (Coq_xO (Coq_xI Coq_xH)))))); ii_funct3 = (Zpos (Coq_xO (Coq_xO
    Coq_xH))); ii_funct7 = Z0; ii_type = ('R'::[]); ii_class =
    ('a'::('r'::('i'::('t'::('h'::('m'::('e'::('t'::('i'::('c'::[]))))))))));
    ii_mask = (Zpos (Coq_xI (Coq_xI (Coq_xI (Coq_xI (Coq_xI (Coq_xI (Coq_xI
    (Coq_xO (Coq_xO (Coq_xO (Coq_xO (Coq_xO (Coq_xI (Coq_xI (Coq_xI (Coq_xO
    (Coq_xO (Coq_xO (Coq_xO (Coq_xO (Coq_xO (Coq_xO (Coq_xO (Coq_xO (Coq_xO
    (Coq_xI (Coq_xI (Coq_xI (Coq_xI (Coq_xI (Coq_xI
    Coq_xH)))))))))))))))))))))))))))))))); ii_val = (Zpos (Coq_xI (Coq_xI
    (Coq_xO (Coq_xO (Coq_xI (Coq_xI (Coq_xO (Coq_xO (Coq_xO (Coq_xO (Coq_xO
    (Coq_xO (Coq_xO (Coq_xO Coq_xH))))))))))))))); ii_x = None; ii_alias =
    false } :: ({ ii_key = ('x'::('o'::('r'::('i'::[])))); ii_name =
    ('x'::('o'::('r'::('i'::[])))); ii_opcode = (Zpos (Coq_xI (Coq_xI (Coq_xO
    (Coq_xO Coq_xH))))); ii_funct3 = (Zpos (Coq_xO (Coq_xO Coq_xH)));
    ii_funct7 = Z0; ii_type = ('I'::[]); ii_class =
    ('a'::('r'::('i'::('t'::('h'::('m'::('e'::('t'::('i'::('c'::[]))))))))));
    ii_mask = (Zpos (Coq_xI (Coq_xI (Coq_xI (Coq_xI (Coq_xI (Coq_xI (Coq_xI
    (Coq_xO (Coq_xO (Coq_xO (Coq_xO (Coq_xO (Coq_xI (Coq_xI
    Coq_xH))))))))))))))); ii_val = (Zpos (Coq_xI (Coq_xI (Coq_xO (Coq_xO
    (Coq_xI (Coq_xO (Coq_xO (Coq_xO (Coq_xO (Coq_xO (Coq_xO (Coq_xO (Coq_xO
    (Coq_xO Coq_xH))))))))))))))); ii_x = None; ii_alias =
    false } :: ({ ii_key = ('e'::('b'::('r'::('e'::('a'::('k'::[]))))));
    ii_name = ('e'::('b'::('r'::('e'::('a'::('k'::[])))))); ii_opcode = (Zpos
    (Coq_xI (Coq_xI (Coq_xO (Coq_xO (Coq_xI (Coq_xI Coq_xH)))))));
    ii_funct3 = Z0; ii_funct7 = Z0; ii_type = ('I'::[]); ii_class =
    ('i'::('n'::('t'::('e'::('r'::('n'::('a'::('l'::[])))))))); ii_mask =
    (Zpos (Coq_xI (Coq_xI (Coq_xI (Coq_xI (Coq_xI (Coq_xI (Coq_xI (Coq_xI
    (Coq_xI (Coq_xI (Coq_xI (Coq_xI (Coq_xI (Coq_xI (Coq_xI (Coq_xI (Coq_xI
    (Coq_xI (Coq_xI (Coq_xI (Coq_xI (Coq_xI (Coq_xI (Coq_xI (Coq_xI (Coq_xI
    (Coq_xI (Coq_xI (Coq_xI (Coq_xI (Coq_xI
    Coq_xH)))))))))))))))))))))))))))))))); ii_val = (Zpos (Coq_xI (Coq_xI
    (Coq_xO (Coq_xO (Coq_xI (Coq_xI (Coq_xI (Coq_xO (Coq_xO (Coq_xO (Coq_xO
    (Coq_xO (Coq_xO (Coq_xO (Coq_xO (Coq_xO (Coq_xO (Coq_xO (Coq_xO (Coq_xO
    Coq_xH))))))))))))))))))))); ii_x = None; ii_alias =
    false } :: ({ ii_key = ('e'::('c'::('a'::('l'::('l'::[]))))); ii_name =
    ('e'::('c'::('a'::('l'::('l'::[]))))); ii_opcode = (Zpos (Coq_xI (Coq_xI
    (Coq_xO (Coq_xO (Coq_xI (Coq_xI Coq_xH))))))); ii_funct3 = Z0;
    ii_funct7 = Z0; ii_type = ('I'::[]); ii_class =
    ('i'::('n'::('t'::('e'::('r'::('n'::('a'::('l'::[])))))))); ii_mask =
    (Zpos (Coq_xI (Coq_xI (Coq_xI (Coq_xI (Coq_xI (Coq_xI (Coq_xI (Coq_xI
    (Coq_xI (Coq_xI (Coq_xI (Coq_xI (Coq_xI (Coq_xI (Coq_xI (Coq_xI (Coq_xI
    (Coq_xI (Coq_xI (Coq_xI (Coq_xI (Coq_xI (Coq_xI (Coq_xI (Coq_xI (Coq_xI
    (Coq_xI (Coq_xI (Coq_xI (Coq_xI (Coq_xI
    Coq_xH)))))))))))))))))))))))))))))))); ii_val = (Zpos (Coq_xI (Coq_xI
    (Coq_xO (Coq_xO (Coq_xI (Coq_xI Coq_xH))))))); ii_x = None; ii_alias =
    false } :: ({ ii_key =
    ('c'::('u'::('s'::('t'::('o'::('m'::('0'::[]))))))); ii_name =
    ('c'::('u'::('s'::('t'::('o'::('m'::('0'::[]))))))); ii_opcode = (Zpos
    (Coq_xI (Coq_xI (Coq_xO Coq_xH)))); ii_funct3 = Z0; ii_funct7 = Z0;
    ii_type = ('R'::[]); ii_class =
    ('c'::('u'::('s'::('t'::('o'::('m'::[])))))); ii_mask = (Zpos (Coq_xI
    (Coq_xI (Coq_xI (Coq_xI (Coq_xI (Coq_xI (Coq_xI (Coq_xO (Coq_xO (Coq_xO
    (Coq_xO (Coq_xO (Coq_xI (Coq_xI (Coq_xI (Coq_xO (Coq_xO (Coq_xO (Coq_xO
    (Coq_xO (Coq_xO (Coq_xO (Coq_xO (Coq_xO (Coq_xO (Coq_xI (Coq_xI (Coq_xI
    (Coq_xI (Coq_xI (Coq_xI Coq_xH)))))))))))))))))))))))))))))))); ii_val =
    (Zpos (Coq_xI (Coq_xI (Coq_xO Coq_xH)))); ii_x = None; ii_alias =
    false } :: ({ ii_key =
    ('c'::('u'::('s'::('t'::('o'::('m'::('1'::[]))))))); ii_name =
    ('c'::('u'::('s'::('t'::('o'::('m'::('1'::[]))))))); ii_opcode = (Zpos
    (Coq_xI (Coq_xI (Coq_xO (Coq_xI (Coq_xO Coq_xH)))))); ii_funct3 = Z0;
    ii_funct7 = Z0; ii_type = ('R'::[]); ii_class =
    ('c'::('u'::('s'::('t'::('o'::('m'::[])))))); ii_mask = (Zpos (Coq_xI
    (Coq_xI (Coq_xI (Coq_xI (Coq_xI (Coq_xI (Coq_xI (Coq_xO (Coq_xO (Coq_xO
    (Coq_xO (Coq_xO (Coq_xI (Coq_xI (Coq_xI (Coq_xO (Coq_xO (Coq_xO (Coq_xO
    (Coq_xO (Coq_xO (Coq_xO (Coq_xO (Coq_xO (Coq_xO (Coq_xI (Coq_xI (Coq_xI
    (Coq_xI (Coq_xI (Coq_xI Coq_xH)))))))))))))))))))))))))))))))); ii_val =
    (Zpos (Coq_xI (Coq_xI (Coq_xO (Coq_xI (Coq_xO Coq_xH)))))); ii_x = None;
    ii_alias = false } :: ({ ii_key =
    ('c'::('u'::('s'::('t'::('o'::('m'::('2'::[]))))))); ii_name =
    ('c'::('u'::('s'::('t'::('o'::('m'::('2'::[]))))))); ii_opcode = (Zpos
    (Coq_xI (Coq_xI (Coq_xO (Coq_xI (Coq_xI (Coq_xO Coq_xH)))))));
    ii_funct3 = Z0; ii_funct7 = Z0; ii_type = ('R'::[]); ii_class =
    ('c'::('u'::('s'::('t'::('o'::('m'::[])))))); ii_mask = (Zpos (Coq_xI
    (Coq_xI (Coq_xI (Coq_xI (Coq_xI (Coq_xI (Coq_xI (Coq_xO (Coq_xO (Coq_xO
    (Coq_xO (Coq_xO (Coq_xI (Coq_xI (Coq_xI (Coq_xO (Coq_xO (Coq_xO (Coq_xO
    (Coq_xO (Coq_xO (Coq_xO (Coq_xO (Coq_xO (Coq_xO (Coq_xI (Coq_xI (Coq_xI
    (Coq_xI (Coq_xI (Coq_xI Coq_xH)))))))))))))))))))))))))))))))); ii_val =
    (Zpos (Coq_xI (Coq_xI (Coq_xO (Coq_xI (Coq_xI (Coq_xO Coq_xH)))))));
    ii_x = None; ii_alias = false } :: ({ ii_key =
    ('c'::('u'::('s'::('t'::('o'::('m'::('3'::[]))))))); ii_name =
    ('c'::('u'::('s'::('t'::('o'::('m'::('3'::[]))))))); ii_opcode = (Zpos
    (Coq_xI (Coq_xI (Coq_xO (Coq_xI (Coq_xI (Coq_xI Coq_xH)))))));
    ii_funct3 = Z0; ii_funct7 = Z0; ii_type = ('R'::[]); ii_class =
    ('c'::('u'::('s'::('t'::('o'::('m'::[])))))); ii_mask = (Zpos (Coq_xI
    (Coq_xI (Coq_xI (Coq_xI (Coq_xI (Coq_xI (Coq_xI (Coq_xO (Coq_xO (Coq_xO
    (Coq_xO (Coq_xO (Coq_xI (Coq_xI (Coq_xI (Coq_xO (Coq_xO (Coq_xO (Coq_xO
    (Coq_xO (Coq_xO (Coq_xO (Coq_xO (Coq_xO (Coq_xO (Coq_xI (Coq_xI (Coq_xI
    (Coq_xI (Coq_xI (Coq_xI Coq_xH)))))))))))))))))))))))))))))))); ii_val =
    (Zpos (Coq_xI (Coq_xI (Coq_xO (Coq_xI (Coq_xI (Coq_xI Coq_xH)))))));
    ii_x = None; ii_alias = false } :: ({ ii_key =
    ('f'::('e'::('n'::('c'::('e'::[]))))); ii_name =
    ('f'::('e'::('n'::('c'::('e'::[]))))); ii_opcode = (Zpos (Coq_xI (Coq_xI
    (Coq_xI Coq_xH)))); ii_funct3 = Z0; ii_funct7 = Z0; ii_type = ('I'::[]);
    ii_class = ('i'::('n'::('t'::('e'::('r'::('n'::('a'::('l'::[]))))))));
    ii_mask = (Zpos (Coq_xI (Coq_xI (Coq_xI (Coq_xI (Coq_xI (Coq_xI (Coq_xI
    (Coq_xI (Coq_xI (Coq_xI (Coq_xI (Coq_xI (Coq_xI (Coq_xI (Coq_xI (Coq_xI
    (Coq_xI (Coq_xI (Coq_xI (Coq_xI (Coq_xO (Coq_xO (Coq_xO (Coq_xO (Coq_xO
    (Coq_xO (Coq_xO (Coq_xO (Coq_xI (Coq_xI (Coq_xI
    Coq_xH)))))))))))))))))))))))))))))))); ii_val = (Zpos (Coq_xI (Coq_xI
    (Coq_xI Coq_xH)))); ii_x = None; ii_alias = false } :: ({ ii_key =
    ('f'::('e'::('n'::('c'::('e'::('.'::('i'::[]))))))); ii_name =
    ('f'::('e'::('n'::('c'::('e'::('.'::('i'::[]))))))); ii_opcode = (Zpos
    (Coq_xI (Coq_xI (Coq_xI Coq_xH)))); ii_funct3 = (Zpos Coq_xH);
    ii_funct7 = Z0; ii_type = ('I'::[]); ii_class =
    ('i'::('n'::('t'::('e'::('r'::('n'::('a'::('l'::[])))))))); ii_mask =
    (Zpos (Coq_xI (Coq_xI (Coq_xI (Coq_xI (Coq_xI (Coq_xI (Coq_xI (Coq_xI
    (Coq_xI (Coq_xI (Coq_xI (Coq_xI (Coq_xI (Coq_xI (Coq_xI (Coq_xI (Coq_xI
    (Coq_xI (Coq_xI (Coq_xI (Coq_xI (Coq_xI (Coq_xI (Coq_xI (Coq_xI (Coq_xI
    (Coq_xI (Coq_xI (Coq_xI (Coq_xI (Coq_xI
    Coq_xH)))))))))))))))))))))))))))))))); ii_val = (Zpos (Coq_xI (Coq_xI
    (Coq_xI (Coq_xI (Coq_xO (Coq_xO (Coq_xO (Coq_xO (Coq_xO (Coq_xO (Coq_xO
    (Coq_xO Coq_xH))))))))))))); ii_x = None; ii_alias =
    false } :: ({ ii_key = ('c'::('s'::('r'::('r'::('w'::[]))))); ii_name =
    ('c'::('s'::('r'::('r'::('w'::[]))))); ii_opcode = (Zpos (Coq_xI (Coq_xI
    (Coq_xO (Coq_xO (Coq_xI (Coq_xI Coq_xH))))))); ii_funct3 = (Zpos Coq_xH);
    ii_funct7 = Z0; ii_type = ('I'::[]); ii_class =
    ('i'::('n'::('t'::('e'::('r'::('n'::('a'::('l'::[])))))))); ii_mask =
    (Zpos (Coq_xI (Coq_xI (Coq_xI (Coq_xI (Coq_xI (Coq_xI (Coq_xI (Coq_xO
    (Coq_xO (Coq_xO (Coq_xO (Coq_xO (Coq_xI (Coq_xI Coq_xH)))))))))))))));
    ii_val = (Zpos (Coq_xI (Coq_xI (Coq_xO (Coq_xO (Coq_xI (Coq_xI (Coq_xI
    (Coq_xO (Coq_xO (Coq_xO (Coq_xO (Coq_xO Coq_xH))))))))))))); ii_x = None;
    ii_alias = false } :: ({ ii_key = ('c'::('s'::('r'::('r'::('s'::[])))));
    ii_name = ('c'::('s'::('r'::('r'::('s'::[]))))); ii_opcode = (Zpos
    (Coq_xI (Coq_xI (Coq_xO (Coq_xO (Coq_xI (Coq_xI Coq_xH)))))));
    ii_funct3 = (Zpos (Coq_xO Coq_xH)); ii_funct7 = Z0; ii_type = ('I'::[]);
    ii_class = ('i'::('n'::('t'::('e'::('r'::('n'::('a'::('l'::[]))))))));
    ii_mask = (Zpos (Coq_xI (Coq_xI (Coq_xI (Coq_xI (Coq_xI (Coq_xI (Coq_xI
    (Coq_xO (Coq_xO (Coq_xO (Coq_xO (Coq_xO (Coq_xI (Coq_xI
    Coq_xH))))))))))))))); ii_val = (Zpos (Coq_xI (Coq_xI (Coq_xO (Coq_xO
    (Coq_xI (Coq_xI (Coq_xI (Coq_xO (Coq_xO (Coq_xO (Coq_xO (Coq_xO (Coq_xO
    Coq_xH)))))))))))))); ii_x = None; ii_alias = false } :: ({ ii_key =
    ('c'::('s'::('r'::('r'::('c'::[]))))); ii_name =
    ('c'::('s'::('r'::('r'::('c'::[]))))); ii_opcode = (Zpos (Coq_xI (Coq_xI
    (Coq_xO (Coq_xO (Coq_xI (Coq_xI Coq_xH))))))); ii_funct3 = (Zpos (Coq_xI
    Coq_xH)); ii_funct7 = Z0; ii_type = ('I'::[]); ii_class =
    ('i'::('n'::('t'::('e'::('r'::('n'::('a'::('l'::[])))))))); ii_mask =
    (Zpos (Coq_xI (Coq_xI (Coq_xI (Coq_xI (Coq_xI (Coq_xI (Coq_xI (Coq_xO
    (Coq_xO (Coq_xO (Coq_xO (Coq_xO (Coq_xI (Coq_xI Coq_xH)))))))))))))));
    ii_val = (Zpos (Coq_xI (Coq_xI (Coq_xO (Coq_xO (Coq_xI (Coq_xI (Coq_xI
    (Coq_xO (Coq_xO (Coq_xO (Coq_xO (Coq_xO (Coq_xI Coq_xH))))))))))))));
    ii_x = None; ii_alias = false } :: ({ ii_key =
    ('c'::('s'::('r'::('r'::('w'::('i'::[])))))); ii_name =
    ('c'::('s'::('r'::('r'::('w'::('i'::[])))))); ii_opcode = (Zpos (Coq_xI
    (Coq_xI (Coq_xO (Coq_xO (Coq_xI (Coq_xI Coq_xH))))))); ii_funct3 = (Zpos
    (Coq_xI (Coq_xO Coq_xH))); ii_funct7 = Z0; ii_type = ('I'::[]);
    ii_class = ('i'::('n'::('t'::('e'::('r'::('n'::('a'::('l'::[]))))))));
    ii_mask = (Zpos (Coq_xI (Coq_xI (Coq_xI (Coq_xI (Coq_xI (Coq_xI (Coq_xI
    (Coq_xO (Coq_xO (Coq_xO (Coq_xO (Coq_xO (Coq_xI (Coq_xI
    Coq_xH))))))))))))))); ii_val = (Zpos (Coq_xI (Coq_xI (Coq_xO (Coq_xO
    (Coq_xI (Coq_xI (Coq_xI (Coq_xO (Coq_xO (Coq_xO (Coq_xO (Coq_xO (Coq_xI
    (Coq_xO Coq_xH))))))))))))))); ii_x = None; ii_alias =
    false } :: ({ ii_key = ('c'::('s'::('r'::('r'::('s'::('i'::[]))))));
    ii_name = ('c'::('s'::('r'::('r'::('s'::('i'::[])))))); ii_opcode = (Zpos
    (Coq_xI (Coq_xI (Coq_xO (Coq_xO (Coq_xI (Coq_xI Coq_xH)))))));
    ii_funct3 = (Zpos (Coq_xO (Coq_xI Coq_xH))); ii_funct7 = Z0; ii_type =
    ('I'::[]); ii_class =
    ('i'::('n'::('t'::('e'::('r'::('n'::('a'::('l'::[])))))))); ii_mask =
    (Zpos (Coq_xI (Coq_xI (Coq_xI (Coq_xI (Coq_xI (Coq_xI (Coq_xI (Coq_xO
    (Coq_xO (Coq_xO (Coq_xO (Coq_xO (Coq_xI (Coq_xI Coq_xH)))))))))))))));
    ii_val = (Zpos (Coq_xI (Coq_xI (Coq_xO (Coq_xO (Coq_xI (Coq_xI (Coq_xI
    (Coq_xO (Coq_xO (Coq_xO (Coq_xO (Coq_xO (Coq_xO (Coq_xI
    Coq_xH))))))))))))))); ii_x = None; ii_alias = false } :: ({ ii_key =
    ('c'::('s'::('r'::('r'::('c'::('i'::[])))))); ii_name =
    ('c'::('s'::('r'::('r'::('c'::('i'::[])))))); ii_opcode = (Zpos (Coq_xI
    (Coq_xI (Coq_xO (Coq_xO (Coq_xI (Coq_xI Coq_xH))))))); ii_funct3 = (Zpos
    (Coq_xI (Coq_xI Coq_xH))); ii_funct7 = Z0; ii_type = ('I'::[]);
    ii_class = ('i'::('n'::('t'::('e'::('r'::('n'::('a'::('l'::[]))))))));
    ii_mask = (Zpos (Coq_xI (Coq_xI (Coq_xI (Coq_xI (Coq_xI (Coq_xI (Coq_xI
    (Coq_xO (Coq_xO (Coq_xO (Coq_xO (Coq_xO (Coq_xI (Coq_xI
    Coq_xH))))))))))))))); ii_val = (Zpos (Coq_xI (Coq_xI (Coq_xO (Coq_xO
    (Coq_xI (Coq_xI (Coq_xI (Coq_xO (Coq_xO (Coq_xO (Coq_xO (Coq_xO (Coq_xI
    (Coq_xI Coq_xH))))))))))))))); ii_x = None; ii_alias =
    false } :: ({ ii_key = ('d'::('r'::('e'::('t'::[])))); ii_name =
    ('d'::('r'::('e'::('t'::[])))); ii_opcode = (Zpos (Coq_xI (Coq_xI (Coq_xO
    (Coq_xO (Coq_xI (Coq_xI Coq_xH))))))); ii_funct3 = Z0; ii_funct7 = Z0;
    ii_type = ('I'::[]); ii_class =
    ('i'::('n'::('t'::('e'::('r'::('n'::('a'::('l'::[])))))))); ii_mask =
    (Zpos (Coq_xI (Coq_xI (Coq_xI (Coq_xI (Coq_xI (Coq_xI (Coq_xI (Coq_xI
    (Coq_xI (Coq_xI (Coq_xI (Coq_xI (Coq_xI (Coq_xI (Coq_xI (Coq_xI (Coq_xI
    (Coq_xI (Coq_xI (Coq_xI (Coq_xI (Coq_xI (Coq_xI (Coq_xI (Coq_xI (Coq_xI
    (Coq_xI (Coq_xI (Coq_xI (Coq_xI (Coq_xI
    Coq_xH)))))))))))))))))))))))))))))))); ii_val = (Zpos (Coq_xI (Coq_xI
    (Coq_xO (Coq_xO (Coq_xI (Coq_xI (Coq_xI (Coq_xO (Coq_xO (Coq_xO (Coq_xO
    (Coq_xO (Coq_xO (Coq_xO (Coq_xO (Coq_xO (Coq_xO (Coq_xO (Coq_xO (Coq_xO
    (Coq_xO (Coq_xI (Coq_xO (Coq_xO (Coq_xI (Coq_xI (Coq_xO (Coq_xI (Coq_xI
    (Coq_xI Coq_xH))))))))))))))))))))))))))))))); ii_x = None; ii_alias =
    false } :: ({ ii_key =
    ('u'::('n'::('k'::('n'::('o'::('w'::('n'::[]))))))); ii_name =
    ('u'::('n'::('k'::('n'::('o'::('w'::('n'::[]))))))); ii_opcode = Z0;
    ii_funct3 = Z0; ii_funct7 = Z0; ii_type = ('I'::[]); ii_class =
    ('i'::('n'::('t'::('e'::('r'::('n'::('a'::('l'::[])))))))); ii_mask =
    (Zpos (Coq_xI (Coq_xI (Coq_xI (Coq_xI (Coq_xI (Coq_xI (Coq_xI (Coq_xI
    (Coq_xI (Coq_xI (Coq_xI (Coq_xI (Coq_xI (Coq_xI (Coq_xI (Coq_xI (Coq_xI
    (Coq_xI (Coq_xI (Coq_xI (Coq_xI (Coq_xI (Coq_xI (Coq_xI (Coq_xI (Coq_xI
    (Coq_xI (Coq_xI (Coq_xI (Coq_xI (Coq_xI
    Coq_xH)))))))))))))))))))))))))))))))); ii_val = Z0; ii_x = None;
    ii_alias = false } :: ({ ii_key = ('a'::('n'::('d'::[]))); ii_name =
    ('a'::('n'::('d'::('r'::[])))); ii_opcode = (Zpos (Coq_xI (Coq_xI (Coq_xO
    (Coq_xO (Coq_xI Coq_xH)))))); ii_funct3 = (Zpos (Coq_xI (Coq_xI
    Coq_xH))); ii_funct7 = Z0; ii_type = ('R'::[]); ii_class =
    ('a'::('r'::('i'::('t'::('h'::('m'::('e'::('t'::('i'::('c'::[]))))))))));
    ii_mask = (Zpos (Coq_xI (Coq_xI (Coq_xI (Coq_xI (Coq_xI (Coq_xI (Coq_xI
    (Coq_xO (Coq_xO (Coq_xO (Coq_xO (Coq_xO (Coq_xI (Coq_xI (Coq_xI (Coq_xO
    (Coq_xO (Coq_xO (Coq_xO (Coq_xO (Coq_xO (Coq_xO (Coq_xO (Coq_xO (Coq_xO
    (Coq_xI (Coq_xI (Coq_xI (Coq_xI (Coq_xI (Coq_xI
    Coq_xH)))))))))))))))))))))))))))))))); ii_val = (Zpos (Coq_xI (Coq_xI
    (Coq_xO (Coq_xO (Coq_xI (Coq_xI (Coq_xO (Coq_xO (Coq_xO (Coq_xO (Coq_xO
    (Coq_xO (Coq_xI (Coq_xI Coq_xH))))))))))))))); ii_x = None; ii_alias =
    true } :: ({ ii_key = ('o'::('r'::[])); ii_name =
    ('o'::('r'::('r'::[]))); ii_opcode = (Zpos (Coq_xI (Coq_xI (Coq_xO
    (Coq_xO (Coq_xI Coq_xH)))))); ii_funct3 = (Zpos (Coq_xO (Coq_xI
    Coq_xH))); ii_funct7 = Z0; ii_type = ('R'::[]); ii_class =
    ('a'::('r'::('i'::('t'::('h'::('m'::('e'::('t'::('i'::('c'::[]))))))))));
    ii_mask = (Zpos (Coq_xI (Coq_xI (Coq_xI (Coq_xI (Coq_xI (Coq_xI (Coq_xI
    (Coq_xO (Coq_xO (Coq_xO (Coq_xO (Coq_xO (Coq_xI (Coq_xI (Coq_xI (Coq_xO
    (Coq_xO (Coq_xO (Coq_xO (Coq_xO (Coq_xO (Coq_xO (Coq_xO (Coq_xO (Coq_xO
    (Coq_xI (Coq_xI (Coq_xI (Coq_xI (Coq_xI (Coq_xI
    Coq_xH)))))))))))))))))))))))))))))))); ii_val = (Zpos (Coq_xI (Coq_xI
    (Coq_xO (Coq_xO (Coq_xI (Coq_xI (Coq_xO (Coq_xO (Coq_xO (Coq_xO (Coq_xO
    (Coq_xO (Coq_xO (Coq_xI Coq_xH))))))))))))))); ii_x = None; ii_alias =
    true } :: ({ ii_key = ('r'::('e'::('t'::[]))); ii_name =
    ('j'::('a'::('l'::('r'::[])))); ii_opcode = (Zpos (Coq_xI (Coq_xI (Coq_xI
    (Coq_xO (Coq_xO (Coq_xI Coq_xH))))))); ii_funct3 = Z0; ii_funct7 = Z0;
    ii_type = ('I'::[]); ii_class =
    ('b'::('r'::('a'::('n'::('c'::('h'::('i'::('n'::('g'::[])))))))));
    ii_mask = (Zpos (Coq_xI (Coq_xI (Coq_xI (Coq_xI (Coq_xI (Coq_xI (Coq_xI
    (Coq_xO (Coq_xO (Coq_xO (Coq_xO (Coq_xO (Coq_xI (Coq_xI
    Coq_xH))))))))))))))); ii_val = (Zpos (Coq_xI (Coq_xI (Coq_xI (Coq_xO
    (Coq_xO (Coq_xI Coq_xH))))))); ii_x = None; ii_alias =
    true } :: ({ ii_key = ('j'::[]); ii_name = ('j'::('a'::('l'::[])));
    ii_opcode = (Zpos (Coq_xI (Coq_xI (Coq_xI (Coq_xI (Coq_xO (Coq_xI
    Coq_xH))))))); ii_funct3 = Z0; ii_funct7 = Z0; ii_type = ('J'::[]);
    ii_class =
    ('b'::('r'::('a'::('n'::('c'::('h'::('i'::('n'::('g'::[])))))))));
    ii_mask = (Zpos (Coq_xI (Coq_xI (Coq_xI (Coq_xI (Coq_xI (Coq_xI
    Coq_xH))))))); ii_val = (Zpos (Coq_xI (Coq_xI (Coq_xI (Coq_xI (Coq_xO
    (Coq_xI Coq_xH))))))); ii_x = None; ii_alias = true } :: ({ ii_key =
    ('j'::('r'::[])); ii_name = ('j'::('a'::('l'::('r'::[])))); ii_opcode =
    (Zpos (Coq_xI (Coq_xI (Coq_xI (Coq_xO (Coq_xO (Coq_xI Coq_xH)))))));
    ii_funct3 = Z0; ii_funct7 = Z0; ii_type = ('I'::[]); ii_class =
    ('b'::('r'::('a'::('n'::('c'::('h'::('i'::('n'::('g'::[])))))))));
    ii_mask = (Zpos (Coq_xI (Coq_xI (Coq_xI (Coq_xI (Coq_xI (Coq_xI (Coq_xI
    (Coq_xO (Coq_xO (Coq_xO (Coq_xO (Coq_xO (Coq_xI (Coq_xI
    Coq_xH))))))))))))))); ii_val = (Zpos (Coq_xI (Coq_xI (Coq_xI (Coq_xO
    (Coq_xO (Coq_xI Coq_xH))))))); ii_x = None; ii_alias =
    true } :: ({ ii_key = ('l'::('i'::[])); ii_name =
    ('a'::('d'::('d'::('i'::[])))); ii_opcode = (Zpos (Coq_xI (Coq_xI (Coq_xO
    (Coq_xO Coq_xH))))); ii_funct3 = Z0; ii_funct7 = Z0; ii_type = ('I'::[]);
    ii_class =
    ('a'::('r'::('i'::('t'::('h'::('m'::('e'::('t'::('i'::('c'::[]))))))))));
    ii_mask = (Zpos (Coq_xI (Coq_xI (Coq_xI (Coq_xI (Coq_xI (Coq_xI (Coq_xI
    (Coq_xO (Coq_xO (Coq_xO (Coq_xO (Coq_xO (Coq_xI (Coq_xI
    Coq_xH))))))))))))))); ii_val = (Zpos (Coq_xI (Coq_xI (Coq_xO (Coq_xO
    Coq_xH))))); ii_x = None; ii_alias = true } :: ({ ii_key =
    ('m'::('v'::[])); ii_name = ('a'::('d'::('d'::('i'::[])))); ii_opcode =
    (Zpos (Coq_xI (Coq_xI (Coq_xO (Coq_xO Coq_xH))))); ii_funct3 = Z0;
    ii_funct7 = Z0; ii_type = ('I'::[]); ii_class =
    ('a'::('r'::('i'::('t'::('h'::('m'::('e'::('t'::('i'::('c'::[]))))))))));
    ii_mask = (Zpos (Coq_xI (Coq_xI (Coq_xI (Coq_xI (Coq_xI (Coq_xI (Coq_xI
    (Coq_xO (Coq_xO (Coq_xO (Coq_xO (Coq_xO (Coq_xI (Coq_xI
    Coq_xH))))))))))))))); ii_val = (Zpos (Coq_xI (Coq_xI (Coq_xO (Coq_xO
    Coq_xH))))); ii_x = None; ii_alias = true } :: ({ ii_key =
    ('n'::('o'::('t'::[]))); ii_name = ('x'::('o'::('r'::('i'::[]))));
    ii_opcode = (Zpos (Coq_xI (Coq_xI (Coq_xO (Coq_xO Coq_xH)))));
    ii_funct3 = (Zpos (Coq_xO (Coq_xO Coq_xH))); ii_funct7 = Z0; ii_type =
    ('I'::[]); ii_class =
    ('a'::('r'::('i'::('t'::('h'::('m'::('e'::('t'::('i'::('c'::[]))))))))));
    ii_mask = (Zpos (Coq_xI (Coq_xI (Coq_xI (Coq_xI (Coq_xI (Coq_xI (Coq_xI
    (Coq_xO (Coq_xO (Coq_xO (Coq_xO (Coq_xO (Coq_xI (Coq_xI
    Coq_xH))))))))))))))); ii_val = (Zpos (Coq_xI (Coq_xI (Coq_xO (Coq_xO
    (Coq_xI (Coq_xO (Coq_xO (Coq_xO (Coq_xO (Coq_xO (Coq_xO (Coq_xO (Coq_xO
    (Coq_xO Coq_xH))))))))))))))); ii_x = None; ii_alias =
    true } :: ({ ii_key = ('n'::('o'::('p'::[]))); ii_name =
    ('a'::('d'::('d'::('i'::[])))); ii_opcode = (Zpos (Coq_xI (Coq_xI (Coq_xO
    (Coq_xO Coq_xH))))); ii_funct3 = Z0; ii_funct7 = Z0; ii_type = ('I'::[]);
    ii_class =
    ('a'::('r'::('i'::('t'::('h'::('m'::('e'::('t'::('i'::('c'::[]))))))))));
    ii_mask = (Zpos (Coq_xI (Coq_xI (Coq_xI (Coq_xI (Coq_xI (Coq_xI (Coq_xI
    (Coq_xO (Coq_xO (Coq_xO (Coq_xO (Coq_xO (Coq_xI (Coq_xI
    Coq_xH))))))))))))))); ii_val = (Zpos (Coq_xI (Coq_xI (Coq_xO (Coq_xO
    Coq_xH))))); ii_x = None; ii_alias = true } :: ({ ii_key =
    ('s'::('e'::('q'::('z'::[])))); ii_name =
    ('s'::('l'::('t'::('i'::('u'::[]))))); ii_opcode = (Zpos (Coq_xI (Coq_xI
    (Coq_xO (Coq_xO Coq_xH))))); ii_funct3 = (Zpos (Coq_xI Coq_xH));
    ii_funct7 = Z0; ii_type = ('I'::[]); ii_class =
    ('a'::('r'::('i'::('t'::('h'::('m'::('e'::('t'::('i'::('c'::[]))))))))));
    ii_mask = (Zpos (Coq_xI (Coq_xI (Coq_xI (Coq_xI (Coq_xI (Coq_xI (Coq_xI
    (Coq_xO (Coq_xO (Coq_xO (Coq_xO (Coq_xO (Coq_xI (Coq_xI
    Coq_xH))))))))))))))); ii_val = (Zpos (Coq_xI (Coq_xI (Coq_xO (Coq_xO
    (Coq_xI (Coq_xO (Coq_xO (Coq_xO (Coq_xO (Coq_xO (Coq_xO (Coq_xO (Coq_xI
    Coq_xH)))))))))))))); ii_x = None; ii_alias = true } :: ({ ii_key =
    ('s'::('n'::('e'::('z'::[])))); ii_name = ('s'::('l'::('t'::('u'::[]))));
    ii_opcode = (Zpos (Coq_xI (Coq_xI (Coq_xO (Coq_xO (Coq_xI Coq_xH))))));
    ii_funct3 = (Zpos (Coq_xI Coq_xH)); ii_funct7 = Z0; ii_type = ('R'::[]);
    ii_class =
    ('a'::('r'::('i'::('t'::('h'::('m'::('e'::('t'::('i'::('c'::[]))))))))));
    ii_mask = (Zpos (Coq_xI (Coq_xI (Coq_xI (Coq_xI (Coq_xI (Coq_xI (Coq_xI
    (Coq_xO (Coq_xO (Coq_xO (Coq_xO (Coq_xO (Coq_xI (Coq_xI (Coq_xI (Coq_xO
    (Coq_xO (Coq_xO (Coq_xO (Coq_xO (Coq_xO (Coq_xO (Coq_xO (Coq_xO (Coq_xO
    (Coq_xI (Coq_xI (Coq_xI (Coq_xI (Coq_xI (Coq_xI
    Coq_xH)))))))))))))))))))))))))))))))); ii_val = (Zpos (Coq_xI (Coq_xI
    (Coq_xO (Coq_xO (Coq_xI (Coq_xI (Coq_xO (Coq_xO (Coq_xO (Coq_xO (Coq_xO
    (Coq_xO (Coq_xI Coq_xH)))))))))))))); ii_x = None; ii_alias =
    true } :: ({ ii_key = ('s'::('l'::('t'::('z'::[])))); ii_name =
    ('s'::('l'::('t'::[]))); ii_opcode = (Zpos (Coq_xI (Coq_xI (Coq_xO
    (Coq_xO (Coq_xI Coq_xH)))))); ii_funct3 = (Zpos (Coq_xO Coq_xH));
    ii_funct7 = Z0; ii_type = ('R'::[]); ii_class =
    ('a'::('r'::('i'::('t'::('h'::('m'::('e'::('t'::('i'::('c'::[]))))))))));
    ii_mask = (Zpos (Coq_xI (Coq_xI (Coq_xI (Coq_xI (Coq_xI (Coq_xI (Coq_xI
    (Coq_xO (Coq_xO (Coq_xO (Coq_xO (Coq_xO (Coq_xI (Coq_xI (Coq_xI (Coq_xO
    (Coq_xO (Coq_xO (Coq_xO (Coq_xO (Coq_xO (Coq_xO (Coq_xO (Coq_xO (Coq_xO
    (Coq_xI (Coq_xI (Coq_xI (Coq_xI (Coq_xI (Coq_xI
    Coq_xH)))))))))))))))))))))))))))))))); ii_val = (Zpos (Coq_xI (Coq_xI
    (Coq_xO (Coq_xO (Coq_xI (Coq_xI (Coq_xO (Coq_xO (Coq_xO (Coq_xO (Coq_xO
    (Coq_xO (Coq_xO Coq_xH)))))))))))))); ii_x = None; ii_alias =
    true } :: ({ ii_key = ('s'::('g'::('t'::('z'::[])))); ii_name =
    ('s'::('l'::('t'::[]))); ii_opcode = (Zpos (Coq_xI (Coq_xI (Coq_xO
    (Coq_xO (Coq_xI Coq_xH)))))); ii_funct3 = (Zpos (Coq_xO Coq_xH));
    ii_funct7 = Z0; ii_type = ('R'::[]); ii_class =
    ('a'::('r'::('i'::('t'::('h'::('m'::('e'::('t'::('i'::('c'::[]))))))))));
    ii_mask = (Zpos (Coq_xI (Coq_xI (Coq_xI (Coq_xI (Coq_xI (Coq_xI (Coq_xI
    (Coq_xO (Coq_xO (Coq_xO (Coq_xO (Coq_xO (Coq_xI (Coq_xI (Coq_xI (Coq_xO
    (Coq_xO (Coq_xO (Coq_xO (Coq_xO (Coq_xO (Coq_xO (Coq_xO (Coq_xO (Coq_xO
    (Coq_xI (Coq_xI (Coq_xI (Coq_xI (Coq_xI (Coq_xI
    Coq_xH)))))))))))))))))))))))))))))))); ii_val = (Zpos (Coq_xI (Coq_xI
    (Coq_xO (Coq_xO (Coq_xI (Coq_xI (Coq_xO (Coq_xO (Coq_xO (Coq_xO (Coq_xO
    (Coq_xO (Coq_xO Coq_xH)))))))))))))); ii_x = None; ii_alias =
    true } :: ({ ii_key = ('s'::('e'::('x'::('t'::[])))); ii_name =
    ('a'::('d'::('d'::('i'::('w'::[]))))); ii_opcode = (Zpos (Coq_xI (Coq_xI
    (Coq_xO (Coq_xI Coq_xH))))); ii_funct3 = Z0; ii_funct7 = Z0; ii_type =
    ('I'::[]); ii_class =
    ('a'::('r'::('i'::('t'::('h'::('m'::('e'::('t'::('i'::('c'::[]))))))))));
    ii_mask = (Zpos (Coq_xI (Coq_xI (Coq_xI (Coq_xI (Coq_xI (Coq_xI (Coq_xI
    (Coq_xO (Coq_xO (Coq_xO (Coq_xO (Coq_xO (Coq_xI (Coq_xI
    Coq_xH))))))))))))))); ii_val = (Zpos (Coq_xI (Coq_xI (Coq_xO (Coq_xI
    Coq_xH))))); ii_x = None; ii_alias = true } :: ({ ii_key =
    ('b'::('g'::('t'::[]))); ii_name = ('b'::('l'::('t'::[]))); ii_opcode =
    (Zpos (Coq_xI (Coq_xI (Coq_xO (Coq_xO (Coq_xO (Coq_xI Coq_xH)))))));
    ii_funct3 = (Zpos (Coq_xO (Coq_xO Coq_xH))); ii_funct7 = Z0; ii_type =
    ('B'::[]); ii_class =
    ('b'::('r'::('a'::('n'::('c'::('h'::('i'::('n'::('g'::[])))))))));
    ii_mask = (Zpos (Coq_xI (Coq_xI (Coq_xI (Coq_xI (Coq_xI (Coq_xI (Coq_xI
    (Coq_xO (Coq_xO (Coq_xO (Coq_xO (Coq_xO (Coq_xI (Coq_xI
    Coq_xH))))))))))))))); ii_val = (Zpos (Coq_xI (Coq_xI (Coq_xO (Coq_xO
    (Coq_xO (Coq_xI (Coq_xI (Coq_xO (Coq_xO (Coq_xO (Coq_xO (Coq_xO (Coq_xO
    (Coq_xO Coq_xH))))))))))))))); ii_x = None; ii_alias =
    true } :: ({ ii_key = ('b'::('l'::('e'::[]))); ii_name =
    ('b'::('g'::('e'::[]))); ii_opcode = (Zpos (Coq_xI (Coq_xI (Coq_xO
    (Coq_xO (Coq_xO (Coq_xI Coq_xH))))))); ii_funct3 = (Zpos (Coq_xI (Coq_xO
    Coq_xH))); ii_funct7 = Z0; ii_type = ('B'::[]); ii_class =
    ('b'::('r'::('a'::('n'::('c'::('h'::('i'::('n'::('g'::[])))))))));
    ii_mask = (Zpos (Coq_xI (Coq_xI (Coq_xI (Coq_xI (Coq_xI (Coq_xI (Coq_xI
    (Coq_xO (Coq_xO (Coq_xO (Coq_xO (Coq_xO (Coq_xI (Coq_xI
    Coq_xH))))))))))))))); ii_val = (Zpos (Coq_xI (Coq_xI (Coq_xO (Coq_xO
    (Coq_xO (Coq_xI (Coq_xI (Coq_xO (Coq_xO (Coq_xO (Coq_xO (Coq_xO (Coq_xI
    (Coq_xO Coq_xH))))))))))))))); ii_x = None; ii_alias =
    true } :: ({ ii_key = ('b'::('g'::('t'::('u'::[])))); ii_name =
    ('b'::('l'::('t'::('u'::[])))); ii_opcode = (Zpos (Coq_xI (Coq_xI (Coq_xO
    (Coq_xO (Coq_xO (Coq_xI Coq_xH))))))); ii_funct3 = (Zpos (Coq_xO (Coq_xI
    Coq_xH))); ii_funct7 = Z0; ii_type = ('B'::[]); ii_class =
    ('b'::('r'::('a'::('n'::('c'::('h'::('i'::('n'::('g'::[])))))))));
    ii_mask = (Zpos (Coq_xI (Coq_xI (Coq_xI (Coq_xI (Coq_xI (Coq_xI (Coq_xI
    (Coq_xO (Coq_xO (Coq_xO (Coq_xO (Coq_xO (Coq_xI (Coq_xI
    Coq_xH))))))))))))))); ii_val = (Zpos (Coq_xI (Coq_xI (Coq_xO (Coq_xO
    (Coq_xO (Coq_xI (Coq_xI (Coq_xO (Coq_xO (Coq_xO (Coq_xO (Coq_xO (Coq_xO
    (Coq_xI Coq_xH))))))))))))))); ii_x = None; ii_alias =
    true } :: ({ ii_key = ('b'::('l'::('e'::('u'::[])))); ii_name =
    ('b'::('g'::('e'::('u'::[])))); ii_opcode = (Zpos (Coq_xI (Coq_xI (Coq_xO
    (Coq_xO (Coq_xO (Coq_xI Coq_xH))))))); ii_funct3 = (Zpos (Coq_xI (Coq_xI
    Coq_xH))); ii_funct7 = Z0; ii_type = ('B'::[]); ii_class =
    ('b'::('r'::('a'::('n'::('c'::('h'::('i'::('n'::('g'::[])))))))));
    ii_mask = (Zpos (Coq_xI (Coq_xI (Coq_xI (Coq_xI (Coq_xI (Coq_xI (Coq_xI
    (Coq_xO (Coq_xO (Coq_xO (Coq_xO (Coq_xO (Coq_xI (Coq_xI
    Coq_xH))))))))))))))); ii_val = (Zpos (Coq_xI (Coq_xI (Coq_xO (Coq_xO
    (Coq_xO (Coq_xI (Coq_xI (Coq_xO (Coq_xO (Coq_xO (Coq_xO (Coq_xO (Coq_xI
    (Coq_xI Coq_xH))))))))))))))); ii_x = None; ii_alias =
    true } :: ({ ii_key = ('b'::('e'::('q'::('z'::[])))); ii_name =
    ('b'::('e'::('q'::[]))); ii_opcode = (Zpos (Coq_xI (Coq_xI (Coq_xO
    (Coq_xO (Coq_xO (Coq_xI Coq_xH))))))); ii_funct3 = Z0; ii_funct7 = Z0;
    ii_type = ('B'::[]); ii_class =
    ('b'::('r'::('a'::('n'::('c'::('h'::('i'::('n'::('g'::[])))))))));
    ii_mask = (Zpos (Coq_xI (Coq_xI (Coq_xI (Coq_xI (Coq_xI (Coq_xI (Coq_xI
    (Coq_xO (Coq_xO (Coq_xO (Coq_xO (Coq_xO (Coq_xI (Coq_xI
    Coq_xH))))))))))))))); ii_val = (Zpos (Coq_xI (Coq_xI (Coq_xO (Coq_xO
    (Coq_xO (Coq_xI Coq_xH))))))); ii_x = None; ii_alias =
    true } :: ({ ii_key = ('b'::('n'::('e'::('z'::[])))); ii_name =
    ('b'::('n'::('e'::[]))); ii_opcode = (Zpos (Coq_xI (Coq_xI (Coq_xO
    (Coq_xO (Coq_xO (Coq_xI Coq_xH))))))); ii_funct3 = (Zpos Coq_xH);
    ii_funct7 = Z0; ii_type = ('B'::[]); ii_class =
    ('b'::('r'::('a'::('n'::('c'::('h'::('i'::('n'::('g'::[])))))))));
    ii_mask = (Zpos (Coq_xI (Coq_xI (Coq_xI (Coq_xI (Coq_xI (Coq_xI (Coq_xI
    (Coq_xO (Coq_xO (Coq_xO (Coq_xO (Coq_xO (Coq_xI (Coq_xI
    Coq_xH))))))))))))))); ii_val = (Zpos (Coq_xI (Coq_xI (Coq_xO (Coq_xO
    (Coq_xO (Coq_xI (Coq_xI (Coq_xO (Coq_xO (Coq_xO (Coq_xO (Coq_xO
    Coq_xH))))))))))))); ii_x = None; ii_alias = true } :: ({ ii_key =
    ('b'::('l'::('e'::('z'::[])))); ii_name = ('b'::('g'::('e'::[])));
    ii_opcode = (Zpos (Coq_xI (Coq_xI (Coq_xO (Coq_xO (Coq_xO (Coq_xI
    Coq_xH))))))); ii_funct3 = (Zpos (Coq_xI (Coq_xO Coq_xH))); ii_funct7 =
    Z0; ii_type = ('B'::[]); ii_class =
    ('b'::('r'::('a'::('n'::('c'::('h'::('i'::('n'::('g'::[])))))))));
    ii_mask = (Zpos (Coq_xI (Coq_xI (Coq_xI (Coq_xI (Coq_xI (Coq_xI (Coq_xI
    (Coq_xO (Coq_xO (Coq_xO (Coq_xO (Coq_xO (Coq_xI (Coq_xI
    Coq_xH))))))))))))))); ii_val = (Zpos (Coq_xI (Coq_xI (Coq_xO (Coq_xO
    (Coq_xO (Coq_xI (Coq_xI (Coq_xO (Coq_xO (Coq_xO (Coq_xO (Coq_xO (Coq_xI
    (Coq_xO Coq_xH))))))))))))))); ii_x = None; ii_alias =
    true } :: ({ ii_key = ('b'::('g'::('e'::('z'::[])))); ii_name =
    ('b'::('g'::('e'::[]))); ii_opcode = (Zpos (Coq_xI (Coq_xI (Coq_xO
    (Coq_xO (Coq_xO (Coq_xI Coq_xH))))))); ii_funct3 = (Zpos (Coq_xI (Coq_xO
    Coq_xH))); ii_funct7 = Z0; ii_type = ('B'::[]); ii_class =
    ('b'::('r'::('a'::('n'::('c'::('h'::('i'::('n'::('g'::[])))))))));
    ii_mask = (Zpos (Coq_xI (Coq_xI (Coq_xI (Coq_xI (Coq_xI (Coq_xI (Coq_xI
    (Coq_xO (Coq_xO (Coq_xO (Coq_xO (Coq_xO (Coq_xI (Coq_xI
    Coq_xH))))))))))))))); ii_val = (Zpos (Coq_xI (Coq_xI (Coq_xO (Coq_xO
    (Coq_xO (Coq_xI (Coq_xI (Coq_xO (Coq_xO (Coq_xO (Coq_xO (Coq_xO (Coq_xI
    (Coq_xO Coq_xH))))))))))))))); ii_x = None; ii_alias =
    true } :: ({ ii_key = ('b'::('l'::('t'::('z'::[])))); ii_name =
    ('b'::('l'::('t'::[]))); ii_opcode = (Zpos (Coq_xI (Coq_xI (Coq_xO
    (Coq_xO (Coq_xO (Coq_xI Coq_xH))))))); ii_funct3 = (Zpos (Coq_xO (Coq_xO
    Coq_xH))); ii_funct7 = Z0; ii_type = ('B'::[]); ii_class =
    ('b'::('r'::('a'::('n'::('c'::('h'::('i'::('n'::('g'::[])))))))));
    ii_mask = (Zpos (Coq_xI (Coq_xI (Coq_xI (Coq_xI (Coq_xI (Coq_xI (Coq_xI
    (Coq_xO (Coq_xO (Coq_xO (Coq_xO (Coq_xO (Coq_xI (Coq_xI
    Coq_xH))))))))))))))); ii_val = (Zpos (Coq_xI (Coq_xI (Coq_xO (Coq_xO
    (Coq_xO (Coq_xI (Coq_xI (Coq_xO (Coq_xO (Coq_xO (Coq_xO (Coq_xO (Coq_xO
    (Coq_xO Coq_xH))))))))))))))); ii_x = None; ii_alias =
    true } :: ({ ii_key = ('b'::('g'::('t'::('z'::[])))); ii_name =
    ('b'::('l'::('t'::[]))); ii_opcode = (Zpos (Coq_xI (Coq_xI (Coq_xO
    (Coq_xO (Coq_xO (Coq_xI Coq_xH))))))); ii_funct3 = (Zpos (Coq_xO (Coq_xO
    Coq_xH))); ii_funct7 = Z0; ii_type = ('B'::[]); ii_class =
    ('b'::('r'::('a'::('n'::('c'::('h'::('i'::('n'::('g'::[])))))))));
    ii_mask = (Zpos (Coq_xI (Coq_xI (Coq_xI (Coq_xI (Coq_xI (Coq_xI (Coq_xI
    (Coq_xO (Coq_xO (Coq_xO (Coq_xO (Coq_xO (Coq_xI (Coq_xI
    Coq_xH))))))))))))))); ii_val = (Zpos (Coq_xI (Coq_xI (Coq_xO (Coq_xO
    (Coq_xO (Coq_xI (Coq_xI (Coq_xO (Coq_xO (Coq_xO (Coq_xO (Coq_xO (Coq_xO
    (Coq_xO Coq_xH))))))))))))))); ii_x = None; ii_alias =
    true } :: ({ ii_key =
    ('r'::('d'::('i'::('n'::('s'::('t'::('r'::('e'::('t'::[])))))))));
    ii_name = ('c'::('s'::('r'::('r'::('s'::[]))))); ii_opcode = (Zpos
    (Coq_xI (Coq_xI (Coq_xO (Coq_xO (Coq_xI (Coq_xI Coq_xH)))))));
    ii_funct3 = (Zpos (Coq_xO Coq_xH)); ii_funct7 = Z0; ii_type = ('I'::[]);
    ii_class = ('i'::('n'::('t'::('e'::('r'::('n'::('a'::('l'::[]))))))));
    ii_mask = (Zpos (Coq_xI (Coq_xI (Coq_xI (Coq_xI (Coq_xI (Coq_xI (Coq_xI
    (Coq_xO (Coq_xO (Coq_xO (Coq_xO (Coq_xO (Coq_xI (Coq_xI
    Coq_xH))))))))))))))); ii_val = (Zpos (Coq_xI (Coq_xI (Coq_xO (Coq_xO
    (Coq_xI (Coq_xI (Coq_xI (Coq_xO (Coq_xO (Coq_xO (Coq_xO (Coq_xO (Coq_xO
    Coq_xH)))))))))))))); ii_x = None; ii_alias = true } :: ({ ii_key =
    ('r'::('d'::('c'::('y'::('c'::('l'::('e'::[]))))))); ii_name =
    ('c'::('s'::('r'::('r'::('s'::[]))))); ii_opcode = (Zpos (Coq_xI (Coq_xI
    (Coq_xO (Coq_xO (Coq_xI (Coq_xI Coq_xH))))))); ii_funct3 = (Zpos (Coq_xO
    Coq_xH)); ii_funct7 = Z0; ii_type = ('I'::[]); ii_class =
    ('i'::('n'::('t'::('e'::('r'::('n'::('a'::('l'::[])))))))); ii_mask =
    (Zpos (Coq_xI (Coq_xI (Coq_xI (Coq_xI (Coq_xI (Coq_xI (Coq_xI (Coq_xO
    (Coq_xO (Coq_xO (Coq_xO (Coq_xO (Coq_xI (Coq_xI Coq_xH)))))))))))))));
    ii_val = (Zpos (Coq_xI (Coq_xI (Coq_xO (Coq_xO (Coq_xI (Coq_xI (Coq_xI
    (Coq_xO (Coq_xO (Coq_xO (Coq_xO (Coq_xO (Coq_xO Coq_xH))))))))))))));
    ii_x = None; ii_alias = true } :: ({ ii_key =
    ('r'::('d'::('t'::('i'::('m'::('e'::[])))))); ii_name =
    ('c'::('s'::('r'::('r'::('s'::[]))))); ii_opcode = (Zpos (Coq_xI (Coq_xI
    (Coq_xO (Coq_xO (Coq_xI (Coq_xI Coq_xH))))))); ii_funct3 = (Zpos (Coq_xO
    Coq_xH)); ii_funct7 = Z0; ii_type = ('I'::[]); ii_class =
    ('i'::('n'::('t'::('e'::('r'::('n'::('a'::('l'::[])))))))); ii_mask =
    (Zpos (Coq_xI (Coq_xI (Coq_xI (Coq_xI (Coq_xI (Coq_xI (Coq_xI (Coq_xO
    (Coq_xO (Coq_xO (Coq_xO (Coq_xO (Coq_xI (Coq_xI Coq_xH)))))))))))))));
    ii_val = (Zpos (Coq_xI (Coq_xI (Coq_xO (Coq_xO (Coq_xI (Coq_xI (Coq_xI
    (Coq_xO (Coq_xO (Coq_xO (Coq_xO (Coq_xO (Coq_xO Coq_xH))))))))))))));
    ii_x = None; ii_alias = true } :: ({ ii_key =
    ('c'::('s'::('r'::('r'::[])))); ii_name =
    ('c'::('s'::('r'::('r'::('s'::[]))))); ii_opcode = (Zpos (Coq_xI (Coq_xI
    (Coq_xO (Coq_xO (Coq_xI (Coq_xI Coq_xH))))))); ii_funct3 = (Zpos (Coq_xO
    Coq_xH)); ii_funct7 = Z0; ii_type = ('I'::[]); ii_class =
    ('i'::('n'::('t'::('e'::('r'::('n'::('a'::('l'::[])))))))); ii_mask =
    (Zpos (Coq_xI (Coq_xI (Coq_xI (Coq_xI (Coq_xI (Coq_xI (Coq_xI (Coq_xO
    (Coq_xO (Coq_xO (Coq_xO (Coq_xO (Coq_xI (Coq_xI Coq_xH)))))))))))))));
    ii_val = (Zpos (Coq_xI (Coq_xI (Coq_xO (Coq_xO (Coq_xI (Coq_xI (Coq_xI
    (Coq_xO (Coq_xO (Coq_xO (Coq_xO (Coq_xO (Coq_xO Coq_xH))))))))))))));
    ii_x = None; ii_alias = true } :: ({ ii_key =
    ('c'::('s'::('r'::('w'::[])))); ii_name =
    ('c'::('s'::('r'::('r'::('w'::[]))))); ii_opcode = (Zpos (Coq_xI (Coq_xI
    (Coq_xO (Coq_xO (Coq_xI (Coq_xI Coq_xH))))))); ii_funct3 = (Zpos Coq_xH);
    ii_funct7 = Z0; ii_type = ('I'::[]); ii_class =
    ('i'::('n'::('t'::('e'::('r'::('n'::('a'::('l'::[])))))))); ii_mask =
    (Zpos (Coq_xI (Coq_xI (Coq_xI (Coq_xI (Coq_xI (Coq_xI (Coq_xI (Coq_xO
    (Coq_xO (Coq_xO (Coq_xO (Coq_xO (Coq_xI (Coq_xI Coq_xH)))))))))))))));
    ii_val = (Zpos (Coq_xI (Coq_xI (Coq_xO (Coq_xO (Coq_xI (Coq_xI (Coq_xI
    (Coq_xO (Coq_xO (Coq_xO (Coq_xO (Coq_xO Coq_xH))))))))))))); ii_x = None;
    ii_alias = true } :: ({ ii_key = ('c'::('s'::('r'::('s'::[]))));
    ii_name = ('c'::('s'::('r'::('r'::('s'::[]))))); ii_opcode = (Zpos
    (Coq_xI (Coq_xI (Coq_xO (Coq_xO (Coq_xI (Coq_xI Coq_xH)))))));
    ii_funct3 = (Zpos (Coq_xO Coq_xH)); ii_funct7 = Z0; ii_type = ('I'::[]);
    ii_class = ('i'::('n'::('t'::('e'::('r'::('n'::('a'::('l'::[]))))))));
    ii_mask = (Zpos (Coq_xI (Coq_xI (Coq_xI (Coq_xI (Coq_xI (Coq_xI (Coq_xI
    (Coq_xO (Coq_xO (Coq_xO (Coq_xO (Coq_xO (Coq_xI (Coq_xI
    Coq_xH))))))))))))))); ii_val = (Zpos (Coq_xI (Coq_xI (Coq_xO (Coq_xO
    (Coq_xI (Coq_xI (Coq_xI (Coq_xO (Coq_xO (Coq_xO (Coq_xO (Coq_xO (Coq_xO
    Coq_xH)))))))))))))); ii_x = None; ii_alias = true } :: ({ ii_key =
    ('c'::('s'::('r'::('c'::[])))); ii_name =
    ('c'::('s'::('r'::('r'::('c'::[]))))); ii_opcode = (Zpos (Coq_xI (Coq_xI
    (Coq_xO (Coq_xO (Coq_xI (Coq_xI Coq_xH))))))); ii_funct3 = (Zpos (Coq_xI
    Coq_xH)); ii_funct7 = Z0; ii_type = ('I'::[]); ii_class =
    ('i'::('n'::('t'::('e'::('r'::('n'::('a'::('l'::[])))))))); ii_mask =
    (Zpos (Coq_xI (Coq_xI (Coq_xI (Coq_xI (Coq_xI (Coq_xI (Coq_xI (Coq_xO
    (Coq_xO (Coq_xO (Coq_xO (Coq_xO (Coq_xI (Coq_xI Coq_xH)))))))))))))));
    ii_val = (Zpos (Coq_xI (Coq_xI (Coq_xO (Coq_xO (Coq_xI (Coq_xI (Coq_xI
    (Coq_xO (Coq_xO (Coq_xO (Coq_xO (Coq_xO (Coq_xI Coq_xH))))))))))))));
    ii_x = None; ii_alias = true } :: ({ ii_key =
    ('c'::('s'::('r'::('w'::('i'::[]))))); ii_name =
    ('c'::('s'::('r'::('r'::('w'::('i'::[])))))); ii_opcode = (Zpos (Coq_xI
    (Coq_xI (Coq_xO (Coq_xO (Coq_xI (Coq_xI Coq_xH))))))); ii_funct3 = (Zpos
    (Coq_xI (Coq_xO Coq_xH))); ii_funct7 = Z0; ii_type = ('I'::[]);
    ii_class = ('i'::('n'::('t'::('e'::('r'::('n'::('a'::('l'::[]))))))));
    ii_mask = (Zpos (Coq_xI (Coq_xI (Coq_xI (Coq_xI (Coq_xI (Coq_xI (Coq_xI
    (Coq_xO (Coq_xO (Coq_xO (Coq_xO (Coq_xO (Coq_xI (Coq_xI
    Coq_xH))))))))))))))); ii_val = (Zpos (Coq_xI (Coq_xI (Coq_xO (Coq_xO
    (Coq_xI (Coq_xI (Coq_xI (Coq_xO (Coq_xO (Coq_xO (Coq_xO (Coq_xO (Coq_xI
    (Coq_xO Coq_xH))))))))))))))); ii_x = None; ii_alias =
    true } :: ({ ii_key = ('c'::('s'::('r'::('s'::('i'::[]))))); ii_name =
    ('c'::('s'::('r'::('r'::('s'::('i'::[])))))); ii_opcode = (Zpos (Coq_xI
    (Coq_xI (Coq_xO (Coq_xO (Coq_xI (Coq_xI Coq_xH))))))); ii_funct3 = (Zpos
    (Coq_xO (Coq_xI Coq_xH))); ii_funct7 = Z0; ii_type = ('I'::[]);
    ii_class = ('i'::('n'::('t'::('e'::('r'::('n'::('a'::('l'::[]))))))));
    ii_mask = (Zpos (Coq_xI (Coq_xI (Coq_xI (Coq_xI (Coq_xI (Coq_xI (Coq_xI
    (Coq_xO (Coq_xO (Coq_xO (Coq_xO (Coq_xO (Coq_xI (Coq_xI
    Coq_xH))))))))))))))); ii_val = (Zpos (Coq_xI (Coq_xI (Coq_xO (Coq_xO
    (Coq_xI (Coq_xI (Coq_xI (Coq_xO (Coq_xO (Coq_xO (Coq_xO (Coq_xO (Coq_xO
    (Coq_xI Coq_xH))))))))))))))); ii_x = None; ii_alias =
    true } :: ({ ii_key = ('c'::('s'::('r'::('c'::('i'::[]))))); ii_name =
    ('c'::('s'::('r'::('r'::('c'::('i'::[])))))); ii_opcode = (Zpos (Coq_xI
    (Coq_xI (Coq_xO (Coq_xO (Coq_xI (Coq_xI Coq_xH))))))); ii_funct3 = (Zpos
    (Coq_xI (Coq_xI Coq_xH))); ii_funct7 = Z0; ii_type = ('I'::[]);
    ii_class = ('i'::('n'::('t'::('e'::('r'::('n'::('a'::('l'::[]))))))));
    ii_mask = (Zpos (Coq_xI (Coq_xI (Coq_xI (Coq_xI (Coq_xI (Coq_xI (Coq_xI
    (Coq_xO (Coq_xO (Coq_xO (Coq_xO (Coq_xO (Coq_xI (Coq_xI
    Coq_xH))))))))))))))); ii_val = (Zpos (Coq_xI (Coq_xI (Coq_xO (Coq_xO
    (Coq_xI (Coq_xI (Coq_xI (Coq_xO (Coq_xO (Coq_xO (Coq_xO (Coq_xO (Coq_xI
    (Coq_xI Coq_xH))))))))))))))); ii_x = None; ii_alias =
    true } :: [])))))))))))))))))))))))))))))))))))))))))))))))))))))))))))))))))))))))))))))))))))))))))))))))))))))))

(** val rimi_table : iinfo list **)

let rimi_table =
  { ii_key = ('l'::('b'::('1'::[]))); ii_name = ('l'::('b'::('1'::[])));
    ii_opcode = (Zpos (Coq_xI (Coq_xI (Coq_xO Coq_xH)))); ii_funct3 = Z0;
    ii_funct7 = Z0; ii_type = ('I'::[]); ii_class =
    ('m'::('e'::('m'::('o'::('r'::('y'::[])))))); ii_mask = (Zpos (Coq_xI
    (Coq_xI (Coq_xI (Coq_xI (Coq_xI (Coq_xI (Coq_xI (Coq_xO (Coq_xO (Coq_xO
    (Coq_xO (Coq_xO (Coq_xI (Coq_xI Coq_xH))))))))))))))); ii_val = (Zpos
    (Coq_xI (Coq_xI (Coq_xO Coq_xH)))); ii_x = None; ii_alias =
    false } :: ({ ii_key = ('l'::('b'::('u'::('1'::[])))); ii_name =
    ('l'::('b'::('u'::('1'::[])))); ii_opcode = (Zpos (Coq_xI (Coq_xI (Coq_xO
    Coq_xH)))); ii_funct3 = (Zpos (Coq_xO (Coq_xO Coq_xH))); ii_funct7 = Z0;
    ii_type = ('I'::[]); ii_class =
    ('m'::('e'::('m'::('o'::('r'::('y'::[])))))); ii_mask = (Zpos (Coq_xI
    (Coq_xI (Coq_xI (Coq_xI (Coq_xI (Coq_xI (Coq_xI (Coq_xO (Coq_xO (Coq_xO
    (Coq_xO (Coq_xO (Coq_xI (Coq_xI Coq_xH))))))))))))))); ii_val = (Zpos
    (Coq_xI (Coq_xI (Coq_xO (Coq_xI (Coq_xO (Coq_xO (Coq_xO (Coq_xO (Coq_xO
    (Coq_xO (Coq_xO (Coq_xO (Coq_xO (Coq_xO Coq_xH))))))))))))))); ii_x =
    None; ii_alias = false } :: ({ ii_key = ('l'::('h'::('1'::[])));
    ii_name = ('l'::('h'::('1'::[]))); ii_opcode = (Zpos (Coq_xI (Coq_xI
    (Coq_xO Coq_xH)))); ii_funct3 = (Zpos Coq_xH); ii_funct7 = Z0; ii_type =
    ('I'::[]); ii_class = ('m'::('e'::('m'::('o'::('r'::('y'::[]))))));
    ii_mask = (Zpos (Coq_xI (Coq_xI (Coq_xI (Coq_xI (Coq_xI (Coq_xI (Coq_xI
    (Coq_xO (Coq_xO (Coq_xO (Coq_xO (Coq_xO (Coq_xI (Coq_xI
    Coq_xH))))))))))))))); ii_val = (Zpos (Coq_xI (Coq_xI (Coq_xO (Coq_xI
    (Coq_xO (Coq_xO (Coq_xO (Coq_xO (Coq_xO (Coq_xO (Coq_xO (Coq_xO
    Coq_xH))))))))))))); ii_x = None; ii_alias = false } :: ({ ii_key =
    ('l'::('h'::('u'::('1'::[])))); ii_name = ('l'::('h'::('u'::('1'::[]))));
    ii_opcode = (Zpos (Coq_xI (Coq_xI (Coq_xO Coq_xH)))); ii_funct3 = (Zpos
    (Coq_xI (Coq_xO Coq_xH))); ii_funct7 = Z0; ii_type = ('I'::[]);
    ii_class = ('m'::('e'::('m'::('o'::('r'::('y'::[])))))); ii_mask = (Zpos
    (Coq_xI (Coq_xI (Coq_xI (Coq_xI (Coq_xI (Coq_xI (Coq_xI (Coq_xO (Coq_xO
    (Coq_xO (Coq_xO (Coq_xO (Coq_xI (Coq_xI Coq_xH))))))))))))))); ii_val =
    (Zpos (Coq_xI (Coq_xI (Coq_xO (Coq_xI (Coq_xO (Coq_xO (Coq_xO (Coq_xO
    (Coq_xO (Coq_xO (Coq_xO (Coq_xO (Coq_xI (Coq_xO Coq_xH)))))))))))))));
    ii_x = None; ii_alias = false } :: ({ ii_key = ('l'::('w'::('1'::[])));
    ii_name = ('l'::('w'::('1'::[]))); ii_opcode = (Zpos (Coq_xI (Coq_xI
    (Coq_xO Coq_xH)))); ii_funct3 = (Zpos (Coq_xO Coq_xH)); ii_funct7 = Z0;
    ii_type = ('I'::[]); ii_class =
    ('m'::('e'::('m'::('o'::('r'::('y'::[])))))); ii_mask = (Zpos (Coq_xI
    (Coq_xI (Coq_xI (Coq_xI (Coq_xI (Coq_xI (Coq_xI (Coq_xO (Coq_xO (Coq_xO
    (Coq_xO (Coq_xO (Coq_xI (Coq_xI Coq_xH))))))))))))))); ii_val = (Zpos
    (Coq_xI (Coq_xI (Coq_xO (Coq_xI (Coq_xO (Coq_xO (Coq_xO (Coq_xO (Coq_xO
    (Coq_xO (Coq_xO (Coq_xO (Coq_xO Coq_xH)))))))))))))); ii_x = None;
    ii_alias = false } :: ({ ii_key = ('l'::('w'::('u'::('1'::[]))));
    ii_name = ('l'::('w'::('u'::('1'::[])))); ii_opcode = (Zpos (Coq_xI
    (Coq_xI (Coq_xO Coq_xH)))); ii_funct3 = (Zpos (Coq_xO (Coq_xI Coq_xH)));
    ii_funct7 = Z0; ii_type = ('I'::[]); ii_class =
    ('m'::('e'::('m'::('o'::('r'::('y'::[])))))); ii_mask = (Zpos (Coq_xI
    (Coq_xI (Coq_xI (Coq_xI (Coq_xI (Coq_xI (Coq_xI (Coq_xO (Coq_xO (Coq_xO
    (Coq_xO (Coq_xO (Coq_xI (Coq_xI Coq_xH))))))))))))))); ii_val = (Zpos
    (Coq_xI (Coq_xI (Coq_xO (Coq_xI (Coq_xO (Coq_xO (Coq_xO (Coq_xO (Coq_xO
    (Coq_xO (Coq_xO (Coq_xO (Coq_xO (Coq_xI Coq_xH))))))))))))))); ii_x =
    None; ii_alias = false } :: ({ ii_key = ('l'::('d'::('1'::[])));
    ii_name = ('l'::('d'::('1'::[]))); ii_opcode = (Zpos (Coq_xI (Coq_xI
    (Coq_xO Coq_xH)))); ii_funct3 = (Zpos (Coq_xI Coq_xH)); ii_funct7 = Z0;
    ii_type = ('I'::[]); ii_class =
    ('m'::('e'::('m'::('o'::('r'::('y'::[])))))); ii_mask = (Zpos (Coq_xI
    (Coq_xI (Coq_xI (Coq_xI (Coq_xI (Coq_xI (Coq_xI (Coq_xO (Coq_xO (Coq_xO
    (Coq_xO (Coq_xO (Coq_xI (Coq_xI Coq_xH))))))))))))))); ii_val = (Zpos
    (Coq_xI (Coq_xI (Coq_xO (Coq_xI (Coq_xO (Coq_xO (Coq_xO (Coq_xO (Coq_xO
    (Coq_xO (Coq_xO (Coq_xO (Coq_xI Coq_xH)))))))))))))); ii_x = None;
    ii_alias = false } :: ({ ii_key = ('s'::('b'::('1'::[]))); ii_name =
    ('s'::('b'::('1'::[]))); ii_opcode = (Zpos (Coq_xI (Coq_xI (Coq_xO
    (Coq_xI (Coq_xO Coq_xH)))))); ii_funct3 = Z0; ii_funct7 = Z0; ii_type =
    ('S'::[]); ii_class = ('m'::('e'::('m'::('o'::('r'::('y'::[]))))));
    ii_mask = (Zpos (Coq_xI (Coq_xI (Coq_xI (Coq_xI (Coq_xI (Coq_xI (Coq_xI
    (Coq_xO (Coq_xO (Coq_xO (Coq_xO (Coq_xO (Coq_xI (Coq_xI
    Coq_xH))))))))))))))); ii_val = (Zpos (Coq_xI (Coq_xI (Coq_xO (Coq_xI
    (Coq_xO Coq_xH)))))); ii_x = None; ii_alias = false } :: ({ ii_key =
    ('s'::('h'::('1'::[]))); ii_name = ('s'::('h'::('1'::[]))); ii_opcode =
    (Zpos (Coq_xI (Coq_xI (Coq_xO (Coq_xI (Coq_xO Coq_xH)))))); ii_funct3 =
    (Zpos Coq_xH); ii_funct7 = Z0; ii_type = ('S'::[]); ii_class =
    ('m'::('e'::('m'::('o'::('r'::('y'::[])))))); ii_mask = (Zpos (Coq_xI
    (Coq_xI (Coq_xI (Coq_xI (Coq_xI (Coq_xI (Coq_xI (Coq_xO (Coq_xO (Coq_xO
    (Coq_xO (Coq_xO (Coq_xI (Coq_xI Coq_xH))))))))))))))); ii_val = (Zpos
    (Coq_xI (Coq_xI (Coq_xO (Coq_xI (Coq_xO (Coq_xI (Coq_xO (Coq_xO (Coq_xO
    (Coq_xO (Coq_xO (Coq_xO Coq_xH))))))))))))); ii_x = None; ii_alias =
    false } :: ({ ii_key = ('s'::('w'::('1'::[]))); ii_name =
    ('s'::('w'::('1'::[]))); ii_opcode = (Zpos (Coq_xI (Coq_xI (Coq_xO
    (Coq_xI (Coq_xO Coq_xH)))))); ii_funct3 = (Zpos (Coq_xO Coq_xH));
    ii_funct7 = Z0; ii_type = ('S'::[]); ii_class =
    ('m'::('e'::('m'::('o'::('r'::('y'::[])))))); ii_mask = (Zpos (Coq_xI
    (Coq_xI (Coq_xI (Coq_xI (Coq_xI (Coq_xI (Coq_xI (Coq_xO (Coq_xO (Coq_xO
    (Coq_xO (Coq_xO (Coq_xI (Coq_xI Coq_xH))))))))))))))); ii_val = (Zpos
    (Coq_xI (Coq_xI (Coq_xO (Coq_xI (Coq_xO (Coq_xI (Coq_xO (Coq_xO (Coq_xO
    (Coq_xO (Coq_xO (Coq_xO (Coq_xO Coq_xH)))))))))))))); ii_x = None;
    ii_alias = false } :: ({ ii_key = ('s'::('d'::('1'::[]))); ii_name =
    ('s'::('d'::('1'::[]))); ii_opcode = (Zpos (Coq_xI (Coq_xI (Coq_xO
    (Coq_xI (Coq_xO Coq_xH)))))); ii_funct3 = (Zpos (Coq_xI Coq_xH));
    ii_funct7 = Z0; ii_type = ('S'::[]); ii_class =
    ('m'::('e'::('m'::('o'::('r'::('y'::[])))))); ii_mask = (Zpos (Coq_xI
    (Coq_xI (Coq_xI (Coq_xI (Coq_xI (Coq_xI (Coq_xI (Coq_xO (Coq_xO (Coq_xO
    (Coq_xO (Coq_xO (Coq_xI (Coq_xI Coq_xH))))))))))))))); ii_val = (Zpos
    (Coq_xI (Coq_xI (Coq_xO (Coq_xI (Coq_xO (Coq_xI (Coq_xO (Coq_xO (Coq_xO
    (Coq_xO (Coq_xO (Coq_xO (Coq_xI Coq_xH)))))))))))))); ii_x = None;
    ii_alias = false } :: ({ ii_key = ('c'::('h'::('d'::('o'::('m'::[])))));
    ii_name = ('c'::('h'::('d'::('o'::('m'::[]))))); ii_opcode = (Zpos
    (Coq_xI (Coq_xI (Coq_xO (Coq_xI (Coq_xI (Coq_xO Coq_xH)))))));
    ii_funct3 = (Zpos Coq_xH); ii_funct7 = Z0; ii_type = ('I'::[]);
    ii_class =
    ('b'::('r'::('a'::('n'::('c'::('h'::('i'::('n'::('g'::[])))))))));
    ii_mask = (Zpos (Coq_xI (Coq_xI (Coq_xI (Coq_xI (Coq_xI (Coq_xI (Coq_xI
    (Coq_xO (Coq_xO (Coq_xO (Coq_xO (Coq_xO (Coq_xI (Coq_xI
    Coq_xH))))))))))))))); ii_val = (Zpos (Coq_xI (Coq_xI (Coq_xO (Coq_xI
    (Coq_xI (Coq_xO (Coq_xI (Coq_xO (Coq_xO (Coq_xO (Coq_xO (Coq_xO
    Coq_xH))))))))))))); ii_x = None; ii_alias = false } :: ({ ii_key =
    ('r'::('e'::('t'::('d'::('o'::('m'::[])))))); ii_name =
    ('r'::('e'::('t'::('d'::('o'::('m'::[])))))); ii_opcode = (Zpos (Coq_xI
    (Coq_xI (Coq_xO (Coq_xI (Coq_xI (Coq_xO Coq_xH))))))); ii_funct3 = Z0;
    ii_funct7 = Z0; ii_type = ('I'::[]); ii_class =
    ('b'::('r'::('a'::('n'::('c'::('h'::('i'::('n'::('g'::[])))))))));
    ii_mask = (Zpos (Coq_xI (Coq_xI (Coq_xI (Coq_xI (Coq_xI (Coq_xI (Coq_xI
    (Coq_xO (Coq_xO (Coq_xO (Coq_xO (Coq_xO (Coq_xI (Coq_xI
    Coq_xH))))))))))))))); ii_val = (Zpos (Coq_xI (Coq_xI (Coq_xO (Coq_xI
    (Coq_xI (Coq_xO Coq_xH))))))); ii_x = None; ii_alias =
    false } :: ({ ii_key = ('s'::('s'::('t'::[]))); ii_name =
    ('s'::('s'::('t'::[]))); ii_opcode = (Zpos (Coq_xI (Coq_xI (Coq_xO
    (Coq_xI (Coq_xO Coq_xH)))))); ii_funct3 = (Zpos (Coq_xI (Coq_xI
    Coq_xH))); ii_funct7 = Z0; ii_type = ('S'::[]); ii_class =
    ('m'::('e'::('m'::('o'::('r'::('y'::[])))))); ii_mask = (Zpos (Coq_xI
    (Coq_xI (Coq_xI (Coq_xI (Coq_xI (Coq_xI (Coq_xI (Coq_xO (Coq_xO (Coq_xO
    (Coq_xO (Coq_xO (Coq_xI (Coq_xI Coq_xH))))))))))))))); ii_val = (Zpos
    (Coq_xI (Coq_xI (Coq_xO (Coq_xI (Coq_xO (Coq_xI (Coq_xO (Coq_xO (Coq_xO
    (Coq_xO (Coq_xO (Coq_xO (Coq_xI (Coq_xI Coq_xH))))))))))))))); ii_x =
    None; ii_alias = false } :: ({ ii_key = ('l'::('s'::('t'::[])));
    ii_name = ('l'::('s'::('t'::[]))); ii_opcode = (Zpos (Coq_xI (Coq_xI
    (Coq_xO Coq_xH)))); ii_funct3 = (Zpos (Coq_xI (Coq_xI Coq_xH)));
    ii_funct7 = Z0; ii_type = ('I'::[]); ii_class =
    ('m'::('e'::('m'::('o'::('r'::('y'::[])))))); ii_mask = (Zpos (Coq_xI
    (Coq_xI (Coq_xI (Coq_xI (Coq_xI (Coq_xI (Coq_xI (Coq_xO (Coq_xO (Coq_xO
    (Coq_xO (Coq_xO (Coq_xI (Coq_xI Coq_xH))))))))))))))); ii_val = (Zpos
    (Coq_xI (Coq_xI (Coq_xO (Coq_xI (Coq_xO (Coq_xO (Coq_xO (Coq_xO (Coq_xO
    (Coq_xO (Coq_xO (Coq_xO (Coq_xI (Coq_xI Coq_xH))))))))))))))); ii_x =
    None; ii_alias = false } :: []))))))))))))))

(** val fixer_table : iinfo list **)

let fixer_table =
  { ii_key = ('c'::('f'::('i'::('c'::('a'::('l'::('l'::[]))))))); ii_name =
    ('c'::('f'::('i'::('c'::('a'::('l'::('l'::[]))))))); ii_opcode = (Zpos
    (Coq_xI (Coq_xI (Coq_xO Coq_xH)))); ii_funct3 = (Zpos (Coq_xO Coq_xH));
    ii_funct7 = Z0; ii_type = ('R'::[]); ii_class =
    ('f'::('i'::('x'::('e'::('r'::[]))))); ii_mask = (Zpos (Coq_xI (Coq_xI
    (Coq_xI (Coq_xI (Coq_xI (Coq_xI (Coq_xI (Coq_xO (Coq_xO (Coq_xO (Coq_xO
    (Coq_xO (Coq_xI (Coq_xI (Coq_xI (Coq_xO (Coq_xO (Coq_xO (Coq_xO (Coq_xO
    (Coq_xO (Coq_xO (Coq_xO (Coq_xO (Coq_xO (Coq_xI (Coq_xI (Coq_xI (Coq_xI
    (Coq_xI (Coq_xI Coq_xH)))))))))))))))))))))))))))))))); ii_val = (Zpos
    (Coq_xI (Coq_xI (Coq_xO (Coq_xI (Coq_xO (Coq_xO (Coq_xO (Coq_xO (Coq_xO
    (Coq_xO (Coq_xO (Coq_xO (Coq_xO Coq_xH)))))))))))))); ii_x = (Some ((Z0,
    (Zpos Coq_xH)), Z0)); ii_alias = false } :: ({ ii_key =
    ('c'::('f'::('i'::('r'::('e'::('t'::[])))))); ii_name =
    ('c'::('f'::('i'::('r'::('e'::('t'::[])))))); ii_opcode = (Zpos (Coq_xI
    (Coq_xI (Coq_xO Coq_xH)))); ii_funct3 = (Zpos (Coq_xO (Coq_xO Coq_xH)));
    ii_funct7 = (Zpos Coq_xH); ii_type = ('R'::[]); ii_class =
    ('f'::('i'::('x'::('e'::('r'::[]))))); ii_mask = (Zpos (Coq_xI (Coq_xI
    (Coq_xI (Coq_xI (Coq_xI (Coq_xI (Coq_xI (Coq_xO (Coq_xO (Coq_xO (Coq_xO
    (Coq_xO (Coq_xI (Coq_xI (Coq_xI (Coq_xO (Coq_xO (Coq_xO (Coq_xO (Coq_xO
    (Coq_xO (Coq_xO (Coq_xO (Coq_xO (Coq_xO (Coq_xI (Coq_xI (Coq_xI (Coq_xI
    (Coq_xI (Coq_xI Coq_xH)))))))))))))))))))))))))))))))); ii_val = (Zpos
    (Coq_xI (Coq_xI (Coq_xO (Coq_xI (Coq_xO (Coq_xO (Coq_xO (Coq_xO (Coq_xO
    (Coq_xO (Coq_xO (Coq_xO (Coq_xO (Coq_xO (Coq_xI (Coq_xO (Coq_xO (Coq_xO
    (Coq_xO (Coq_xO (Coq_xO (Coq_xO (Coq_xO (Coq_xO (Coq_xO
    Coq_xH)))))))))))))))))))))))))); ii_x = (Some (((Zpos Coq_xH), Z0),
    Z0)); ii_alias = false } :: [])
