open BinInt
open BinNums

type rop =
| ADD
| SUB
| SLL
| SLT
| SLTU
| XOR
| SRL
| SRA
| OR
| AND
| MUL
| MULH
| MULHSU
| MULHU
| DIV
| DIVU
| REM
| REMU
| ADDW
| SUBW
| SLLW
| SRLW
| SRAW
| MULW
| DIVW
| DIVUW
| REMW
| REMUW

type iop =
| ADDI
| SLTI
| SLTIU
| XORI
| ORI
| ANDI
| ADDIW

type shop =
| SLLI
| SRLI
| SRAI
| SLLIW
| SRLIW
| SRAIW

type lop =
| LB
| LH
| LW
| LD
| LBU
| LHU
| LWU

type sop =
| SB
| SH
| SW
| SD

type bop =
| BEQ
| BNE
| BLT
| BGE
| BLTU
| BGEU

type csrop =
| CSRRW
| CSRRS
| CSRRC
| CSRRWI
| CSRRSI
| CSRRCI

type instr =
| Rop of rop * coq_Z * coq_Z * coq_Z
| Iop of iop * coq_Z * coq_Z * coq_Z
| Shift of shop * coq_Z * coq_Z * coq_Z
| Load of lop * coq_Z * coq_Z * coq_Z
| Store of sop * coq_Z * coq_Z * coq_Z
| Branch of bop * coq_Z * coq_Z * coq_Z
| Lui of coq_Z * coq_Z
| Auipc of coq_Z * coq_Z
| Jal of coq_Z * coq_Z
| Jalr of coq_Z * coq_Z * coq_Z
| Ecall
| Ebreak
| Fence of coq_Z * coq_Z * coq_Z
| FenceI of coq_Z * coq_Z * coq_Z
| Csr of csrop * coq_Z * coq_Z * coq_Z
| Load1 of lop * coq_Z * coq_Z * coq_Z
| Store1 of sop * coq_Z * coq_Z * coq_Z
| Lst of coq_Z * coq_Z * coq_Z
| Sst of coq_Z * coq_Z * coq_Z
| Chdom of coq_Z * coq_Z * coq_Z
| Retdom of coq_Z * coq_Z * coq_Z
| Cficall of coq_Z * coq_Z * coq_Z
| Cfiret of coq_Z * coq_Z * coq_Z

type ext =
| ExtNone
| ExtRimi
| ExtFixer

(** val f_op : coq_Z -> coq_Z **)

let f_op w =
  Z.modulo w (Zpos (Coq_xO (Coq_xO (Coq_xO (Coq_xO (Coq_xO (Coq_xO (Coq_xO
    Coq_xH))))))))

(** val f_rd : coq_Z -> coq_Z **)

let f_rd w =
  Z.modulo
    (Z.div w (Zpos (Coq_xO (Coq_xO (Coq_xO (Coq_xO (Coq_xO (Coq_xO (Coq_xO
      Coq_xH))))))))) (Zpos (Coq_xO (Coq_xO (Coq_xO (Coq_xO (Coq_xO
    Coq_xH))))))

(** val f_f3 : coq_Z -> coq_Z **)

let f_f3 w =
  Z.modulo
    (Z.div w (Zpos (Coq_xO (Coq_xO (Coq_xO (Coq_xO (Coq_xO (Coq_xO (Coq_xO
      (Coq_xO (Coq_xO (Coq_xO (Coq_xO (Coq_xO Coq_xH)))))))))))))) (Zpos
    (Coq_xO (Coq_xO (Coq_xO Coq_xH))))

(** val f_rs1 : coq_Z -> coq_Z **)

let f_rs1 w =
  Z.modulo
    (Z.div w (Zpos (Coq_xO (Coq_xO (Coq_xO (Coq_xO (Coq_xO (Coq_xO (Coq_xO
      (Coq_xO (Coq_xO (Coq_xO (Coq_xO (Coq_xO (Coq_xO (Coq_xO (Coq_xO
      Coq_xH))))))))))))))))) (Zpos (Coq_xO (Coq_xO (Coq_xO (Coq_xO (Coq_xO
    Coq_xH))))))

(** val f_rs2 : coq_Z -> coq_Z **)

let f_rs2 w =
  Z.modulo
    (Z.div w (Zpos (Coq_xO (Coq_xO (Coq_xO (Coq_xO (Coq_xO (Coq_xO (Coq_xO
      (Coq_xO (Coq_xO (Coq_xO (Coq_xO (Coq_xO (Coq_xO (Coq_xO (Coq_xO (Coq_xO
      (Coq_xO (Coq_xO (Coq_xO (Coq_xO Coq_xH)))))))))))))))))))))) (Zpos
    (Coq_xO (Coq_xO (Coq_xO (Coq_xO (Coq_xO Coq_xH))))))

(** val f_f7 : coq_Z -> coq_Z **)

let f_f7 w =
  Z.modulo
    (Z.div w (Zpos (Coq_xO (Coq_xO (Coq_xO (Coq_xO (Coq_xO (Coq_xO (Coq_xO
      (Coq_xO (Coq_xO (Coq_xO (Coq_xO (Coq_xO (Coq_xO (Coq_xO (Coq_xO (Coq_xO
      (Coq_xO (Coq_xO (Coq_xO (Coq_xO (Coq_xO (Coq_xO (Coq_xO (Coq_xO (Coq_xO
      Coq_xH))))))))))))))))))))))))))) (Zpos (Coq_xO (Coq_xO (Coq_xO (Coq_xO
    (Coq_xO (Coq_xO (Coq_xO Coq_xH))))))))

(** val mkword :
    coq_Z -> coq_Z -> coq_Z -> coq_Z -> coq_Z -> coq_Z -> coq_Z **)

let mkword op rd f3 rs1 rs2 f7 =
  Z.add
    (Z.add
      (Z.add
        (Z.add
          (Z.add op
            (Z.mul rd (Zpos (Coq_xO (Coq_xO (Coq_xO (Coq_xO (Coq_xO (Coq_xO
              (Coq_xO Coq_xH))))))))))
          (Z.mul f3 (Zpos (Coq_xO (Coq_xO (Coq_xO (Coq_xO (Coq_xO (Coq_xO
            (Coq_xO (Coq_xO (Coq_xO (Coq_xO (Coq_xO (Coq_xO
            Coq_xH)))))))))))))))
        (Z.mul rs1 (Zpos (Coq_xO (Coq_xO (Coq_xO (Coq_xO (Coq_xO (Coq_xO
          (Coq_xO (Coq_xO (Coq_xO (Coq_xO (Coq_xO (Coq_xO (Coq_xO (Coq_xO
          (Coq_xO Coq_xH))))))))))))))))))
      (Z.mul rs2 (Zpos (Coq_xO (Coq_xO (Coq_xO (Coq_xO (Coq_xO (Coq_xO
        (Coq_xO (Coq_xO (Coq_xO (Coq_xO (Coq_xO (Coq_xO (Coq_xO (Coq_xO
        (Coq_xO (Coq_xO (Coq_xO (Coq_xO (Coq_xO (Coq_xO
        Coq_xH)))))))))))))))))))))))
    (Z.mul f7 (Zpos (Coq_xO (Coq_xO (Coq_xO (Coq_xO (Coq_xO (Coq_xO (Coq_xO
      (Coq_xO (Coq_xO (Coq_xO (Coq_xO (Coq_xO (Coq_xO (Coq_xO (Coq_xO (Coq_xO
      (Coq_xO (Coq_xO (Coq_xO (Coq_xO (Coq_xO (Coq_xO (Coq_xO (Coq_xO (Coq_xO
      Coq_xH)))))))))))))))))))))))))))

(** val sext : coq_Z -> coq_Z -> coq_Z **)

let sext v n =
  if Z.ltb v (Z.pow (Zpos (Coq_xO Coq_xH)) (Z.sub n (Zpos Coq_xH)))
  then v
  else Z.sub v (Z.pow (Zpos (Coq_xO Coq_xH)) n)

(** val usig : coq_Z -> coq_Z -> coq_Z **)

let usig v n =
  Z.modulo v (Z.pow (Zpos (Coq_xO Coq_xH)) n)

(** val immf_i : coq_Z -> coq_Z -> coq_Z **)

let immf_i rs2 f7 =
  sext
    (Z.add rs2
      (Z.mul (Zpos (Coq_xO (Coq_xO (Coq_xO (Coq_xO (Coq_xO Coq_xH)))))) f7))
    (Zpos (Coq_xO (Coq_xO (Coq_xI Coq_xH))))

(** val immf_s : coq_Z -> coq_Z -> coq_Z **)

let immf_s rd f7 =
  sext
    (Z.add rd
      (Z.mul (Zpos (Coq_xO (Coq_xO (Coq_xO (Coq_xO (Coq_xO Coq_xH)))))) f7))
    (Zpos (Coq_xO (Coq_xO (Coq_xI Coq_xH))))

(** val immf_b : coq_Z -> coq_Z -> coq_Z **)

let immf_b rd f7 =
  sext
    (Z.add
      (Z.add
        (Z.add
          (Z.mul (Zpos (Coq_xO Coq_xH)) (Z.div rd (Zpos (Coq_xO Coq_xH))))
          (Z.mul (Zpos (Coq_xO (Coq_xO (Coq_xO (Coq_xO (Coq_xO Coq_xH))))))
            (Z.modulo f7 (Zpos (Coq_xO (Coq_xO (Coq_xO (Coq_xO (Coq_xO
              (Coq_xO Coq_xH))))))))))
        (Z.mul (Zpos (Coq_xO (Coq_xO (Coq_xO (Coq_xO (Coq_xO (Coq_xO (Coq_xO
          (Coq_xO (Coq_xO (Coq_xO (Coq_xO Coq_xH))))))))))))
          (Z.modulo rd (Zpos (Coq_xO Coq_xH)))))
      (Z.mul (Zpos (Coq_xO (Coq_xO (Coq_xO (Coq_xO (Coq_xO (Coq_xO (Coq_xO
        (Coq_xO (Coq_xO (Coq_xO (Coq_xO (Coq_xO Coq_xH)))))))))))))
        (Z.div f7 (Zpos (Coq_xO (Coq_xO (Coq_xO (Coq_xO (Coq_xO (Coq_xO
          Coq_xH)))))))))) (Zpos (Coq_xI (Coq_xO (Coq_xI Coq_xH))))

(** val immf_u : coq_Z -> coq_Z -> coq_Z -> coq_Z -> coq_Z **)

let immf_u f3 rs1 rs2 f7 =
  sext
    (Z.add
      (Z.add (Z.add f3 (Z.mul (Zpos (Coq_xO (Coq_xO (Coq_xO Coq_xH)))) rs1))
        (Z.mul (Zpos (Coq_xO (Coq_xO (Coq_xO (Coq_xO (Coq_xO (Coq_xO (Coq_xO
          (Coq_xO Coq_xH))))))))) rs2))
      (Z.mul (Zpos (Coq_xO (Coq_xO (Coq_xO (Coq_xO (Coq_xO (Coq_xO (Coq_xO
        (Coq_xO (Coq_xO (Coq_xO (Coq_xO (Coq_xO (Coq_xO Coq_xH))))))))))))))
        f7)) (Zpos (Coq_xO (Coq_xO (Coq_xI (Coq_xO Coq_xH)))))

(** val immf_j : coq_Z -> coq_Z -> coq_Z -> coq_Z -> coq_Z **)

let immf_j f3 rs1 rs2 f7 =
  sext
    (Z.add
      (Z.add
        (Z.add
          (Z.add
            (Z.mul (Zpos (Coq_xO Coq_xH)) (Z.div rs2 (Zpos (Coq_xO Coq_xH))))
            (Z.mul (Zpos (Coq_xO (Coq_xO (Coq_xO (Coq_xO (Coq_xO Coq_xH))))))
              (Z.modulo f7 (Zpos (Coq_xO (Coq_xO (Coq_xO (Coq_xO (Coq_xO
                (Coq_xO Coq_xH))))))))))
          (Z.mul (Zpos (Coq_xO (Coq_xO (Coq_xO (Coq_xO (Coq_xO (Coq_xO
            (Coq_xO (Coq_xO (Coq_xO (Coq_xO (Coq_xO Coq_xH))))))))))))
            (Z.modulo rs2 (Zpos (Coq_xO Coq_xH)))))
        (Z.mul (Zpos (Coq_xO (Coq_xO (Coq_xO (Coq_xO (Coq_xO (Coq_xO (Coq_xO
          (Coq_xO (Coq_xO (Coq_xO (Coq_xO (Coq_xO Coq_xH)))))))))))))
          (Z.add f3 (Z.mul (Zpos (Coq_xO (Coq_xO (Coq_xO Coq_xH)))) rs1))))
      (Z.mul (Zpos (Coq_xO (Coq_xO (Coq_xO (Coq_xO (Coq_xO (Coq_xO (Coq_xO
        (Coq_xO (Coq_xO (Coq_xO (Coq_xO (Coq_xO (Coq_xO (Coq_xO (Coq_xO
        (Coq_xO (Coq_xO (Coq_xO (Coq_xO (Coq_xO Coq_xH)))))))))))))))))))))
        (Z.div f7 (Zpos (Coq_xO (Coq_xO (Coq_xO (Coq_xO (Coq_xO (Coq_xO
          Coq_xH)))))))))) (Zpos (Coq_xI (Coq_xO (Coq_xI (Coq_xO Coq_xH)))))

(** val dec_op : coq_Z -> coq_Z -> rop option **)

let dec_op f7 f3 =
  match f7 with
  | Z0 ->
    (match f3 with
     | Z0 -> Some ADD
     | Zpos p ->
       (match p with
        | Coq_xI p0 ->
          (match p0 with
           | Coq_xI p1 -> (match p1 with
                           | Coq_xH -> Some AND
                           | _ -> None)
           | Coq_xO p1 -> (match p1 with
                           | Coq_xH -> Some SRL
                           | _ -> None)
           | Coq_xH -> Some SLTU)
        | Coq_xO p0 ->
          (match p0 with
           | Coq_xI p1 -> (match p1 with
                           | Coq_xH -> Some OR
                           | _ -> None)
           | Coq_xO p1 -> (match p1 with
                           | Coq_xH -> Some XOR
                           | _ -> None)
           | Coq_xH -> Some SLT)
        | Coq_xH -> Some SLL)
     | Zneg _ -> None)
  | Zpos p ->
    (match p with
     | Coq_xI _ -> None
     | Coq_xO p0 ->
       (match p0 with
        | Coq_xO p1 ->
          (match p1 with
           | Coq_xO p2 ->
             (match p2 with
              | Coq_xO p3 ->
                (match p3 with
                 | Coq_xO p4 ->
                   (match p4 with
                    | Coq_xH ->
                      (match f3 with
                       | Z0 -> Some SUB
                       | Zpos p5 ->
                         (match p5 with
                          | Coq_xI p6 ->
                            (match p6 with
                             | Coq_xO p7 ->
                               (match p7 with
                                | Coq_xH -> Some SRA
                                | _ -> None)
                             | _ -> None)
                          | _ -> None)
                       | Zneg _ -> None)
                    | _ -> None)
                 | _ -> None)
              | _ -> None)
           | _ -> None)
        | _ -> None)
     | Coq_xH ->
       (match f3 with
        | Z0 -> Some MUL
        | Zpos p0 ->
          (match p0 with
           | Coq_xI p1 ->
             (match p1 with
              | Coq_xI p2 -> (match p2 with
                              | Coq_xH -> Some REMU
                              | _ -> None)
              | Coq_xO p2 -> (match p2 with
                              | Coq_xH -> Some DIVU
                              | _ -> None)
              | Coq_xH -> Some MULHU)
           | Coq_xO p1 ->
             (match p1 with
              | Coq_xI p2 -> (match p2 with
                              | Coq_xH -> Some REM
                              | _ -> None)
              | Coq_xO p2 -> (match p2 with
                              | Coq_xH -> Some DIV
                              | _ -> None)
              | Coq_xH -> Some MULHSU)
           | Coq_xH -> Some MULH)
        | Zneg _ -> None))
  | Zneg _ -> None

(** val dec_op32 : coq_Z -> coq_Z -> rop option **)

let dec_op32 f7 f3 =
  match f7 with
  | Z0 ->
    (match f3 with
     | Z0 -> Some ADDW
     | Zpos p ->
       (match p with
        | Coq_xI p0 ->
          (match p0 with
           | Coq_xO p1 -> (match p1 with
                           | Coq_xH -> Some SRLW
                           | _ -> None)
           | _ -> None)
        | Coq_xO _ -> None
        | Coq_xH -> Some SLLW)
     | Zneg _ -> None)
  | Zpos p ->
    (match p with
     | Coq_xI _ -> None
     | Coq_xO p0 ->
       (match p0 with
        | Coq_xO p1 ->
          (match p1 with
           | Coq_xO p2 ->
             (match p2 with
              | Coq_xO p3 ->
                (match p3 with
                 | Coq_xO p4 ->
                   (match p4 with
                    | Coq_xH ->
                      (match f3 with
                       | Z0 -> Some SUBW
                       | Zpos p5 ->
                         (match p5 with
                          | Coq_xI p6 ->
                            (match p6 with
                             | Coq_xO p7 ->
                               (match p7 with
                                | Coq_xH -> Some SRAW
                                | _ -> None)
                             | _ -> None)
                          | _ -> None)
                       | Zneg _ -> None)
                    | _ -> None)
                 | _ -> None)
              | _ -> None)
           | _ -> None)
        | _ -> None)
     | Coq_xH ->
       (match f3 with
        | Z0 -> Some MULW
        | Zpos p0 ->
          (match p0 with
           | Coq_xI p1 ->
             (match p1 with
              | Coq_xI p2 -> (match p2 with
                              | Coq_xH -> Some REMUW
                              | _ -> None)
              | Coq_xO p2 -> (match p2 with
                              | Coq_xH -> Some DIVUW
                              | _ -> None)
              | Coq_xH -> None)
           | Coq_xO p1 ->
             (match p1 with
              | Coq_xI p2 -> (match p2 with
                              | Coq_xH -> Some REMW
                              | _ -> None)
              | Coq_xO p2 -> (match p2 with
                              | Coq_xH -> Some DIVW
                              | _ -> None)
              | Coq_xH -> None)
           | Coq_xH -> None)
        | Zneg _ -> None))
  | Zneg _ -> None

(** val dec_load : coq_Z -> lop option **)

let dec_load = function
| Z0 -> Some LB
| Zpos p ->
  (match p with
   | Coq_xI p0 ->
     (match p0 with
      | Coq_xI _ -> None
      | Coq_xO p1 -> (match p1 with
                      | Coq_xH -> Some LHU
                      | _ -> None)
      | Coq_xH -> Some LD)
   | Coq_xO p0 ->
     (match p0 with
      | Coq_xI p1 -> (match p1 with
                      | Coq_xH -> Some LWU
                      | _ -> None)
      | Coq_xO p1 -> (match p1 with
                      | Coq_xH -> Some LBU
                      | _ -> None)
      | Coq_xH -> Some LW)
   | Coq_xH -> Some LH)
| Zneg _ -> None

(** val dec_store : coq_Z -> sop option **)

let dec_store = function
| Z0 -> Some SB
| Zpos p ->
  (match p with
   | Coq_xI p0 -> (match p0 with
                   | Coq_xH -> Some SD
                   | _ -> None)
   | Coq_xO p0 -> (match p0 with
                   | Coq_xH -> Some SW
                   | _ -> None)
   | Coq_xH -> Some SH)
| Zneg _ -> None

(** val dec_branch : coq_Z -> bop option **)

let dec_branch = function
| Z0 -> Some BEQ
| Zpos p ->
  (match p with
   | Coq_xI p0 ->
     (match p0 with
      | Coq_xI p1 -> (match p1 with
                      | Coq_xH -> Some BGEU
                      | _ -> None)
      | Coq_xO p1 -> (match p1 with
                      | Coq_xH -> Some BGE
                      | _ -> None)
      | Coq_xH -> None)
   | Coq_xO p0 ->
     (match p0 with
      | Coq_xI p1 -> (match p1 with
                      | Coq_xH -> Some BLTU
                      | _ -> None)
      | Coq_xO p1 -> (match p1 with
                      | Coq_xH -> Some BLT
                      | _ -> None)
      | Coq_xH -> None)
   | Coq_xH -> Some BNE)
| Zneg _ -> None

(** val dec_csr : coq_Z -> csrop option **)

let dec_csr = function
| Zpos p ->
  (match p with
   | Coq_xI p0 ->
     (match p0 with
      | Coq_xI p1 -> (match p1 with
                      | Coq_xH -> Some CSRRCI
                      | _ -> None)
      | Coq_xO p1 -> (match p1 with
                      | Coq_xH -> Some CSRRWI
                      | _ -> None)
      | Coq_xH -> Some CSRRC)
   | Coq_xO p0 ->
     (match p0 with
      | Coq_xI p1 -> (match p1 with
                      | Coq_xH -> Some CSRRSI
                      | _ -> None)
      | Coq_xO _ -> None
      | Coq_xH -> Some CSRRS)
   | Coq_xH -> Some CSRRW)
| _ -> None

(** val omap : ('a1 -> 'a2) -> 'a1 option -> 'a2 option **)

let omap f = function
| Some a -> Some (f a)
| None -> None

(** val decode_f :
    ext -> coq_Z -> coq_Z -> coq_Z -> coq_Z -> coq_Z -> coq_Z -> coq_Z ->
    instr option **)

let decode_f x w op rd f3 rs1 rs2 f7 =
  match op with
  | Zpos p ->
    (match p with
     | Coq_xI p0 ->
       (match p0 with
        | Coq_xI p1 ->
          (match p1 with
           | Coq_xI p2 ->
             (match p2 with
              | Coq_xI p3 ->
                (match p3 with
                 | Coq_xO p4 ->
                   (match p4 with
                    | Coq_xI p5 ->
                      (match p5 with
                       | Coq_xH -> Some (Jal (rd, (immf_j f3 rs1 rs2 f7)))
                       | _ -> None)
                    | _ -> None)
                 | _ -> None)
              | Coq_xO p3 ->
                (match p3 with
                 | Coq_xI p4 ->
                   (match p4 with
                    | Coq_xH -> Some (Lui (rd, (immf_u f3 rs1 rs2 f7)))
                    | _ -> None)
                 | Coq_xO p4 ->
                   (match p4 with
                    | Coq_xI p5 ->
                      (match p5 with
                       | Coq_xH ->
                         if Z.eqb f3 Z0
                         then Some (Jalr (rd, rs1, (immf_i rs2 f7)))
                         else None
                       | _ -> None)
                    | _ -> None)
                 | Coq_xH -> Some (Auipc (rd, (immf_u f3 rs1 rs2 f7))))
              | Coq_xH ->
                (match f3 with
                 | Z0 -> Some (Fence (rd, rs1, (immf_i rs2 f7)))
                 | Zpos p3 ->
                   (match p3 with
                    | Coq_xH -> Some (FenceI (rd, rs1, (immf_i rs2 f7)))
                    | _ -> None)
                 | Zneg _ -> None))
           | Coq_xO p2 ->
             (match p2 with
              | Coq_xI p3 ->
                (match p3 with
                 | Coq_xI p4 ->
                   (match p4 with
                    | Coq_xI _ -> None
                    | Coq_xO p5 ->
                      (match p5 with
                       | Coq_xH ->
                         (match x with
                          | ExtRimi ->
                            if Z.eqb f3 (Zpos Coq_xH)
                            then Some (Chdom (rd, rs1, (immf_i rs2 f7)))
                            else if Z.eqb f3 Z0
                                 then Some (Retdom (rd, rs1, (immf_i rs2 f7)))
                                 else None
                          | _ -> None)
                       | _ -> None)
                    | Coq_xH ->
                      omap (fun o -> Rop (o, rd, rs1, rs2)) (dec_op32 f7 f3))
                 | Coq_xO p4 ->
                   (match p4 with
                    | Coq_xH ->
                      (match x with
                       | ExtRimi ->
                         if Z.eqb f3 (Zpos (Coq_xI (Coq_xI Coq_xH)))
                         then Some (Sst (rs1, rs2, (immf_s rd f7)))
                         else omap (fun o -> Store1 (o, rs1, rs2,
                                (immf_s rd f7))) (dec_store f3)
                       | _ -> None)
                    | _ -> None)
                 | Coq_xH ->
                   (match f3 with
                    | Z0 -> Some (Iop (ADDIW, rd, rs1, (immf_i rs2 f7)))
                    | Zpos p4 ->
                      (match p4 with
                       | Coq_xI p5 ->
                         (match p5 with
                          | Coq_xO p6 ->
                            (match p6 with
                             | Coq_xH ->
                               if Z.eqb f7 Z0
                               then Some (Shift (SRLIW, rd, rs1, rs2))
                               else if Z.eqb f7 (Zpos (Coq_xO (Coq_xO (Coq_xO
                                         (Coq_xO (Coq_xO Coq_xH))))))
                                    then Some (Shift (SRAIW, rd, rs1, rs2))
                                    else None
                             | _ -> None)
                          | _ -> None)
                       | Coq_xO _ -> None
                       | Coq_xH ->
                         if Z.eqb f7 Z0
                         then Some (Shift (SLLIW, rd, rs1, rs2))
                         else None)
                    | Zneg _ -> None))
              | Coq_xO p3 ->
                (match p3 with
                 | Coq_xI p4 ->
                   (match p4 with
                    | Coq_xI p5 ->
                      (match p5 with
                       | Coq_xH ->
                         if Z.eqb w (Zpos (Coq_xI (Coq_xI (Coq_xO (Coq_xO
                              (Coq_xI (Coq_xI Coq_xH)))))))
                         then Some Ecall
                         else if Z.eqb w (Zpos (Coq_xI (Coq_xI (Coq_xO
                                   (Coq_xO (Coq_xI (Coq_xI (Coq_xI (Coq_xO
                                   (Coq_xO (Coq_xO (Coq_xO (Coq_xO (Coq_xO
                                   (Coq_xO (Coq_xO (Coq_xO (Coq_xO (Coq_xO
                                   (Coq_xO (Coq_xO Coq_xH)))))))))))))))))))))
                              then Some Ebreak
                              else omap (fun o -> Csr (o, rd, rs1,
                                     (Z.add rs2
                                       (Z.mul (Zpos (Coq_xO (Coq_xO (Coq_xO
                                         (Coq_xO (Coq_xO Coq_xH)))))) f7))))
                                     (dec_csr f3)
                       | _ -> None)
                    | Coq_xO _ -> None
                    | Coq_xH ->
                      omap (fun o -> Rop (o, rd, rs1, rs2)) (dec_op f7 f3))
                 | Coq_xO p4 ->
                   (match p4 with
                    | Coq_xI p5 ->
                      (match p5 with
                       | Coq_xH ->
                         omap (fun o -> Branch (o, rs1, rs2, (immf_b rd f7)))
                           (dec_branch f3)
                       | _ -> None)
                    | Coq_xO _ -> None
                    | Coq_xH ->
                      omap (fun o -> Store (o, rs1, rs2, (immf_s rd f7)))
                        (dec_store f3))
                 | Coq_xH ->
                   (match f3 with
                    | Z0 -> Some (Iop (ADDI, rd, rs1, (immf_i rs2 f7)))
                    | Zpos p4 ->
                      (match p4 with
                       | Coq_xI p5 ->
                         (match p5 with
                          | Coq_xI p6 ->
                            (match p6 with
                             | Coq_xH ->
                               Some (Iop (ANDI, rd, rs1, (immf_i rs2 f7)))
                             | _ -> None)
                          | Coq_xO p6 ->
                            (match p6 with
                             | Coq_xH ->
                               if Z.eqb (Z.div f7 (Zpos (Coq_xO Coq_xH))) Z0
                               then Some (Shift (SRLI, rd, rs1,
                                      (Z.add rs2
                                        (Z.mul (Zpos (Coq_xO (Coq_xO (Coq_xO
                                          (Coq_xO (Coq_xO Coq_xH))))))
                                          (Z.modulo f7 (Zpos (Coq_xO Coq_xH)))))))
                               else if Z.eqb
                                         (Z.div f7 (Zpos (Coq_xO Coq_xH)))
                                         (Zpos (Coq_xO (Coq_xO (Coq_xO
                                         (Coq_xO Coq_xH)))))
                                    then Some (Shift (SRAI, rd, rs1,
                                           (Z.add rs2
                                             (Z.mul (Zpos (Coq_xO (Coq_xO
                                               (Coq_xO (Coq_xO (Coq_xO
                                               Coq_xH))))))
                                               (Z.modulo f7 (Zpos (Coq_xO
                                                 Coq_xH)))))))
                                    else None
                             | _ -> None)
                          | Coq_xH ->
                            Some (Iop (SLTIU, rd, rs1, (immf_i rs2 f7))))
                       | Coq_xO p5 ->
                         (match p5 with
                          | Coq_xI p6 ->
                            (match p6 with
                             | Coq_xH ->
                               Some (Iop (ORI, rd, rs1, (immf_i rs2 f7)))
                             | _ -> None)
                          | Coq_xO p6 ->
                            (match p6 with
                             | Coq_xH ->
                               Some (Iop (XORI, rd, rs1, (immf_i rs2 f7)))
                             | _ -> None)
                          | Coq_xH ->
                            Some (Iop (SLTI, rd, rs1, (immf_i rs2 f7))))
                       | Coq_xH ->
                         if Z.eqb (Z.div f7 (Zpos (Coq_xO Coq_xH))) Z0
                         then Some (Shift (SLLI, rd, rs1,
                                (Z.add rs2
                                  (Z.mul (Zpos (Coq_xO (Coq_xO (Coq_xO
                                    (Coq_xO (Coq_xO Coq_xH))))))
                                    (Z.modulo f7 (Zpos (Coq_xO Coq_xH)))))))
                         else None)
                    | Zneg _ -> None))
              | Coq_xH ->
                (match x with
                 | ExtNone -> None
                 | ExtRimi ->
                   if Z.eqb f3 (Zpos (Coq_xI (Coq_xI Coq_xH)))
                   then Some (Lst (rd, rs1, (immf_i rs2 f7)))
                   else omap (fun o -> Load1 (o, rd, rs1, (immf_i rs2 f7)))
                          (dec_load f3)
                 | ExtFixer ->
                   if (&&) (Z.eqb f3 (Zpos (Coq_xO Coq_xH))) (Z.eqb f7 Z0)
                   then Some (Cficall (rd, rs1, rs2))
                   else if (&&) (Z.eqb f3 (Zpos (Coq_xO (Coq_xO Coq_xH))))
                             (Z.eqb f7 (Zpos Coq_xH))
                        then Some (Cfiret (rd, rs1, rs2))
                        else None))
           | Coq_xH -> None)
        | Coq_xO _ -> None
        | Coq_xH ->
          omap (fun o -> Load (o, rd, rs1, (immf_i rs2 f7))) (dec_load f3))
     | _ -> None)
  | _ -> None

(** val decode : ext -> coq_Z -> instr option **)

let decode x w =
  if (&&) (Z.leb Z0 w)
       (Z.ltb w (Zpos (Coq_xO (Coq_xO (Coq_xO (Coq_xO (Coq_xO (Coq_xO (Coq_xO
         (Coq_xO (Coq_xO (Coq_xO (Coq_xO (Coq_xO (Coq_xO (Coq_xO (Coq_xO
         (Coq_xO (Coq_xO (Coq_xO (Coq_xO (Coq_xO (Coq_xO (Coq_xO (Coq_xO
         (Coq_xO (Coq_xO (Coq_xO (Coq_xO (Coq_xO (Coq_xO (Coq_xO (Coq_xO
         (Coq_xO Coq_xH))))))))))))))))))))))))))))))))))
  then decode_f x w (f_op w) (f_rd w) (f_f3 w) (f_rs1 w) (f_rs2 w) (f_f7 w)
  else None

(** val enc_rop : rop -> (coq_Z * coq_Z) * coq_Z **)

let enc_rop = function
| ADD ->
  (((Zpos (Coq_xI (Coq_xI (Coq_xO (Coq_xO (Coq_xI Coq_xH)))))), Z0), Z0)
| SUB ->
  (((Zpos (Coq_xI (Coq_xI (Coq_xO (Coq_xO (Coq_xI Coq_xH)))))), Z0), (Zpos
    (Coq_xO (Coq_xO (Coq_xO (Coq_xO (Coq_xO Coq_xH)))))))
| SLL ->
  (((Zpos (Coq_xI (Coq_xI (Coq_xO (Coq_xO (Coq_xI Coq_xH)))))), (Zpos
    Coq_xH)), Z0)
| SLT ->
  (((Zpos (Coq_xI (Coq_xI (Coq_xO (Coq_xO (Coq_xI Coq_xH)))))), (Zpos (Coq_xO
    Coq_xH))), Z0)
| SLTU ->
  (((Zpos (Coq_xI (Coq_xI (Coq_xO (Coq_xO (Coq_xI Coq_xH)))))), (Zpos (Coq_xI
    Coq_xH))), Z0)
| XOR ->
  (((Zpos (Coq_xI (Coq_xI (Coq_xO (Coq_xO (Coq_xI Coq_xH)))))), (Zpos (Coq_xO
    (Coq_xO Coq_xH)))), Z0)
| SRL ->
  (((Zpos (Coq_xI (Coq_xI (Coq_xO (Coq_xO (Coq_xI Coq_xH)))))), (Zpos (Coq_xI
    (Coq_xO Coq_xH)))), Z0)
| SRA ->
  (((Zpos (Coq_xI (Coq_xI (Coq_xO (Coq_xO (Coq_xI Coq_xH)))))), (Zpos (Coq_xI
    (Coq_xO Coq_xH)))), (Zpos (Coq_xO (Coq_xO (Coq_xO (Coq_xO (Coq_xO
    Coq_xH)))))))
| OR ->
  (((Zpos (Coq_xI (Coq_xI (Coq_xO (Coq_xO (Coq_xI Coq_xH)))))), (Zpos (Coq_xO
    (Coq_xI Coq_xH)))), Z0)
| AND ->
  (((Zpos (Coq_xI (Coq_xI (Coq_xO (Coq_xO (Coq_xI Coq_xH)))))), (Zpos (Coq_xI
    (Coq_xI Coq_xH)))), Z0)
| MUL ->
  (((Zpos (Coq_xI (Coq_xI (Coq_xO (Coq_xO (Coq_xI Coq_xH)))))), Z0), (Zpos
    Coq_xH))
| MULH ->
  (((Zpos (Coq_xI (Coq_xI (Coq_xO (Coq_xO (Coq_xI Coq_xH)))))), (Zpos
    Coq_xH)), (Zpos Coq_xH))
| MULHSU ->
  (((Zpos (Coq_xI (Coq_xI (Coq_xO (Coq_xO (Coq_xI Coq_xH)))))), (Zpos (Coq_xO
    Coq_xH))), (Zpos Coq_xH))
| MULHU ->
  (((Zpos (Coq_xI (Coq_xI (Coq_xO (Coq_xO (Coq_xI Coq_xH)))))), (Zpos (Coq_xI
    Coq_xH))), (Zpos Coq_xH))
| DIV ->
  (((Zpos (Coq_xI (Coq_xI (Coq_xO (Coq_xO (Coq_xI Coq_xH)))))), (Zpos (Coq_xO
    (Coq_xO Coq_xH)))), (Zpos Coq_xH))
| DIVU ->
  (((Zpos (Coq_xI (Coq_xI (Coq_xO (Coq_xO (Coq_xI Coq_xH)))))), (Zpos (Coq_xI
    (Coq_xO Coq_xH)))), (Zpos Coq_xH))
| REM ->
  (((Zpos (Coq_xI (Coq_xI (Coq_xO (Coq_xO (Coq_xI Coq_xH)))))), (Zpos (Coq_xO
    (Coq_xI Coq_xH)))), (Zpos Coq_xH))
| REMU ->
  (((Zpos (Coq_xI (Coq_xI (Coq_xO (Coq_xO (Coq_xI Coq_xH)))))), (Zpos (Coq_xI
    (Coq_xI Coq_xH)))), (Zpos Coq_xH))
| ADDW ->
  (((Zpos (Coq_xI (Coq_xI (Coq_xO (Coq_xI (Coq_xI Coq_xH)))))), Z0), Z0)
| SUBW ->
  (((Zpos (Coq_xI (Coq_xI (Coq_xO (Coq_xI (Coq_xI Coq_xH)))))), Z0), (Zpos
    (Coq_xO (Coq_xO (Coq_xO (Coq_xO (Coq_xO Coq_xH)))))))
| SLLW ->
  (((Zpos (Coq_xI (Coq_xI (Coq_xO (Coq_xI (Coq_xI Coq_xH)))))), (Zpos
    Coq_xH)), Z0)
| SRLW ->
  (((Zpos (Coq_xI (Coq_xI (Coq_xO (Coq_xI (Coq_xI Coq_xH)))))), (Zpos (Coq_xI
    (Coq_xO Coq_xH)))), Z0)
| SRAW ->
  (((Zpos (Coq_xI (Coq_xI (Coq_xO (Coq_xI (Coq_xI Coq_xH)))))), (Zpos (Coq_xI
    (Coq_xO Coq_xH)))), (Zpos (Coq_xO (Coq_xO (Coq_xO (Coq_xO (Coq_xO
    Coq_xH)))))))
| MULW ->
  (((Zpos (Coq_xI (Coq_xI (Coq_xO (Coq_xI (Coq_xI Coq_xH)))))), Z0), (Zpos
    Coq_xH))
| DIVW ->
  (((Zpos (Coq_xI (Coq_xI (Coq_xO (Coq_xI (Coq_xI Coq_xH)))))), (Zpos (Coq_xO
    (Coq_xO Coq_xH)))), (Zpos Coq_xH))
| DIVUW ->
  (((Zpos (Coq_xI (Coq_xI (Coq_xO (Coq_xI (Coq_xI Coq_xH)))))), (Zpos (Coq_xI
    (Coq_xO Coq_xH)))), (Zpos Coq_xH))
| REMW ->
  (((Zpos (Coq_xI (Coq_xI (Coq_xO (Coq_xI (Coq_xI Coq_xH)))))), (Zpos (Coq_xO
    (Coq_xI Coq_xH)))), (Zpos Coq_xH))
| REMUW ->
  (((Zpos (Coq_xI (Coq_xI (Coq_xO (Coq_xI (Coq_xI Coq_xH)))))), (Zpos (Coq_xI
    (Coq_xI Coq_xH)))), (Zpos Coq_xH))

(** val enc_iop : iop -> coq_Z * coq_Z **)

let enc_iop = function
| ADDI -> ((Zpos (Coq_xI (Coq_xI (Coq_xO (Coq_xO Coq_xH))))), Z0)
| SLTI ->
  ((Zpos (Coq_xI (Coq_xI (Coq_xO (Coq_xO Coq_xH))))), (Zpos (Coq_xO Coq_xH)))
| SLTIU ->
  ((Zpos (Coq_xI (Coq_xI (Coq_xO (Coq_xO Coq_xH))))), (Zpos (Coq_xI Coq_xH)))
| XORI ->
  ((Zpos (Coq_xI (Coq_xI (Coq_xO (Coq_xO Coq_xH))))), (Zpos (Coq_xO (Coq_xO
    Coq_xH))))
| ORI ->
  ((Zpos (Coq_xI (Coq_xI (Coq_xO (Coq_xO Coq_xH))))), (Zpos (Coq_xO (Coq_xI
    Coq_xH))))
| ANDI ->
  ((Zpos (Coq_xI (Coq_xI (Coq_xO (Coq_xO Coq_xH))))), (Zpos (Coq_xI (Coq_xI
    Coq_xH))))
| ADDIW -> ((Zpos (Coq_xI (Coq_xI (Coq_xO (Coq_xI Coq_xH))))), Z0)

(** val enc_shop : shop -> (coq_Z * coq_Z) * coq_Z **)

let enc_shop = function
| SLLI ->
  (((Zpos (Coq_xI (Coq_xI (Coq_xO (Coq_xO Coq_xH))))), (Zpos Coq_xH)), Z0)
| SRLI ->
  (((Zpos (Coq_xI (Coq_xI (Coq_xO (Coq_xO Coq_xH))))), (Zpos (Coq_xI (Coq_xO
    Coq_xH)))), Z0)
| SRAI ->
  (((Zpos (Coq_xI (Coq_xI (Coq_xO (Coq_xO Coq_xH))))), (Zpos (Coq_xI (Coq_xO
    Coq_xH)))), (Zpos (Coq_xO (Coq_xO (Coq_xO (Coq_xO (Coq_xO Coq_xH)))))))
| SLLIW ->
  (((Zpos (Coq_xI (Coq_xI (Coq_xO (Coq_xI Coq_xH))))), (Zpos Coq_xH)), Z0)
| SRLIW ->
  (((Zpos (Coq_xI (Coq_xI (Coq_xO (Coq_xI Coq_xH))))), (Zpos (Coq_xI (Coq_xO
    Coq_xH)))), Z0)
| SRAIW ->
  (((Zpos (Coq_xI (Coq_xI (Coq_xO (Coq_xI Coq_xH))))), (Zpos (Coq_xI (Coq_xO
    Coq_xH)))), (Zpos (Coq_xO (Coq_xO (Coq_xO (Coq_xO (Coq_xO Coq_xH)))))))

(** val enc_lop : lop -> coq_Z **)

let enc_lop = function
| LB -> Z0
| LH -> Zpos Coq_xH
| LW -> Zpos (Coq_xO Coq_xH)
| LD -> Zpos (Coq_xI Coq_xH)
| LBU -> Zpos (Coq_xO (Coq_xO Coq_xH))
| LHU -> Zpos (Coq_xI (Coq_xO Coq_xH))
| LWU -> Zpos (Coq_xO (Coq_xI Coq_xH))

(** val enc_sop : sop -> coq_Z **)

let enc_sop = function
| SB -> Z0
| SH -> Zpos Coq_xH
| SW -> Zpos (Coq_xO Coq_xH)
| SD -> Zpos (Coq_xI Coq_xH)

(** val enc_bop : bop -> coq_Z **)

let enc_bop = function
| BEQ -> Z0
| BNE -> Zpos Coq_xH
| BLT -> Zpos (Coq_xO (Coq_xO Coq_xH))
| BGE -> Zpos (Coq_xI (Coq_xO Coq_xH))
| BLTU -> Zpos (Coq_xO (Coq_xI Coq_xH))
| BGEU -> Zpos (Coq_xI (Coq_xI Coq_xH))

(** val enc_csrop : csrop -> coq_Z **)

let enc_csrop = function
| CSRRW -> Zpos Coq_xH
| CSRRS -> Zpos (Coq_xO Coq_xH)
| CSRRC -> Zpos (Coq_xI Coq_xH)
| CSRRWI -> Zpos (Coq_xI (Coq_xO Coq_xH))
| CSRRSI -> Zpos (Coq_xO (Coq_xI Coq_xH))
| CSRRCI -> Zpos (Coq_xI (Coq_xI Coq_xH))

(** val enc_I : coq_Z -> coq_Z -> coq_Z -> coq_Z -> coq_Z -> coq_Z **)

let enc_I op f3 rd rs1 imm =
  let u = usig imm (Zpos (Coq_xO (Coq_xO (Coq_xI Coq_xH)))) in
  mkword op rd f3 rs1
    (Z.modulo u (Zpos (Coq_xO (Coq_xO (Coq_xO (Coq_xO (Coq_xO Coq_xH)))))))
    (Z.div u (Zpos (Coq_xO (Coq_xO (Coq_xO (Coq_xO (Coq_xO Coq_xH)))))))

(** val enc_S : coq_Z -> coq_Z -> coq_Z -> coq_Z -> coq_Z -> coq_Z **)

let enc_S op f3 rs1 rs2 imm =
  let u = usig imm (Zpos (Coq_xO (Coq_xO (Coq_xI Coq_xH)))) in
  mkword op
    (Z.modulo u (Zpos (Coq_xO (Coq_xO (Coq_xO (Coq_xO (Coq_xO Coq_xH)))))))
    f3 rs1 rs2
    (Z.div u (Zpos (Coq_xO (Coq_xO (Coq_xO (Coq_xO (Coq_xO Coq_xH)))))))

(** val enc_B : coq_Z -> coq_Z -> coq_Z -> coq_Z -> coq_Z -> coq_Z **)

let enc_B op f3 rs1 rs2 off =
  let u = usig off (Zpos (Coq_xI (Coq_xO (Coq_xI Coq_xH)))) in
  mkword op
    (Z.add
      (Z.mul (Zpos (Coq_xO Coq_xH))
        (Z.modulo (Z.div u (Zpos (Coq_xO Coq_xH))) (Zpos (Coq_xO (Coq_xO
          (Coq_xO (Coq_xO Coq_xH)))))))
      (Z.modulo
        (Z.div u (Zpos (Coq_xO (Coq_xO (Coq_xO (Coq_xO (Coq_xO (Coq_xO
          (Coq_xO (Coq_xO (Coq_xO (Coq_xO (Coq_xO Coq_xH))))))))))))) (Zpos
        (Coq_xO Coq_xH)))) f3 rs1 rs2
    (Z.add
      (Z.modulo
        (Z.div u (Zpos (Coq_xO (Coq_xO (Coq_xO (Coq_xO (Coq_xO Coq_xH)))))))
        (Zpos (Coq_xO (Coq_xO (Coq_xO (Coq_xO (Coq_xO (Coq_xO Coq_xH))))))))
      (Z.mul (Zpos (Coq_xO (Coq_xO (Coq_xO (Coq_xO (Coq_xO (Coq_xO
        Coq_xH)))))))
        (Z.modulo
          (Z.div u (Zpos (Coq_xO (Coq_xO (Coq_xO (Coq_xO (Coq_xO (Coq_xO
            (Coq_xO (Coq_xO (Coq_xO (Coq_xO (Coq_xO (Coq_xO
            Coq_xH)))))))))))))) (Zpos (Coq_xO Coq_xH)))))

(** val enc_U : coq_Z -> coq_Z -> coq_Z -> coq_Z **)

let enc_U op rd imm20 =
  let u = usig imm20 (Zpos (Coq_xO (Coq_xO (Coq_xI (Coq_xO Coq_xH))))) in
  mkword op rd (Z.modulo u (Zpos (Coq_xO (Coq_xO (Coq_xO Coq_xH)))))
    (Z.modulo (Z.div u (Zpos (Coq_xO (Coq_xO (Coq_xO Coq_xH))))) (Zpos
      (Coq_xO (Coq_xO (Coq_xO (Coq_xO (Coq_xO Coq_xH)))))))
    (Z.modulo
      (Z.div u (Zpos (Coq_xO (Coq_xO (Coq_xO (Coq_xO (Coq_xO (Coq_xO (Coq_xO
        (Coq_xO Coq_xH)))))))))) (Zpos (Coq_xO (Coq_xO (Coq_xO (Coq_xO
      (Coq_xO Coq_xH)))))))
    (Z.div u (Zpos (Coq_xO (Coq_xO (Coq_xO (Coq_xO (Coq_xO (Coq_xO (Coq_xO
      (Coq_xO (Coq_xO (Coq_xO (Coq_xO (Coq_xO (Coq_xO Coq_xH)))))))))))))))

(** val enc_J : coq_Z -> coq_Z -> coq_Z -> coq_Z **)

let enc_J op rd off =
  let u = usig off (Zpos (Coq_xI (Coq_xO (Coq_xI (Coq_xO Coq_xH))))) in
  mkword op rd
    (Z.modulo
      (Z.div u (Zpos (Coq_xO (Coq_xO (Coq_xO (Coq_xO (Coq_xO (Coq_xO (Coq_xO
        (Coq_xO (Coq_xO (Coq_xO (Coq_xO (Coq_xO Coq_xH)))))))))))))) (Zpos
      (Coq_xO (Coq_xO (Coq_xO Coq_xH)))))
    (Z.modulo
      (Z.div u (Zpos (Coq_xO (Coq_xO (Coq_xO (Coq_xO (Coq_xO (Coq_xO (Coq_xO
        (Coq_xO (Coq_xO (Coq_xO (Coq_xO (Coq_xO (Coq_xO (Coq_xO (Coq_xO
        Coq_xH))))))))))))))))) (Zpos (Coq_xO (Coq_xO (Coq_xO (Coq_xO (Coq_xO
      Coq_xH)))))))
    (Z.add
      (Z.mul (Zpos (Coq_xO Coq_xH))
        (Z.modulo (Z.div u (Zpos (Coq_xO Coq_xH))) (Zpos (Coq_xO (Coq_xO
          (Coq_xO (Coq_xO Coq_xH)))))))
      (Z.modulo
        (Z.div u (Zpos (Coq_xO (Coq_xO (Coq_xO (Coq_xO (Coq_xO (Coq_xO
          (Coq_xO (Coq_xO (Coq_xO (Coq_xO (Coq_xO Coq_xH))))))))))))) (Zpos
        (Coq_xO Coq_xH))))
    (Z.add
      (Z.modulo
        (Z.div u (Zpos (Coq_xO (Coq_xO (Coq_xO (Coq_xO (Coq_xO Coq_xH)))))))
        (Zpos (Coq_xO (Coq_xO (Coq_xO (Coq_xO (Coq_xO (Coq_xO Coq_xH))))))))
      (Z.mul (Zpos (Coq_xO (Coq_xO (Coq_xO (Coq_xO (Coq_xO (Coq_xO
        Coq_xH)))))))
        (Z.modulo
          (Z.div u (Zpos (Coq_xO (Coq_xO (Coq_xO (Coq_xO (Coq_xO (Coq_xO
            (Coq_xO (Coq_xO (Coq_xO (Coq_xO (Coq_xO (Coq_xO (Coq_xO (Coq_xO
            (Coq_xO (Coq_xO (Coq_xO (Coq_xO (Coq_xO (Coq_xO
            Coq_xH)))))))))))))))))))))) (Zpos (Coq_xO Coq_xH)))))

(** val encode_spec : instr -> coq_Z **)

let encode_spec = function
| Rop (o, rd, rs1, rs2) ->
  let (p, f7) = enc_rop o in let (op, f3) = p in mkword op rd f3 rs1 rs2 f7
| Iop (o, rd, rs1, imm) -> let (op, f3) = enc_iop o in enc_I op f3 rd rs1 imm
| Shift (o, rd, rs1, sh) ->
  let (p, f7) = enc_shop o in
  let (op, f3) = p in
  mkword op rd f3 rs1
    (Z.modulo sh (Zpos (Coq_xO (Coq_xO (Coq_xO (Coq_xO (Coq_xO Coq_xH)))))))
    (Z.add f7
      (Z.div sh (Zpos (Coq_xO (Coq_xO (Coq_xO (Coq_xO (Coq_xO Coq_xH))))))))
| Load (o, rd, rs1, imm) ->
  enc_I (Zpos (Coq_xI Coq_xH)) (enc_lop o) rd rs1 imm
| Store (o, rs1, rs2, imm) ->
  enc_S (Zpos (Coq_xI (Coq_xI (Coq_xO (Coq_xO (Coq_xO Coq_xH))))))
    (enc_sop o) rs1 rs2 imm
| Branch (o, rs1, rs2, off) ->
  enc_B (Zpos (Coq_xI (Coq_xI (Coq_xO (Coq_xO (Coq_xO (Coq_xI Coq_xH)))))))
    (enc_bop o) rs1 rs2 off
| Lui (rd, imm) ->
  enc_U (Zpos (Coq_xI (Coq_xI (Coq_xI (Coq_xO (Coq_xI Coq_xH)))))) rd imm
| Auipc (rd, imm) ->
  enc_U (Zpos (Coq_xI (Coq_xI (Coq_xI (Coq_xO Coq_xH))))) rd imm
| Jal (rd, off) ->
  enc_J (Zpos (Coq_xI (Coq_xI (Coq_xI (Coq_xI (Coq_xO (Coq_xI Coq_xH)))))))
    rd off
| Jalr (rd, rs1, imm) ->
  enc_I (Zpos (Coq_xI (Coq_xI (Coq_xI (Coq_xO (Coq_xO (Coq_xI Coq_xH)))))))
    Z0 rd rs1 imm
| Ecall -> Zpos (Coq_xI (Coq_xI (Coq_xO (Coq_xO (Coq_xI (Coq_xI Coq_xH))))))
| Ebreak ->
  Zpos (Coq_xI (Coq_xI (Coq_xO (Coq_xO (Coq_xI (Coq_xI (Coq_xI (Coq_xO
    (Coq_xO (Coq_xO (Coq_xO (Coq_xO (Coq_xO (Coq_xO (Coq_xO (Coq_xO (Coq_xO
    (Coq_xO (Coq_xO (Coq_xO Coq_xH))))))))))))))))))))
| Fence (rd, rs1, imm) ->
  enc_I (Zpos (Coq_xI (Coq_xI (Coq_xI Coq_xH)))) Z0 rd rs1 imm
| FenceI (rd, rs1, imm) ->
  enc_I (Zpos (Coq_xI (Coq_xI (Coq_xI Coq_xH)))) (Zpos Coq_xH) rd rs1 imm
| Csr (o, rd, rs1, csr) ->
  mkword (Zpos (Coq_xI (Coq_xI (Coq_xO (Coq_xO (Coq_xI (Coq_xI Coq_xH)))))))
    rd (enc_csrop o) rs1
    (Z.modulo csr (Zpos (Coq_xO (Coq_xO (Coq_xO (Coq_xO (Coq_xO Coq_xH)))))))
    (Z.div csr (Zpos (Coq_xO (Coq_xO (Coq_xO (Coq_xO (Coq_xO Coq_xH)))))))
| Load1 (o, rd, rs1, imm) ->
  enc_I (Zpos (Coq_xI (Coq_xI (Coq_xO Coq_xH)))) (enc_lop o) rd rs1 imm
| Store1 (o, rs1, rs2, imm) ->
  enc_S (Zpos (Coq_xI (Coq_xI (Coq_xO (Coq_xI (Coq_xO Coq_xH))))))
    (enc_sop o) rs1 rs2 imm
| Lst (rd, rs1, imm) ->
  enc_I (Zpos (Coq_xI (Coq_xI (Coq_xO Coq_xH)))) (Zpos (Coq_xI (Coq_xI
    Coq_xH))) rd rs1 imm
| Sst (rs1, rs2, imm) ->
  enc_S (Zpos (Coq_xI (Coq_xI (Coq_xO (Coq_xI (Coq_xO Coq_xH)))))) (Zpos
    (Coq_xI (Coq_xI Coq_xH))) rs1 rs2 imm
| Chdom (rd, rs1, imm) ->
  enc_I (Zpos (Coq_xI (Coq_xI (Coq_xO (Coq_xI (Coq_xI (Coq_xO Coq_xH)))))))
    (Zpos Coq_xH) rd rs1 imm
| Retdom (rd, rs1, imm) ->
  enc_I (Zpos (Coq_xI (Coq_xI (Coq_xO (Coq_xI (Coq_xI (Coq_xO Coq_xH)))))))
    Z0 rd rs1 imm
| Cficall (rd, rs1, rs2) ->
  mkword (Zpos (Coq_xI (Coq_xI (Coq_xO Coq_xH)))) rd (Zpos (Coq_xO Coq_xH))
    rs1 rs2 Z0
| Cfiret (rd, rs1, rs2) ->
  mkword (Zpos (Coq_xI (Coq_xI (Coq_xO Coq_xH)))) rd (Zpos (Coq_xO (Coq_xO
    Coq_xH))) rs1 rs2 (Zpos Coq_xH)

(** val isreg : coq_Z -> bool **)

let isreg r =
  (&&) (Z.leb Z0 r)
    (Z.ltb r (Zpos (Coq_xO (Coq_xO (Coq_xO (Coq_xO (Coq_xO Coq_xH)))))))

(** val simm : coq_Z -> coq_Z -> bool **)

let simm v n =
  (&&)
    (Z.leb (Z.opp (Z.pow (Zpos (Coq_xO Coq_xH)) (Z.sub n (Zpos Coq_xH)))) v)
    (Z.ltb v (Z.pow (Zpos (Coq_xO Coq_xH)) (Z.sub n (Zpos Coq_xH))))

(** val is_w_shift : shop -> bool **)

let is_w_shift = function
| SLLI -> false
| SRLI -> false
| SRAI -> false
| _ -> true

(** val wf : instr -> bool **)

let wf = function
| Rop (_, rd, rs1, rs2) -> (&&) ((&&) (isreg rd) (isreg rs1)) (isreg rs2)
| Iop (_, rd, rs1, imm) ->
  (&&) ((&&) (isreg rd) (isreg rs1))
    (simm imm (Zpos (Coq_xO (Coq_xO (Coq_xI Coq_xH)))))
| Shift (o, rd, rs1, sh) ->
  (&&) ((&&) ((&&) (isreg rd) (isreg rs1)) (Z.leb Z0 sh))
    (Z.ltb sh
      (if is_w_shift o
       then Zpos (Coq_xO (Coq_xO (Coq_xO (Coq_xO (Coq_xO Coq_xH)))))
       else Zpos (Coq_xO (Coq_xO (Coq_xO (Coq_xO (Coq_xO (Coq_xO Coq_xH))))))))
| Load (_, rd, rs1, imm) ->
  (&&) ((&&) (isreg rd) (isreg rs1))
    (simm imm (Zpos (Coq_xO (Coq_xO (Coq_xI Coq_xH)))))
| Store (_, rs1, rs2, imm) ->
  (&&) ((&&) (isreg rs1) (isreg rs2))
    (simm imm (Zpos (Coq_xO (Coq_xO (Coq_xI Coq_xH)))))
| Branch (_, rs1, rs2, off) ->
  (&&)
    ((&&) ((&&) (isreg rs1) (isreg rs2))
      (simm off (Zpos (Coq_xI (Coq_xO (Coq_xI Coq_xH))))))
    (Z.eqb (Z.modulo off (Zpos (Coq_xO Coq_xH))) Z0)
| Lui (rd, imm) ->
  (&&) (isreg rd) (simm imm (Zpos (Coq_xO (Coq_xO (Coq_xI (Coq_xO Coq_xH))))))
| Auipc (rd, imm) ->
  (&&) (isreg rd) (simm imm (Zpos (Coq_xO (Coq_xO (Coq_xI (Coq_xO Coq_xH))))))
| Jal (rd, off) ->
  (&&)
    ((&&) (isreg rd)
      (simm off (Zpos (Coq_xI (Coq_xO (Coq_xI (Coq_xO Coq_xH)))))))
    (Z.eqb (Z.modulo off (Zpos (Coq_xO Coq_xH))) Z0)
| Jalr (rd, rs1, imm) ->
  (&&) ((&&) (isreg rd) (isreg rs1))
    (simm imm (Zpos (Coq_xO (Coq_xO (Coq_xI Coq_xH)))))
| Fence (rd, rs1, imm) ->
  (&&) ((&&) (isreg rd) (isreg rs1))
    (simm imm (Zpos (Coq_xO (Coq_xO (Coq_xI Coq_xH)))))
| FenceI (rd, rs1, imm) ->
  (&&) ((&&) (isreg rd) (isreg rs1))
    (simm imm (Zpos (Coq_xO (Coq_xO (Coq_xI Coq_xH)))))
| Csr (_, rd, rs1, csr) ->
  (&&) ((&&) ((&&) (isreg rd) (isreg rs1)) (Z.leb Z0 csr))
    (Z.ltb csr (Zpos (Coq_xO (Coq_xO (Coq_xO (Coq_xO (Coq_xO (Coq_xO (Coq_xO
      (Coq_xO (Coq_xO (Coq_xO (Coq_xO (Coq_xO Coq_xH))))))))))))))
| Load1 (_, rd, rs1, imm) ->
  (&&) ((&&) (isreg rd) (isreg rs1))
    (simm imm (Zpos (Coq_xO (Coq_xO (Coq_xI Coq_xH)))))
| Store1 (_, rs1, rs2, imm) ->
  (&&) ((&&) (isreg rs1) (isreg rs2))
    (simm imm (Zpos (Coq_xO (Coq_xO (Coq_xI Coq_xH)))))
| Lst (rd, rs1, imm) ->
  (&&) ((&&) (isreg rd) (isreg rs1))
    (simm imm (Zpos (Coq_xO (Coq_xO (Coq_xI Coq_xH)))))
| Sst (rs1, rs2, imm) ->
  (&&) ((&&) (isreg rs1) (isreg rs2))
    (simm imm (Zpos (Coq_xO (Coq_xO (Coq_xI Coq_xH)))))
| Chdom (rd, rs1, imm) ->
  (&&) ((&&) (isreg rd) (isreg rs1))
    (simm imm (Zpos (Coq_xO (Coq_xO (Coq_xI Coq_xH)))))
| Retdom (rd, rs1, imm) ->
  (&&) ((&&) (isreg rd) (isreg rs1))
    (simm imm (Zpos (Coq_xO (Coq_xO (Coq_xI Coq_xH)))))
| Cficall (rd, rs1, rs2) -> (&&) ((&&) (isreg rd) (isreg rs1)) (isreg rs2)
| Cfiret (rd, rs1, rs2) -> (&&) ((&&) (isreg rd) (isreg rs1)) (isreg rs2)
| _ -> true
