(* instr_print.ml — printing of Isa.instr values (spec side). *)
open Zio

let ext_of s = match s with "0" -> Isa.ExtNone | "1" -> Isa.ExtRimi | _ -> Isa.ExtFixer

let rop_s (o : Isa.rop) = match o with
  | Isa.ADD -> "add" | SUB -> "sub" | SLL -> "sll" | SLT -> "slt" | SLTU -> "sltu" | XOR -> "xor"
  | SRL -> "srl" | SRA -> "sra" | OR -> "or" | AND -> "and" | MUL -> "mul" | MULH -> "mulh"
  | MULHSU -> "mulhsu" | MULHU -> "mulhu" | DIV -> "div" | DIVU -> "divu" | REM -> "rem"
  | REMU -> "remu" | ADDW -> "addw" | SUBW -> "subw" | SLLW -> "sllw" | SRLW -> "srlw"
  | SRAW -> "sraw" | MULW -> "mulw" | DIVW -> "divw" | DIVUW -> "divuw" | REMW -> "remw"
  | REMUW -> "remuw"
let iop_s (o : Isa.iop) = match o with
  | Isa.ADDI -> "addi" | SLTI -> "slti" | SLTIU -> "sltiu" | XORI -> "xori" | ORI -> "ori"
  | ANDI -> "andi" | ADDIW -> "addiw"
let shop_s (o : Isa.shop) = match o with
  | Isa.SLLI -> "slli" | SRLI -> "srli" | SRAI -> "srai" | SLLIW -> "slliw" | SRLIW -> "srliw"
  | SRAIW -> "sraiw"
let lop_s (o : Isa.lop) = match o with
  | Isa.LB -> "lb" | LH -> "lh" | LW -> "lw" | LD -> "ld" | LBU -> "lbu" | LHU -> "lhu" | LWU -> "lwu"
let sop_s (o : Isa.sop) = match o with Isa.SB -> "sb" | SH -> "sh" | SW -> "sw" | SD -> "sd"
let bop_s (o : Isa.bop) = match o with
  | Isa.BEQ -> "beq" | BNE -> "bne" | BLT -> "blt" | BGE -> "bge" | BLTU -> "bltu" | BGEU -> "bgeu"
let csr_s (o : Isa.csrop) = match o with
  | Isa.CSRRW -> "csrrw" | CSRRS -> "csrrs" | CSRRC -> "csrrc" | CSRRWI -> "csrrwi"
  | CSRRSI -> "csrrsi" | CSRRCI -> "csrrci"

let z = string_of_z
let instr_s (i : Isa.instr) : string = match i with
  | Isa.Rop (o, a, b, c) -> Printf.sprintf "%s %s %s %s" (rop_s o) (z a) (z b) (z c)
  | Iop (o, a, b, c) -> Printf.sprintf "%s %s %s %s" (iop_s o) (z a) (z b) (z c)
  | Shift (o, a, b, c) -> Printf.sprintf "%s %s %s %s" (shop_s o) (z a) (z b) (z c)
  | Load (o, a, b, c) -> Printf.sprintf "%s %s %s %s" (lop_s o) (z a) (z b) (z c)
  | Store (o, a, b, c) -> Printf.sprintf "%s %s %s %s" (sop_s o) (z a) (z b) (z c)
  | Branch (o, a, b, c) -> Printf.sprintf "%s %s %s %s" (bop_s o) (z a) (z b) (z c)
  | Lui (a, b) -> Printf.sprintf "lui %s %s" (z a) (z b)
  | Auipc (a, b) -> Printf.sprintf "auipc %s %s" (z a) (z b)
  | Jal (a, b) -> Printf.sprintf "jal %s %s" (z a) (z b)
  | Jalr (a, b, c) -> Printf.sprintf "jalr %s %s %s" (z a) (z b) (z c)
  | Ecall -> "ecall" | Ebreak -> "ebreak"
  | Fence (a, b, c) -> Printf.sprintf "fence %s %s %s" (z a) (z b) (z c)
  | FenceI (a, b, c) -> Printf.sprintf "fence.i %s %s %s" (z a) (z b) (z c)
  | Csr (o, a, b, c) -> Printf.sprintf "%s %s %s %s" (csr_s o) (z a) (z b) (z c)
  | Load1 (o, a, b, c) -> Printf.sprintf "%s1 %s %s %s" (lop_s o) (z a) (z b) (z c)
  | Store1 (o, a, b, c) -> Printf.sprintf "%s1 %s %s %s" (sop_s o) (z a) (z b) (z c)
  | Lst (a, b, c) -> Printf.sprintf "lst %s %s %s" (z a) (z b) (z c)
  | Sst (a, b, c) -> Printf.sprintf "sst %s %s %s" (z a) (z b) (z c)
  | Chdom (a, b, c) -> Printf.sprintf "chdom %s %s %s" (z a) (z b) (z c)
  | Retdom (a, b, c) -> Printf.sprintf "retdom %s %s %s" (z a) (z b) (z c)
  | Cficall (a, b, c) -> Printf.sprintf "cficall %s %s %s" (z a) (z b) (z c)
  | Cfiret (a, b, c) -> Printf.sprintf "cfiret %s %s %s" (z a) (z b) (z c)

