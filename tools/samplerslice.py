"""Samplers slice (C15): scripted uniform / Gaussian draws are fed to the
implementation (helpers.generate_*, Generator.generate_method sizing,
random.choices for the element kind) and to the extracted SpecFloat model;
results are compared bit-for-bit and judged against the property statement."""
import json
import math
import os
import random
from decimal import Decimal, getcontext

import common as C
import encslice as E
from floatfmt import to_triple

getcontext().prec = 80
ONE_M = 1.0 - 2.0 ** -53


def impl_samplers(cases):
    d = C.impl_cwd("impl")
    rc, out, _ = C.run([C.PY, os.path.join(C.VERIF, "tools", "impl_samplers.py")], 3000, cwd=d,
                       env=C.impl_env(), input=json.dumps(cases))
    if rc != 0:
        raise RuntimeError("impl_samplers.py failed:\n" + out[-1500:])
    return json.loads([l for l in out.split("\n") if l.startswith("[")][-1])


def float_sums(lam, ztp, n=400):
    """partial sums as the samplers compute them (binary64)"""
    e = math.exp(-lam)
    if ztp:
        p = e / (1 - e) * lam
        x = 1
    else:
        p = e
        x = 0
    s = p
    out = [(x, s)]
    for _ in range(n):
        x += 1
        p *= lam / x
        s = s + p
        out.append((x, s))
    return out


def exact_cdf(lam, ztp, k):
    lamd = Decimal(lam)
    e = (-lamd).exp()
    tot = Decimal(0)
    term = e
    for j in range(0, k + 1):
        if j > 0:
            term = term * lamd / j
        if not (ztp and j == 0):
            tot += term
    return tot / (1 - e) if ztp else tot


def uniforms(rng, lam, ztp, big):
    us = {0.0, ONE_M, 0.5, 2.0 ** -53, 2.0 ** -1074, 1 - 2.0 ** -52, 1 - 2.0 ** -51, 1 - 1e-7, 1 - 1e-9, 1 - 1e-12}
    sums = float_sums(lam, ztp, 60)
    for _, s in sums[:45]:
        if 0.0 <= s < 1.0:
            us.update({s, math.nextafter(s, 0.0), math.nextafter(s, 2.0)})
    for _ in range(300 if big else 40):
        us.add(rng.random())
    for _ in range(60 if big else 10):
        us.add(1 - rng.random() * 10 ** -rng.randrange(3, 15))
    return sorted(u for u in us if 0.0 <= u < 1.0)


def run_sampler_slice(ctx):
    rng = random.Random(ctx.seed * 999331 + 15)
    big = (not ctx.quick()) or ctx.deep
    cases, meta = [], []
    # -- truncated normal
    specials = [0.0, -0.0, 1.0, math.nextafter(1.0, 2.0), math.nextafter(0.0, -1.0), -1e-300, 1e-300, 0.5, 2.5, -3.0,
                math.nextafter(1.0, 0.0), 5e-324, -5e-324]
    for _ in range(400 if big else 80):
        n = rng.randrange(1, 7)
        draws = [rng.choice(specials) if rng.random() < .4 else rng.gauss(0.5, 0.6) for _ in range(n)]
        draws.append(rng.random())          # guaranteed accepted at the latest
        cases.append(["tn", (0.0).hex(), (1.0).hex(), [d.hex() for d in draws]])
        meta.append(("tn", draws))
    # -- poisson / ztp
    for ztp in (False, True):
        for lam in ([1, 2, 3, 4, 5, 7, 10] if not big else [1, 2, 3, 4, 5, 6, 7, 8, 10, 12, 20]):
            for u in uniforms(rng, lam, ztp, big):
                cases.append(["ztp" if ztp else "poisson", lam, u.hex()])
                meta.append(("ztp" if ztp else "poisson", lam, u))
    # -- element kind
    for r in [0.0, 1.0, 0.2, 0.5, 0.25, 0.999, 1e-9] + [rng.random() for _ in range(20 if big else 4)]:
        for u in [0.0, ONE_M, 0.5, 1 - r if 0 <= 1 - r < 1 else 0.5, math.nextafter(1 - r, 0.0) if r < 1 else 0.0,
                  math.nextafter(1 - r, 2.0) if r > 0 else 0.25] + [rng.random() for _ in range(30 if big else 8)]:
            if 0.0 <= u < 1.0:
                cases.append(["kind", float(r).hex(), float(u).hex()])
                meta.append(("kind", float(r), float(u)))
    # -- method sizing through Generator.generate_method / generate_leaf_method
    for _ in range(1500 if big else 250):
        variant = rng.choice(["base", "tramp", "fixer"])
        nb = rng.randrange(1, 40)
        jit_size = nb * rng.randrange(1, 400) + rng.randrange(0, nb)
        depth_mean = rng.randrange(1, 5)
        leaf = rng.random() < .2
        v = rng.choice([0.0, 0.2, 0.5, 0.999, rng.random(), rng.random(), math.nextafter(1.0, 0.0), 1.0])
        sign_u = rng.choice([0.5, math.nextafter(0.5, 1.0), rng.random(), 0.0, ONE_M])
        if v == 1.0 and not sign_u > 0.5:
            sign_u = 0.75                     # body size 0 is the ZeroDivisionError observation (DESIGN 5)
        occ = rng.choice([0.0, 1.0, 0.2, rng.random(), math.nextafter(1.0, 0.0), 0.3333333333333333])
        pu = rng.choice([rng.random(), 0.0, 0.9, 0.99])
        junk = [rng.choice([-0.1, 1.5, -2.0, 1.0000000000000002]) for _ in range(rng.randrange(0, 3))]
        gauss = junk + [v] + ([] if leaf else junk[:1] + [occ])
        uni = [sign_u] + ([] if leaf else [pu])
        cases.append(["method", variant, jit_size, nb, depth_mean, [g.hex() for g in gauss], [u.hex() for u in uni], leaf])
        meta.append(("method", variant, jit_size, nb, depth_mean, v, sign_u, occ, pu, leaf, len(junk)))
    impl = impl_samplers(cases)

    # ---- model
    lines = []
    for c, m in zip(cases, meta):
        if m[0] == "tn":
            lines.append("tn z %s %s" % (to_triple(1.0), " ".join(to_triple(d) for d in m[1])))
        elif m[0] in ("poisson", "ztp"):
            lines.append("%s 3000 %d %s %s" % (m[0], m[1], to_triple(math.exp(-m[1])), to_triple(m[2])))
        elif m[0] == "kind":
            lines.append("kind %s %s" % (to_triple(m[1]), to_triple(m[2])))
        else:
            lines.append("BADLINE")          # method cases are expanded below
    model = E.driver("model_driver", lines) if ctx.model_ok else None

    violations, disagreements = [], []
    dist = {"tn": 0, "poisson": 0, "ztp": 0, "kind": 0, "method": 0, "timeouts": 0}
    method_lines, method_idx = [], []
    for k, (c, m, r) in enumerate(zip(cases, meta, impl)):
        dist[m[0]] += 1
        if m[0] == "tn":
            draws = m[1]
            first = next(i for i, d in enumerate(draws) if 0.0 <= d <= 1.0)
            ok = "v" in r and r["n"] == first + 1 and r["v"] == draws[first].hex()
            if not ok:
                violations.append({"kind": "truncnorm", "case": c, "group": "truncnorm",
                                   "what": f"trunc-norm on draws {draws[:6]} returned {r}, expected the first in-bounds "
                                           f"draw {draws[first].hex()} after {first + 1} draws, unchanged"})
            if model is not None:
                exp_m = "%s %d" % (to_triple(float.fromhex(r["v"])), r["n"]) if "v" in r else "NONE"
                if model[k] != exp_m:
                    disagreements.append({"kind": "sampler-model-vs-impl", "case": c,
                                          "what": f"trunc-norm {draws[:5]}: implementation {exp_m} model {model[k]}"})
        elif m[0] in ("poisson", "ztp"):
            _, lam, u = m
            ztp = m[0] == "ztp"
            sums = float_sums(lam, ztp, 600)
            exp_k = next((x for x, s in sums if not (u > s)), None)
            if "timeout" in r:
                dist["timeouts"] += 1
                violations.append({"kind": "sampler-nonterminating", "sampler": m[0], "lam": lam, "u": u.hex(),
                                   "saturated": exp_k is None, "case": c, "group": f"{m[0]}-hang",
                                   "what": f"generate_{'zero_truncated_' if ztp else ''}poisson({lam}) does not "
                                           f"terminate for u={u.hex()} (float CDF saturates at {sums[-1][1].hex()})"})
            elif r.get("k") != exp_k:
                violations.append({"kind": "not-inverse-cdf", "sampler": m[0], "lam": lam, "u": u.hex(), "case": c,
                                   "group": f"{m[0]}-inverse",
                                   "what": f"{m[0]}({lam}) with u={u!r} returned {r}, the inverse CDF of the single "
                                           f"uniform draw is {exp_k}"})
            else:
                # cross-check with the exact CDF away from float-rounding distance of a step
                kk = r["k"]
                lo = exact_cdf(lam, ztp, kk - 1) if kk - 1 >= (1 if ztp else 0) else Decimal(0)
                hi = exact_cdf(lam, ztp, kk)
                du = Decimal(u)
                eps = Decimal(10) ** -12
                if not (lo - eps < du <= hi + eps):
                    violations.append({"kind": "not-inverse-cdf", "sampler": m[0], "lam": lam, "u": u.hex(), "case": c,
                                       "group": f"{m[0]}-exact",
                                       "what": f"{m[0]}({lam}) u={u!r} -> {kk} but exact CDF({kk - 1})={lo:.15} "
                                               f"CDF({kk})={hi:.15}"})
            if model is not None:
                im = "NONE" if "timeout" in r else str(r.get("k", r))
                if model[k] != im:
                    disagreements.append({"kind": "sampler-model-vs-impl", "case": c,
                                          "what": f"{m[0]}({lam}) u={u.hex()}: implementation {im} model {model[k]}"})
        elif m[0] == "kind":
            _, ratio, u = m
            want = None
            if ratio == 0.0:
                want = "method"
            elif ratio == 1.0:
                want = "pic"
            if want and r.get("k") != want:
                violations.append({"kind": "ratio", "case": c, "group": "ratio",
                                   "what": f"pics_ratio={ratio}: element kind {r} for u={u!r}, must be {want}"})
            if model is not None and model[k] != r.get("k", str(r)):
                disagreements.append({"kind": "sampler-model-vs-impl", "case": c,
                                      "what": f"kind ratio={ratio!r} u={u!r}: implementation {r} model {model[k]}"})
        else:
            _, variant, jit_size, nb, depth_mean, v, sign_u, occ, pu, leaf, nj = m
            if "exc" in r or "timeout" in r:
                violations.append({"kind": "sizing-raises", "case": c, "group": "sizing-raises",
                                   "what": f"generate_method raised {r} for v={v!r} sign_u={sign_u!r} occ={occ!r}"})
                continue
            ms, cs = r["ms"], r["call_size"]
            sign = 1 if sign_u > 0.5 else -1
            body = math.ceil(ms * (1 + sign * v))
            calls = 0 if leaf else math.trunc(occ * (body // cs))
            sums = float_sums(depth_mean, False, 600)
            depth = 0 if calls == 0 else next(x for x, s in sums if not (pu > s))
            if (r["body"], r["calls"], r["depth"]) != (body, calls, depth):
                violations.append({"kind": "sizing", "case": c, "group": "sizing",
                                   "what": f"method sizing: mean size {ms}, v={v!r}, sign draw {sign_u!r}, occupation "
                                           f"{occ!r}, slot {cs}: got body/calls/depth {(r['body'], r['calls'], r['depth'])}"
                                           f" expected {(body, calls, depth)}"})
            exp_ng = nj + 1 + (0 if leaf else min(nj, 1) + 1)
            exp_nu = 1 + (0 if leaf or calls == 0 else 1)
            if (r["ng"], r["nu"]) != (exp_ng, exp_nu):
                violations.append({"kind": "sizing-draws", "case": c, "group": "sizing-draws",
                                   "what": f"method sizing consumed {r['ng']} gauss / {r['nu']} uniform draws, expected "
                                           f"{exp_ng} / {exp_nu} (re-draw until in bounds, one uniform per sampler)"})
            method_lines += ["body %d %s %s" % (ms, to_triple(sign_u), to_triple(v)),
                             "calls %d %d %s" % (r["body"], cs, to_triple(occ)),
                             "poisson 3000 %d %s %s" % (depth_mean, to_triple(math.exp(-depth_mean)), to_triple(pu))]
            method_idx.append((k, r, leaf))
    if ctx.model_ok and method_lines:
        res = E.driver("model_driver", method_lines)
        for j, (k, r, leaf) in enumerate(method_idx):
            b, cl, dp = res[3 * j: 3 * j + 3]
            mb = (b, "0" if leaf else cl, "0" if (leaf or r["calls"] == 0) else dp)
            ib = (str(r["body"]), str(r["calls"]), str(r["depth"]))
            if mb != ib:
                disagreements.append({"kind": "sampler-model-vs-impl", "case": cases[k],
                                      "what": f"method sizing {cases[k][1:5]}: implementation {ib} model {mb}"})
    return {"name": "samplers", "evaluations": len(cases), "distinct": len(cases),
            "rule": "scripted draws: truncated normal (bounds exactly, signed zeros, neighbours of the bounds), "
                    "Poisson / ZTP on every float adjacent to a partial sum + tail values + random uniforms, element "
                    "kind for ratio 0 / 1 / interior, method sizing through Generator.generate_method for 3 variants",
            "samples": [cases[0][:3], cases[len(cases) // 2][:4], cases[-1][:5]],
            "dist": dist, "violations": violations, "disagreements": disagreements}
