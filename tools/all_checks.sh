#!/bin/sh
# runs every property's quick (default) or thorough check on the current /repo tree; one summary line per property
cd /verif
tier=${1:-quick}
out=${2:-/verif/work/all_checks_$tier.txt}
: > $out
for p in C01 C02 C03 C04 C05 C06 C07 C08 C09 C10 C11 C12 C13 C14 C15 C16 C17 C18; do
  s=$(date +%s)
  if [ "$tier" = thorough ]; then res=$(timeout 14000 ./check $p --tier thorough 2>&1 | grep -E "VIOLATION|^OK|KNOWN|ERROR|Traceback" | head -6 | cut -c1-220 | tr '\n' '|'); rc=$?
  else res=$(timeout 3000 ./check $p 2>&1 | grep -E "VIOLATION|^OK|KNOWN|ERROR|Traceback" | head -6 | cut -c1-220 | tr '\n' '|'); fi
  echo "$p $(( $(date +%s) - s ))s $res" >> $out
done
echo DONE >> $out
