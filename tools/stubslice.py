"""Stubs slice (C13): every call / address stub, all 8192 low-13-bit patterns x
boundary and random high parts x both signs.  The implementation's words are
(1) compared with the extracted model and (2) executed on the extracted
reference machine and judged against the property's statement."""
import json
import os
import random

import common as C
import encslice as E

M64 = (1 << 64) - 1
LO = -(1 << 31) - (1 << 11)
HI = (1 << 31) - (1 << 11)


def impl_stubs(cases):
    d = C.impl_cwd("impl")
    rc, out, _ = C.run([C.PY, os.path.join(C.VERIF, "tools", "impl_stub.py")], 1800, cwd=d,
                       env=C.impl_env(), input=json.dumps(cases))
    if rc != 0:
        raise RuntimeError("impl_stub.py failed:\n" + out[-1500:])
    return json.loads([l for l in out.split("\n") if l.startswith("[")][-1])


def offsets(rng, big):
    lows = list(range(8192))
    highs = [0, 1, -1, 2, -2, (HI >> 13), (LO >> 13) + 1, (HI >> 13) - 1, 0x3FFFF, -0x40000]
    highs += [rng.randrange(LO >> 13, (HI >> 13) + 1) for _ in range(64 if big else 6)]
    offs = set()
    for h in highs:
        for l in (lows if (big or h in (0, -1)) else rng.sample(lows, 700)):
            o = (h << 13) + l
            if LO - 64 <= o < HI + 64:
                offs.add(o)
    for o in (LO, LO + 1, LO - 1, HI - 1, HI, HI - 2, 8, -8, 7, -7, 12, -12, 11, 16, 19, 20, -20, 23, 24, -24,
              4, 0, 2047, 2048, 2049, -2047, -2048, -2049, 4095, 4096, -4096, 0x7FFFF800 - 4, -0x80000800):
        offs.add(o)
    return sorted(offs)


KINDS = ["method", "pic", "regsave", "imeth", "ipic", "rimeth", "ripic", "fmeth", "fpic", "switch"]


def make_case(kind, off, rng):
    """returns (impl/model case list, expectation dict)"""
    hit = rng.choice([5, 7, 10, 29, 30])
    h = rng.choice([1, 2, 7, 100, 2047])
    toff = rng.choice([off, -off, off + 4096, 20 - off]) if rng.random() < .5 else rng.randrange(-(1 << 22), 1 << 22) * 4
    if kind == "method":
        return ["method", off], dict(split=[off], mins=[8], target=off, ra=8, n=2)
    if kind == "pic":
        return ["pic", off, h, hit], dict(split=[off - 4], mins=[12], target=off, ra=12, n=3, hit=(hit, h))
    if kind == "regsave":
        r = rng.choice([1, 6, 28])
        return ["regsave", off, r], dict(split=[off], mins=[8], reg=(r, off), n=2, pc=8)
    if kind in ("imeth", "rimeth"):
        full = 1 if kind == "rimeth" else 0
        return ["imeth", full, off, toff], dict(split=[off, toff - 8], mins=[12, 12], target=toff, ra=16, n=4,
                                                 tmp=off, full=full)
    if kind in ("ipic", "ripic"):
        full = 1 if kind == "ripic" else 0
        return ["ipic", full, off, toff, h, hit], dict(split=[off, toff - 12], mins=[20, 20], target=toff, ra=20,
                                                       n=5, tmp=off, hit=(hit, h), full=full)
    if kind == "fmeth":
        return ["fmeth", off], dict(split=[off - 12], mins=[8], outer=20, target=off, ra=20, n=5, cfi=20)
    if kind == "fpic":
        return ["fpic", off, h, hit], dict(split=[off - 16], mins=[12], outer=24, target=off, ra=24, n=6, cfi=24,
                                           hit=(hit, h))
    raise ValueError(kind)


def expected_reject(off, exp):
    if "outer" in exp and abs(off) < exp["outer"]:
        return True
    return any(abs(o) < m for o, m in zip(exp["split"], exp["mins"]))


def in_range(exp):
    return all(LO <= o < HI for o in exp["split"])


def run_stub_slice(ctx):
    rng = random.Random(ctx.seed * 2654435761 % (1 << 32) + 13)
    big = (not ctx.quick()) or ctx.deep
    offs = offsets(rng, big)
    cases, exps = [], []
    for k in KINDS:
        if k == "switch":
            continue
        sel = offs if (big or k in ("method", "fmeth")) else rng.sample(offs, min(len(offs), 6000))
        for off in sel:
            c, e = make_case(k, off, rng)
            e["kind"], e["off"] = k, off
            cases.append(c)
            exps.append(e)
    # switch cases
    for _ in range(3000 if big else 600):
        n = rng.choice([1, 2, 3, 100, 2047])
        moff = rng.choice([8, 12, 1 << 19, (1 << 20) - 2, -(1 << 20), -4, rng.randrange(-(1 << 19), 1 << 19) * 2])
        hit, cmp = rng.sample([5, 6, 7, 10, 28, 29, 31], 2)
        cases.append(["switch", n, moff, hit, cmp])
        exps.append(dict(kind="switch", n=n, moff=moff, hit=hit, cmp=cmp))
    impl = impl_stubs(cases)
    model = E.driver("model_driver", ["stub " + " ".join(map(str, c)) for c in cases]) if ctx.model_ok else None

    violations, disagreements = [], []
    dist = {"rejected": 0, "accepted": 0, "executed": 0, "by_kind": {}}
    # build machine runs for accepted in-range stubs
    runs, run_idx = [], []
    A0 = 0x80002A24
    for k, (c, e, r) in enumerate(zip(cases, exps, impl)):
        dist["by_kind"][e["kind"]] = dist["by_kind"].get(e["kind"], 0) + 1
        if model is not None:
            ms = model[k]
            istr = ("OK " + " ".join(map(str, r["w"]))) if "w" in r else ("ERR " + r["exc"])
            if ms != istr:
                disagreements.append({"kind": "stub-model-vs-impl", "case": c,
                                      "what": f"stub {c}: implementation [{istr[:120]}] model [{ms[:120]}]"})
        if e["kind"] == "switch":
            if "w" in r:
                A = A0 + 0x4000
                for hv in (e["n"], e["n"] + 1):
                    runs.append("exec 0 0 0 18446744073709551615 %d 3 0 w %s r %d=%d"
                                % (A, " ".join(map(str, r["w"])), e["hit"], hv))
                    run_idx.append((k, hv, A))
            else:
                violations.append({"kind": "stub-raises", "case": c, "group": "switch",
                                   "what": f"switch case {c} raises {r['exc']}"})
            continue
        rej = expected_reject(e["off"], e)
        if rej:
            dist["rejected"] += 1
            if r.get("exc") != "WrongOffsetException":
                violations.append({"kind": "stub-not-rejected", "case": c, "group": e["kind"] + "-reject",
                                   "what": f"stub {c} below the minimum distance is not rejected: {str(r)[:100]}"})
            continue
        dist["accepted"] += 1
        if not in_range(e):
            continue
        if "w" not in r:
            violations.append({"kind": "stub-rejected", "case": c, "group": e["kind"] + "-accept",
                               "what": f"stub {c} with an expressible offset raises {r['exc']}"})
            continue
        if len(r["w"]) != e["n"]:
            violations.append({"kind": "stub-length", "case": c, "group": e["kind"] + "-len",
                               "what": f"stub {c} has {len(r['w'])} instructions, expected {e['n']}"})
            continue
        if "pcrel" in r and r["pcrel"] != e["off"]:
            violations.append({"kind": "pcrel-extract", "case": c, "group": "pcrel",
                               "what": f"extract_pc_relative_offset gives {r['pcrel']} for offset {e['off']}"})
        A = rng.choice([A0, 0x1000, 0x7FFFF000, 0xFFFFFFF0000])
        if e.get("full") and A + min(e.get("target", 0), 0) < 0:
            # RIMI-full stubs end in chdom, whose target must lie inside the (mapped) JIT region: an address
            # below 0 is not an address; such a stub is executed from a base where A + offset exists
            A = A0
        variant = 2 if e.get("full") else (4 if e["kind"] in ("fmeth", "fpic") else 0)
        runs.append("exec %d 0 0 18446744073709551615 %d %d 0 w %s r 1=1234567 5=11 6=13 28=99"
                    % (variant, A, e["n"], " ".join(map(str, r["w"]))))
        run_idx.append((k, None, A))
    res = E.driver("spec_driver", runs) if runs else []
    dist["executed"] = len(runs)
    for (k, hv, A), line in zip(run_idx, res):
        c, e = cases[k], exps[k]
        head, regs, cfi = [x.strip() for x in line.split("|")]
        tag, cnt, pc, dom = head.split()
        pc = int(pc)
        regs = list(map(int, regs.split()))
        cfi = list(map(int, cfi.split())) if cfi else []
        bad = []
        if e["kind"] == "switch":
            # 3 steps: hit -> jal executed, pc = A+8+moff ; miss -> bne taken to A+12 then one more instruction
            if hv == e["n"]:
                if tag != "next" or pc != (A + 8 + e["moff"]) & M64:
                    bad.append(f"hit case: pc={hex(pc)} expected {hex((A + 8 + e['moff']) & M64)} ({tag})")
            else:
                # after addi, bne (taken) the third step fetches at A+12 which is outside the 3-word code: fault
                if pc != A + 12:
                    bad.append(f"miss case: pc={hex(pc)} expected {hex(A + 12)}")
        else:
            if tag != "next" or int(cnt) != e["n"]:
                bad.append(f"outcome {tag} after {cnt} steps")
            if "target" in e and pc != (A + e["target"]) & M64 & ~1:
                bad.append(f"pc={hex(pc)} expected {hex((A + e['target']) & M64)}")
            if "pc" in e and pc != A + e["pc"]:
                bad.append(f"pc={hex(pc)} expected {hex(A + e['pc'])}")
            if "ra" in e and regs[1] != (A + e["ra"]) & M64:
                bad.append(f"ra={hex(regs[1])} expected {hex(A + e['ra'])}")
            if "reg" in e and regs[e["reg"][0]] != (A + e["reg"][1]) & M64:
                bad.append(f"x{e['reg'][0]}={hex(regs[e['reg'][0]])} expected {hex((A + e['reg'][1]) & M64)}")
            if "tmp" in e and regs[6] != (A + e["tmp"]) & M64:
                bad.append(f"t1={hex(regs[6])} expected {hex((A + e['tmp']) & M64)}")
            if "hit" in e and regs[e["hit"][0]] != e["hit"][1]:
                bad.append(f"x{e['hit'][0]}={regs[e['hit'][0]]} expected hit case {e['hit'][1]}")
            if "cfi" in e and cfi[:1] != [(A + e["cfi"]) & M64]:
                bad.append(f"CFI top {cfi[:1]} expected {hex(A + e['cfi'])}")
            if e.get("full") and dom != "1":
                bad.append("domain not switched to 1")
        for b in bad:
            violations.append({"kind": "stub-misses", "case": c, "A": A, "group": e["kind"],
                               "what": f"stub {c} executed at {hex(A)}: {b}"})
    return {"name": "stubs", "evaluations": len(cases), "distinct": len(cases),
            "rule": "every stub kind x (all 8192 low-13-bit patterns x boundary/random high parts, both signs) "
                    "+ boundary offsets; accepted in-range stubs are executed on the extracted reference machine",
            "samples": [cases[0], cases[len(cases) // 2], cases[-1]], "dist": dist,
            "violations": violations, "disagreements": disagreements}
