"""Implementation side of the generator slice: runs gigue's generators under
ScriptRandom.  stdin: JSON list of jobs; stdout: JSON list of results.

job = {"variant": "base|tramp|rimiss|rimifull|fixer", "cfg": {constructor kwargs}, "seed": int|None,
       "policy": null | {"name": ..., params}, "history": [jobs to run first in the same process, results discarded],
       "want_files": bool}
result = {"exc": name | None, "files": {"int":hex,"jit":hex,"data":hex,"ss":hex} | None (not written),
          "log": [...events...], "methods": [...], "elements": [...], "globals_changed": [...]}"""
import copy
import json
import os
import random
import shutil
import sys

import scripted_random as SR


def classes():
    from gigue.generator import Generator, TrampolineGenerator
    from gigue.rimi.rimi_generator import RIMIFullTrampolineGenerator, RIMIShadowStackTrampolineGenerator
    from gigue.fixer.fixer_generator import FIXERTrampolineGenerator
    return {"base": Generator, "tramp": TrampolineGenerator, "rimiss": RIMIShadowStackTrampolineGenerator,
            "rimifull": RIMIFullTrampolineGenerator, "fixer": FIXERTrampolineGenerator}


def snapshot_globals():
    """deep snapshot of every module/class-level mutable object the generators can reach"""
    import gigue.constants as C
    import gigue.builder as B
    import gigue.rimi.rimi_constants as RC
    import gigue.rimi.rimi_builder as RB
    import gigue.fixer.fixer_constants as FC
    import inspect
    snap = {}
    for mod in (C, RC, FC):
        for k, v in vars(mod).items():
            if k.startswith("__"):
                continue
            if isinstance(v, (list, dict, int, str, float)):
                if isinstance(v, dict) and v and not isinstance(next(iter(v.values())), (int, str)):
                    snap[f"{mod.__name__}.{k}"] = {kk: sorted((a, repr(b)) for a, b in vars(vv).items())
                                                   for kk, vv in v.items()}
                else:
                    snap[f"{mod.__name__}.{k}"] = copy.deepcopy(v)
    import gigue.fixer.fixer_builder as FB
    import gigue.method, gigue.pic, gigue.trampoline, gigue.generator, gigue.instructions
    extra_cls = [B.InstructionBuilder, RB.RIMIShadowStackInstructionBuilder, RB.RIMIFullInstructionBuilder,
                 FB.FIXERInstructionBuilder, gigue.method.Method, gigue.pic.PIC, gigue.trampoline.Trampoline,
                 gigue.instructions.Instruction, gigue.instructions.RoCCCustomInstruction] + list(classes().values())
    for cls in extra_cls:
        for k, v in vars(cls).items():
            if k.startswith("__") or callable(v) or isinstance(v, (classmethod, staticmethod, property)):
                continue
            if isinstance(v, (list, dict, int, str, float, tuple, set)):
                snap[f"{cls.__name__}.{k}"] = copy.deepcopy(v) if not isinstance(v, dict) or not v or isinstance(
                    next(iter(v.values())), (int, str)) else sorted(v)
    for name, cls in classes().items():
        sig = inspect.signature(cls.__init__)
        for pn, p in sig.parameters.items():
            if isinstance(p.default, (list, dict)):
                snap[f"{cls.__name__}.__init__.{pn}"] = copy.deepcopy(p.default)
    from gigue.method import Method
    from gigue.pic import PIC
    for cls in (Method, PIC):
        for pn, p in inspect.signature(cls.__init__).parameters.items():
            if isinstance(p.default, (list, dict)):
                snap[f"{cls.__name__}.__init__.{pn}"] = copy.deepcopy(p.default)
    return snap


POLICIES = {}


def policy(fn):
    POLICIES[fn.__name__] = fn
    return fn


@policy
def last_hit_case(params):
    def p(kind, args, pos):
        if kind == "RI" and args["a"] == 1 and args["b"] <= 4095 and args["b"] != 0xFFF:
            return args["b"]
        return None
    return p


@policy
def first_hit_case(params):
    def p(kind, args, pos):
        if kind == "RI" and args["a"] == 1 and args["b"] != 0xFFF:
            return 1
        return None
    return p


@policy
def extremes(params):
    """variation v and occupation forced to given values; data offsets forced to the maximum"""
    v, occ, maxoff = params.get("v"), params.get("occ"), params.get("maxoff")
    import gigue.constants
    def p(kind, args, pos):
        if kind == "GA":
            if v is not None and args["mu"] == params["var_mean"] and args["sigma"] == params["var_std"]:
                return v
            if occ is not None and args["mu"] == params["occ_mean"] and args["sigma"] == params["occ_std"]:
                return occ
        if kind == "RI" and maxoff and args["a"] == 0 and args["b"] not in (0xFFF, 0xFFFFFFFF):
            return args["b"]            # whatever upper bound the builder asked for
        return None
    return p


@policy
def all_pics_big(params):
    """every ZTP draw is large (capped by remaining), deep call chains (poisson uniform close to 1)"""
    state = {"n": 0}
    def p(kind, args, pos):
        if kind == "RA":
            state["n"] += 1
            return params.get("u", 0.999)
        return None
    return p


@policy
def mem_heavy(params):
    """only loads / stores in bodies, always the last register and the max offset"""
    def p(kind, args, pos):
        if kind == "CS" and args["n"] == 7 and args["k"] == 1:
            return [5 + (pos % 2)]
        if kind == "RI" and args["a"] == 0 and args["b"] not in (0xFFF, 0xFFFFFFFF):
            return args["b"] if pos % 3 else 0
        return None
    return p


def run_job(job, cwd_bin):
    cls = classes()[job["variant"]]
    cfg = dict(job["cfg"])
    files = {"int": "int.bin", "jit": "jit.bin", "data": "data.bin", "ss": "ss.bin"}
    for f in files.values():
        p = os.path.join(cwd_bin, f)
        if os.path.exists(p):
            os.remove(p)
    kw = dict(cfg)
    kw["output_int_bin_file"] = os.path.join(cwd_bin, "int.bin")
    kw["output_jit_bin_file"] = os.path.join(cwd_bin, "jit.bin")
    kw["output_data_bin_file"] = os.path.join(cwd_bin, "data.bin")
    if job["variant"] != "fixer":
        kw["output_ss_bin_file"] = os.path.join(cwd_bin, "ss.bin")
    res = {"exc": None, "files": None, "log": [], "methods": [], "elements": [], "where": None}
    pol = None
    if job.get("policy"):
        pol = POLICIES[job["policy"]["name"]](dict(job["policy"], **cfg))
    SR.reset(pol)
    gen = None
    import signal
    def _alarm(signum, frame):
        raise TimeoutError("generation exceeded the per-job time limit")
    signal.signal(signal.SIGALRM, _alarm)
    signal.alarm(int(job.get("time_limit", 90)))
    try:
        if job.get("seed_first", False):
            random.seed(job["seed"])
        gen = cls(**kw)
        # a decoy generator constructed (never run) between construction and main: constructing must be pure
        dk = dict(kw, data_reg=30 if kw.get("data_reg") != 30 else 29, pics_hit_case_reg=7, pics_cmp_reg=10)
        if job["variant"] in ("rimiss", "rimifull"):
            dk["rimi_ssp_reg"] = 29
        if job["variant"] == "fixer":
            dk["fixer_cmp_reg"] = 29
        try:
            cls(**dk)
        except Exception:  # noqa
            pass
        if job.get("seed") is not None and not job.get("seed_first", False):
            random.seed(job["seed"])
        gen.main()
    except BaseException as e:  # noqa
        res["exc"] = type(e).__name__
    finally:
        signal.alarm(0)
    res["log"] = list(SR.LOG) if res["exc"] != "TimeoutError" else list(SR.LOG)[:2000]
    out = {}
    for k, f in files.items():
        p = os.path.join(cwd_bin, f) if not (job["variant"] == "fixer" and k == "ss") else "bin/ss.bin"
        if os.path.exists(p):
            out[k] = open(p, "rb").read().hex()
    res["files"] = out if out else None
    if gen is not None and res["exc"] is None:
        from gigue.method import Method
        ids = {}
        def mrec(m):
            return {"addr": m.address, "body": m.body_size, "calls": m.call_number, "depth": m.call_depth,
                    "pro": m.prologue_size, "epi": m.epilogue_size, "total": m.total_size(),
                    "callees": [c.address for c in m.callees], "n_instrs": len(m.instructions)}
        for e in gen.jit_elements:
            if isinstance(e, Method):
                res["elements"].append({"kind": "M", "m": mrec(e)})
            else:
                res["elements"].append({"kind": "P", "addr": e.address, "cases": e.case_number,
                                        "total": e.total_size(), "ms": [mrec(m) for m in e.methods]})
        res["registers"] = list(gen.registers)
        res["counts"] = [gen.method_count, gen.pic_count]
        res["sizes"] = {"call_size": gen.call_size, "int_call_size": gen.interpreter_call_size}
        res["tramps"] = [[t.name, t.address, len(t.instructions)] for t in getattr(gen, "trampolines", [])]
    return res


def main():
    import resource
    try:   # a runaway allocation must fail the job (MemoryError), not the machine
        resource.setrlimit(resource.RLIMIT_AS, (12 << 30, 12 << 30))
    except Exception:  # noqa
        pass
    SR.install()
    jobs = json.load(sys.stdin)
    os.makedirs("bin", exist_ok=True)
    out = []
    base = snapshot_globals()
    for job in jobs:
        for h in job.get("history", []):
            run_job(h, "bin")
        r = run_job(job, "bin")
        now = snapshot_globals()
        r["globals_changed"] = sorted(k for k in set(base) | set(now) if base.get(k) != now.get(k))
        out.append(r)
    json.dump(out, sys.stdout)


if __name__ == "__main__":
    main()
