#!/bin/sh
# round 3 (C12, C14-C18): breaking changes <ID>_4 and behaviour-preserving refactors <ID>_B1, each against the check of its property
cd /verif
out=${1:-/verif/work/mutant_round3.txt}
out2=${2:-/verif/work/benign_round3.txt}
: > $out; : > $out2
for m in C12_4 C14_4 C15_4 C16_4 C17_4 C18_4 C12_B1 C14_B1 C15_B1 C16_B1 C17_B1 C18_B1; do
  p=${m%_*}
  git -C /repo diff --quiet || { echo "/repo dirty" >> $out; exit 2; }
  git -C /repo apply /verif/seeded/$m/patch.diff || { echo "$m $p PATCH-FAILED" >> $out; continue; }
  t0=$(date +%s)
  res=$(timeout 3000 ./check $p 2>&1 | grep -E "VIOLATION|^OK" | head -3 | cut -c1-200 | tr '\n' '|')
  git -C /repo checkout -- .
  git -C /repo clean -fdq
  case $m in
    *_B1) echo "G$m [$m] $p $(( $(date +%s) - t0 ))s $res" | sed 's/^GC\([0-9]*\)_B1/G9\1/' >> $out2;;
    *) echo "$m $p $(( $(date +%s) - t0 ))s $res" >> $out;;
  esac
done
echo DONE >> $out
