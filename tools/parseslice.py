"""Parsers slice (C17, C18): dumps and Rocket / CVA6 core logs are synthesised
from abstract event sequences (so the harness knows, independently of any
model, what the property requires) plus a separate malformed stream; the
implementation (one persistent set of parser objects, sequences of parses) is
compared with the extracted model and judged against the property statement."""
import json
import os
import random

import common as C
import encslice as E

MNEMS = ["addi", "add", "ld", "sd", "lw", "jal", "jalr", "ret", "beq", "bne", "auipc", "lui", "li", "mv",
         "nop", "j", "jr", "bnez", "beqz", "sext.w", "mulw", "sraiw", "slli", "andi", "lbu", "sh", "sb",
         "bgeu", "blt", "xor", "or", "and", "sub", "mul", "not", "seqz", "snez", "bgez", "bltz", "lhu"]
RIMI_M = ["lb1", "ld1", "sd1", "sw1", "lst", "sst", "chdom", "retdom", "lhu1", "sb1"]
FIXER_M = ["cficall", "cfiret"]
TABLES = ["base", "tramp", "rimiss", "rimifull", "fixer"]


def impl_parse(cases):
    d = C.impl_cwd("impl")
    rc, out, _ = C.run([C.PY, os.path.join(C.VERIF, "tools", "impl_parse.py")], 1800, cwd=d,
                       env=C.impl_env(), input=json.dumps(cases))
    if rc != 0:
        raise RuntimeError("impl_parse.py failed:\n" + out[-1500:])
    return json.loads([l for l in out.split("\n") if l.startswith("[")][-1])


def hx(b):
    return b.hex() if b else "-"


# ------------------------------------------------------------------ dumps
def synth_dump(rng, fault=None):
    """returns (bytes|None, expectation) ; expectation = dict(start, ret, end) or None when malformed"""
    start = rng.choice([0x80002A24, 0x10000, 0x1000, rng.getrandbits(40) & ~3])
    n = rng.randrange(1, 40)
    ret_idx = rng.randrange(0, n)
    end = start + 4 * (n + rng.randrange(0, 50)) + 4
    fmt_a = rng.choice(["%016x", "%x", "%016X", "%08x"])
    L = []
    for _ in range(rng.randrange(0, 6)):      # boot noise, may mention ret / other labels
        L.append(rng.choice(["bin/out.elf:     file format elf64-littleriscv", "", "Disassembly of section .text:",
                             "%016x <_start>:" % rng.getrandbits(32),
                             "    %x:\t00008067          \tret" % rng.getrandbits(32),
                             "0000000080000000 <umode_setup>:"]))
    if fault != "no_start":
        L.append((fmt_a % start) + " <gigue_int_start>:")
    for i in range(n):
        a = start + 4 * i
        if i == ret_idx and fault not in ("no_ret", "ret_after_main"):
            L.append("    %x:\t00008067          \tret" % a)
        else:
            m = rng.choice(["addi\tsp,sp,-88", "sd\ts0,0(sp)", "auipc\tra,0x5", "jalr\t-1242(ra)", "nop"])
            L.append("    %x:\t%08x          \t%s" % (a, rng.getrandbits(32), m))
    for _ in range(rng.randrange(0, 3) if fault not in ("no_ret", "ret_after_main") else 0):   # later rets must be ignored
        L.append("    %x:\t00008067          \tret" % (start + 4 * (n + 3)))
    L.append("")
    L.append("%016x <gigue_jit_start>:" % (start + 4 * n))
    if fault != "no_end":
        L.append(rng.choice(["%016x", "%x"]) % end + " <main>:")
        L.append("    %x:\t00000000          \tunimp" % end)
    if fault == "ret_after_main":       # the only ret of the dump lies after the end marker: it is not the interpreter's
        L.append("    %x:\t00008067          \tret" % (end + 4 * rng.randrange(1, 9)))
    for _ in range(rng.randrange(0, 4)):
        L.append(rng.choice(["    %x:\t00008067          \tret" % rng.getrandbits(32), "..."]) if fault != "no_ret" else "...")
    nl = rng.choice(["\n", "\n", "\r\n"])
    text = nl.join(L) + (nl if rng.random() < .8 else "")
    data = text.encode()
    exp = dict(start=start, ret=start + 4 * ret_idx, end=end - 4)
    if fault in ("no_start", "no_ret", "no_end", "ret_after_main"):
        exp = None
    elif fault == "truncated":
        cut = rng.randrange(0, len(data))
        data = data[:cut]
        exp = "unknown"
    elif fault == "garbage":
        data = bytes(rng.getrandbits(7) for _ in range(rng.randrange(0, 300)))
        exp = "unknown"
    elif fault == "nonhex_label":
        data = data.replace((fmt_a % start).encode() + b" <gigue_int_start>:", b"80zz2a24 <gigue_int_start>:")
        exp = None
    elif fault == "ret_no_addr":
        data = data.replace(("    %x:\t00008067" % (start + 4 * ret_idx)).encode(), b"    ret_without_address\t00008067")
        exp = None
    elif fault == "empty":
        data, exp = b"", None
    elif fault == "absent":
        data, exp = None, None
    elif fault == "non_utf8":
        data, exp = b"\xff\xfe\x80 <gigue_int_start>:\n" + data, None
    return data, exp


DUMP_FAULTS = ["no_start", "no_ret", "no_end", "ret_after_main", "truncated", "garbage", "nonhex_label", "ret_no_addr", "empty",
               "absent", "non_utf8"]


# ------------------------------------------------------------------- logs
def rocket_line(rng, cyc, pc, m, valid=1, fmt=0):
    regs = "W[r %d=%016x][%d] R[r %d=%016x] R[r %d=%016x]" % (rng.randrange(32), rng.getrandbits(64), rng.randrange(2),
                                                           rng.randrange(32), rng.getrandbits(64), rng.randrange(32),
                                                           rng.getrandbits(64))
    pcs = ("%016x" % pc) if fmt == 0 else ("%016X" % pc)
    ops = rng.choice(["sp, sp, -88", "a0, 8(sp)", "", "ra, 0x5", "t0, t1, 8", "zero, [0] x"])
    return "C0: %10d [%d] pc=[%s] %s inst=[%08x] %s %s" % (cyc, valid, pcs, regs, rng.getrandbits(32),
                                                           m.ljust(7), ops)


def cva6_line(rng, cyc, pc, m, fmt=0):
    pcs = {0: "0x%x", 1: "0x%016x", 2: "0x%X"}[fmt] % pc
    ops = rng.choice(["s0, 1", "s0, s0, 31", "", "ra, 8(sp)", "a0, (a0)"])
    return "%s%d %s M (0x%08x) %s %s" % (" " * rng.randrange(0, 9), cyc, pcs, rng.getrandbits(32), m.ljust(7), ops)


def synth_log(rng, core, table, fault=None):
    names = MNEMS + (RIMI_M if "rimi" in table else []) + (FIXER_M if table == "fixer" else [])
    sa = rng.choice([0x80002A24, 0x10000, rng.getrandbits(34) & ~3])
    n = rng.randrange(1, 60)
    ra = sa + 4 * rng.randrange(1, 200)
    cyc = rng.randrange(1, 10 ** 6)
    fmt = rng.randrange(2 if core == "rocket" else 3)
    line = (lambda c, p, m, **k: rocket_line(rng, c, p, m, fmt=fmt, **k)) if core == "rocket" else \
           (lambda c, p, m, **k: cva6_line(rng, c, p, m, fmt=fmt))
    L = []
    seed = rng.getrandbits(31)
    if core == "rocket":
        L.append("using random seed %d" % seed)
    else:
        L += ["This emulator compiled with JTAG Remote Bitbang client. To enable, use +jtag_rbb_enable=1.",
              "Listening on port 35955", "bin/out.elf *** SUCCESS *** (tohost = 0) after 67271 cycles",
              "CPU time used: 20501.60 ms"]
    other = lambda: rng.choice([a for a in (sa - 4 * rng.randrange(1, 500), ra + 4 * rng.randrange(1, 500))
                                if a not in (sa, ra) and a > 0] or [sa + 2])
    for _ in range(rng.randrange(0, 12)):       # boot
        cyc += rng.randrange(1, 9)
        L.append(line(cyc, other(), rng.choice(names)))
        if core == "rocket" and rng.random() < .3:
            L.append(rocket_line(rng, cyc, rng.choice([sa, ra]), "addi", valid=0))
        if fault == "dup_inst" and core == "rocket":
            L.append(L[-1] + " inst=[0] x")     # bubble at start/ret: ignored
    events = []
    if fault != "no_start":
        cyc += rng.randrange(1, 9)
        start_c = cyc
        m0 = rng.choice(names)
        L.append(line(cyc, sa, m0))
        events.append(m0)
    else:
        start_c = None
    pc = sa
    for _ in range(n - 1):
        cyc += rng.randrange(1, 9)
        pc = rng.choice([pc + 4, sa + 4 * rng.randrange(1, 400)])
        if pc in (sa, ra):
            pc += 4 if pc + 4 not in (sa, ra) else 8
        m = rng.choice(names)
        L.append(line(cyc, pc, m))
        events.append(m)
        if rng.random() < .15:
            L.append(rng.choice(["", "*** noise ***", "C0: not a commit line", "  12 notanaddress M (x) y",
                                 "C0:        100 [1] pc=[zz] inst=[0] bad"]))
        if core == "rocket" and rng.random() < .2:
            L.append(rocket_line(rng, cyc, ra, "ret", valid=0))
    if fault != "no_ret":
        cyc += rng.randrange(1, 9)
        end_c = cyc
        L.append(line(cyc, ra, "ret"))
    else:
        end_c = None
    for _ in range(rng.randrange(0, 8)):        # exit noise, including start/ret again
        cyc += rng.randrange(1, 9)
        L.append(line(cyc, rng.choice([sa, ra, other()]) if fault not in ("no_start", "no_ret") else other(),
                      rng.choice(names)))
    text = "\n".join(L) + "\n"
    data = text.encode()
    exp = dict(seed=seed if core == "rocket" else 0, start_cycle=start_c, end_cycle=end_c, events=events)
    if fault in ("no_start", "no_ret"):
        exp = None
    elif fault == "ret_before_start":
        # swap roles: the harness asks for ret address = an address fetched before start
        exp = "unknown"
    elif fault == "truncated":
        data = data[:rng.randrange(0, len(data))]
        exp = "unknown"
    elif fault == "garbage":
        data = bytes(rng.getrandbits(7) for _ in range(rng.randrange(0, 400)))
        exp = "unknown"
    elif fault == "empty":
        data, exp = b"", None
    elif fault == "absent":
        data, exp = None, None
    elif fault == "bad_seed" and core == "rocket":
        data = data.replace(b"using random seed %d" % seed, b"using random seed none")
        exp = None
    elif fault == "unknown_mnemonic":
        bad = rng.choice(["", "frobnicate", "c.addi"])
        k = rng.randrange(len(events))
        lines = text.split("\n")
        # rewrite one in-window line with an unclassifiable / empty mnemonic (truncated line)
        idx = [i for i, l in enumerate(lines) if events[k].ljust(7) in l]
        exp = "unknown"
        if idx:
            i = idx[0]
            cut = lines[i].rfind(events[k].ljust(7))
            lines[i] = lines[i][:cut] + bad
            data = ("\n".join(lines)).encode()
    elif fault == "non_utf8":
        data, exp = b"\xff\xfe using random seed 12\n" + data, None
    elif fault == "blank_first_line":
        # the line the seed is read from is empty / whitespace only (a log that starts with a blank line,
        # or was truncated to one): for rocket the seed cannot be read -> must be flagged, never fatal
        pre = rng.choice([b"\n", b"   \n", b" \t \n", b"\r\n"])
        data = pre + (data if rng.random() < .7 else b"")
        exp = None if core == "rocket" else "unknown"
    return data, sa, ra, exp


LOG_FAULTS = ["no_start", "no_ret", "truncated", "garbage", "empty", "absent", "bad_seed", "unknown_mnemonic",
              "non_utf8", "blank_first_line"]


def run_parse_slice(ctx, want="both"):
    rng = random.Random(ctx.seed * 65537 + 17)
    big = (not ctx.quick()) or ctx.deep
    n_good = 3000 if big else 1200
    n_bad = 1500 if big else 700
    cases, meta = [], []
    for _ in range(n_good):
        if rng.random() < .35:
            d, exp = synth_dump(rng)
            cases.append(["dump", "T", hx(d)])
            meta.append(("dump", None, exp))
        else:
            core, tbl = rng.choice(["rocket", "cva6"]), rng.choice(TABLES)
            d, sa, ra, exp = synth_log(rng, core, tbl)
            cases.append(["log", core, tbl, sa, ra, "T", hx(d)])
            meta.append(("log", None, exp))
    for _ in range(n_bad):
        if rng.random() < .4:
            f = rng.choice(DUMP_FAULTS)
            d, exp = synth_dump(rng, f)
            cases.append(["dump", "A" if d is None else "T", hx(d)])
            meta.append(("dump", f, exp))
        else:
            core, tbl = rng.choice(["rocket", "cva6"]), rng.choice(TABLES)
            f = rng.choice(LOG_FAULTS)
            d, sa, ra, exp = synth_log(rng, core, tbl, f)
            cases.append(["log", core, tbl, sa, ra, "A" if d is None else "T", hx(d)])
            meta.append(("log", f, exp))
    order = list(range(len(cases)))
    rng.shuffle(order)              # interleave good and faulty parses: histories
    cases = [cases[i] for i in order]
    meta = [meta[i] for i in order]
    impl = impl_parse(cases)
    model = None
    if ctx.model_ok:
        lines = []
        for c in cases:
            non_utf8 = c[-2] == "T" and c[-1] != "-" and any(b >= 128 for b in bytes.fromhex(c[-1]))
            kind = "N" if non_utf8 else c[-2]
            hexs = "-" if non_utf8 else c[-1]
            lines.append(" ".join(map(str, c[:-2] + [kind, hexs])))
        model = E.driver("model_driver", lines)

    violations, disagreements = [], []
    dist = {"well_formed": 0, "faults": {}, "impl_raises": 0}
    for k, (c, (what, fault, exp), r) in enumerate(zip(cases, meta, impl)):
        if fault:
            dist["faults"][fault] = dist["faults"].get(fault, 0) + 1
        else:
            dist["well_formed"] += 1
        tag = f"{what}#{k}" + (f"[{fault}]" if fault else "")
        rec = r.get("ret")
        # ---------------- C18: never raises; flag cleared + defaults on failure
        if "exc" in r:
            dist["impl_raises"] += 1
            violations.append({"kind": "parser-raises", "prop": "C18", "case_index": k, "case": c, "fault": fault,
                               "group": f"raises-{what}-{r['exc']}",
                               "what": f"{tag}: parsing raises {r['exc']} instead of returning a flagged record"})
        elif what == "dump":
            if rec["dump_ok"] == 0 and (rec["start_address"], rec["ret_address"], rec["end_address"]) != (0, 0, 0):
                violations.append({"kind": "no-defaults", "prop": "C18", "case_index": k, "case": c, "fault": fault,
                                   "group": "dump-defaults",
                                   "what": f"{tag}: dump_ok=0 but non-default values {rec}"})
            if exp is None and rec["dump_ok"] != 0:
                violations.append({"kind": "not-flagged", "prop": "C18", "case_index": k, "case": c, "fault": fault,
                                   "group": "dump-flag", "what": f"{tag}: malformed dump reported ok: {rec}"})
            if isinstance(exp, dict):
                if rec["dump_ok"] != 1 or rec["start_address"] != exp["start"] or rec["ret_address"] != exp["ret"]:
                    violations.append({"kind": "wrong-window", "prop": "C17", "case_index": k, "case": c,
                                       "group": "dump-window",
                                       "what": f"{tag}: expected start={hex(exp['start'])} ret={hex(exp['ret'])}, "
                                               f"got {rec}"})
        else:
            tr = rec["tracing_data"]
            failed = rec["emulation_ok"] == 0
            zero_h = all(v == 0 for v in tr["instrs_type"].values()) and all(v == 0 for v in tr["instrs_class"].values())
            if failed and (rec["start_cycle"], rec["end_cycle"], rec["nb_cycles"], tr["tracing_ok"], tr["instrs_nb"]) \
                    != (0, 0, 0, 0, 0):
                violations.append({"kind": "no-defaults", "prop": "C18", "case_index": k, "case": c, "fault": fault,
                                   "group": "log-defaults", "what": f"{tag}: emulation_ok=0 but non-default {rec}"})
            if (failed or tr["tracing_ok"] == 0) and not zero_h:
                violations.append({"kind": "no-defaults", "prop": "C18", "case_index": k, "case": c, "fault": fault,
                                   "group": "log-hist-defaults",
                                   "what": f"{tag}: step not ok but histograms are not the defaults: {tr}"})
            if exp is None and not failed:
                violations.append({"kind": "not-flagged", "prop": "C18", "case_index": k, "case": c, "fault": fault,
                                   "group": "log-flag", "what": f"{tag}: malformed log reported ok"})
            if isinstance(exp, dict):
                n = len(exp["events"])
                ok = (rec["emulation_ok"] == 1 and rec["nb_cycles"] == exp["end_cycle"] - exp["start_cycle"]
                      and rec["start_cycle"] == exp["start_cycle"] and rec["end_cycle"] == exp["end_cycle"]
                      and rec["verilator_seed"] == exp["seed"])
                if not ok:
                    violations.append({"kind": "wrong-window", "prop": "C17", "case_index": k, "case": c,
                                       "group": "log-window",
                                       "what": f"{tag}: expected cycles {exp['start_cycle']}..{exp['end_cycle']}, got "
                                               f"{ {x: rec[x] for x in ('emulation_ok', 'start_cycle', 'end_cycle', 'nb_cycles')} }"})
                known = True   # every synthesised mnemonic (up to '.') must be classifiable by the selected table
                if tr["tracing_ok"] != 1 or tr["instrs_nb"] != n \
                        or sum(tr["instrs_type"].values()) != n or sum(tr["instrs_class"].values()) != n:
                    violations.append({"kind": "wrong-count", "prop": "C17", "case_index": k, "case": c,
                                       "group": "log-count",
                                       "what": f"{tag}: {n} instructions in the window, reported instrs_nb="
                                               f"{tr['instrs_nb']} tracing_ok={tr['tracing_ok']} type sum="
                                               f"{sum(tr['instrs_type'].values())} class sum="
                                               f"{sum(tr['instrs_class'].values())}"})
        # ---------------- correspondence with the model
        if model is not None:
            if "exc" in r:
                istr = "RAISE " + {"FileNotFoundError": "OSError", "UnicodeDecodeError": "ValueError"}.get(r["exc"], r["exc"])
            elif what == "dump":
                istr = "RET %d %d %d %d %d" % (rec["dump_ok"], rec["start_address"], rec["end_address"],
                                               rec["ret_address"], rec["bin_size"])
            else:
                tr = rec["tracing_data"]
                hs = lambda h: ",".join(f"{a}={b}" for a, b in h.items())
                istr = "RET %d %d %d %d %d %d %d %s %s" % (
                    rec["emulation_ok"], rec["verilator_seed"], rec["start_cycle"], rec["end_cycle"],
                    rec["nb_cycles"], tr["tracing_ok"], tr["instrs_nb"], hs(tr["instrs_type"]), hs(tr["instrs_class"]))
            if istr != model[k]:
                disagreements.append({"kind": "parser-model-vs-impl", "case_index": k, "case": c, "fault": fault,
                                      "what": f"{tag}: implementation [{istr[:160]}] model [{model[k][:160]}]"})
    for v in violations[:40]:                 # replay needs the history (state may leak between parses)
        k = v["case_index"]
        v["history"] = cases[max(0, k - 6):k + 1]
    for v in violations[40:]:
        v.pop("case", None)
    return {"name": "parsers", "evaluations": len(cases), "distinct": len(cases),
            "rule": "dumps and Rocket/CVA6 logs synthesised from random event sequences (addresses, cycle stamps, "
                    "boot/exit noise, bubbles, duplicated inst=[, hex case, CRLF) interleaved with a malformed "
                    "stream of 10+9 fault classes; one persistent set of parser objects",
            "samples": [{"case": cases[0][:5], "bytes": len(cases[0][-1]) // 2}, {"case": cases[-1][:5]}],
            "dist": dist, "violations": violations, "disagreements": disagreements, "cases": cases}
