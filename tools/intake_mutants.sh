#!/bin/sh
# usage: intake_mutants.sh out.txt NAME...   copies /tmp/wt/out/NAME into seeded/, confirms it in its worktree, runs the check
cd /verif
out=$1; shift
for n in "$@"; do
  [ -d /tmp/wt/out/$n ] || { echo "$n missing" >> $out; continue; }
  mkdir -p seeded/$n && cp /tmp/wt/out/$n/patch.diff /tmp/wt/out/$n/demo.py /tmp/wt/out/$n/meta.json seeded/$n/
  tools/confirm_mutant.sh $n
  conf=$(grep -E "passed|failed|exit=" seeded/$n/confirm.txt | tr '\n' ' ' | cut -c1-200)
  p=${n%_*}
  git -C /repo diff --quiet || { echo "/repo dirty" >> $out; exit 2; }
  git -C /repo apply /verif/seeded/$n/patch.diff || { echo "$n $p PATCH-FAILED" >> $out; continue; }
  s=$(date +%s)
  res=$(timeout 3000 ./check $p 2>&1 | grep -E "VIOLATION|^OK|ERROR|Traceback" | head -3 | cut -c1-200 | tr '\n' '|')
  git -C /repo checkout -- .
  echo "$n $p $(( $(date +%s) - s ))s $res   [confirm: $conf]" >> $out
done
echo DONE >> $out
