"""Implementation side of the parsers slice.  One process, ONE set of parser
objects for the whole sequence (as toccata's Runner keeps them), so that state
leaking from one parse into the next is observable.
stdin: JSON list of cases
   ["dump", kind, hex]                      kind: "A" absent | "T" text (bytes = hex)
   ["log", core, table, sa, ra, kind, hex]
stdout: JSON list of {"ret": {...}} | {"exc": ClassName}"""
import json
import os
import sys


def main():
    from toccata.parser import CVA6LogParser, DumpParser, RocketLogParser
    from gigue.constants import INSTRUCTIONS_INFO
    from gigue.rimi.rimi_constants import RIMI_INSTRUCTIONS_INFO
    from gigue.fixer.fixer_constants import FIXER_INSTRUCTIONS_INFO
    from toccata.runner import Runner

    # the table the runner selects for each isolation solution
    tables = {}
    inp = dict(
        uses_trampolines=1, registers=[5, 6, 7, 10, 11], weights=[25, 30, 10, 5, 10, 10, 10],
        jit_start_address=0x3000, interpreter_start_address=0x1000, jit_size=40, jit_nb_methods=4,
        method_variation_mean=0.2, method_variation_stdev=0.1, call_depth_mean=1,
        call_occupation_mean=0.2, call_occupation_stdev=0.1, pics_ratio=0.2, pics_mean_case_nb=2,
        pics_cmp_reg=6, pics_hit_case_reg=5, data_reg=31, data_generation_strategy="zeroes", data_size=64,
        core="rocket", max_cycles=1)
    for nm, sol, tr in [("base", "none", 0), ("tramp", "none", 1), ("rimiss", "rimiss", 1),
                        ("rimifull", "rimifull", 1), ("fixer", "fixer", 1)]:
        r = Runner()
        r.generate_binary(0, dict(inp, isolation_solution=sol, uses_trampolines=tr))
        tables[nm] = r.instructions_info
    dp, rp, cp = DumpParser(), RocketLogParser(), CVA6LogParser()
    out = []
    path = os.path.abspath("parse_case.txt")
    for case in json.load(sys.stdin):
        kind, hx = case[-2], case[-1]
        if os.path.exists(path):
            os.remove(path)
        if kind == "T":
            with open(path, "wb") as f:
                f.write(bytes.fromhex("" if hx == "-" else hx))
        try:
            if case[0] == "dump":
                r = dp.parse_dump(path)
            else:
                _, core, tbl, sa, ra = case[:5]
                p = rp if core == "rocket" else cp
                r = p.parse_core_log(log_file=path, start_address=sa, ret_address=ra,
                                     instructions_info=tables[tbl])
            out.append({"ret": r})
        except BaseException as e:  # noqa
            out.append({"exc": type(e).__name__})
    json.dump(out, sys.stdout)


main()
