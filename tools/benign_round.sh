#!/bin/sh
# behaviour-preserving refactors (seeded/<ID>_B1): the checks must stay quiet.
# groups of patches that apply together are run against the checks of the code they touch.
cd /verif
out=${1:-/verif/work/benign_round.txt}
: > $out
run_group () {
  name=$1; patches=$2; checks=$3
  git -C /repo diff --quiet || { echo "/repo dirty" >> $out; exit 2; }
  for m in $patches; do git -C /repo apply /verif/seeded/$m/patch.diff || { echo "$name $m PATCH-FAILED" >> $out; git -C /repo checkout -- .; return; }; done
  for p in $checks; do
    t0=$(date +%s)
    res=$(timeout 3000 ./check $p 2>&1 | grep -E "VIOLATION|^OK|KNOWN" | head -3 | cut -c1-160 | tr '\n' '|')
    echo "$name [$patches] $p $(( $(date +%s) - t0 ))s $res" >> $out
  done
  git -C /repo checkout -- .
  git -C /repo clean -fdq
}
[ -n "$SKIP_G1" ] || run_group G1 "C01_B1 C03_B1 C04_B1 C09_B1 C11_B1" "C01 C02 C03 C04 C05 C06 C07 C09 C10 C11 C13"
run_group G2 "C02_B1 C06_B1 C08_B1 C10_B1 C13_B1" "C01 C02 C03 C04 C05 C06 C07 C08 C09 C10 C11 C13 C15"
run_group G3 "C05_B1" "C05 C04 C06 C01"
run_group G4 "C07_B1" "C07 C13 C05 C04"
echo DONE >> $out
