#!/bin/sh
# runs every seeded change against the check of the property it targets (and optionally others); writes a matrix
cd /verif
out=${1:-/verif/work/mutant_matrix.txt}
: > $out
for d in seeded/C*_[0-9] seeded/REVERT_*; do
  m=$(basename $d); p=${m%_*}
  case $m in REVERT_*) p=$(python3 -c "import json,sys; print(json.load(open('seeded/$m/meta.json'))['property'])");; esac
  [ -f tools/props/$(echo $p | tr A-Z a-z).py ] || { echo "$m $p NO-CHECK" >> $out; continue; }
  git -C /repo diff --quiet || { echo "/repo dirty" >> $out; exit 2; }
  git -C /repo apply /verif/seeded/$m/patch.diff || { echo "$m $p PATCH-FAILED" >> $out; continue; }
  res=$(timeout 3000 ./check $p 2>&1 | grep -E "VIOLATION|^OK" | head -3 | cut -c1-160 | tr '\n' '|')
  first=$(timeout 10 true; ls -t replays 2>/dev/null | head -1)
  git -C /repo checkout -- .
  echo "$m $p $res" >> $out
done
echo DONE >> $out
