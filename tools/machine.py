"""Helpers to run implementation images on the extracted reference machine."""
import os
import random

import common as C

VNUM = {"base": 0, "tramp": 1, "rimiss": 2, "rimifull": 3, "fixer": 4}


def write_image(files, tag):
    d = os.path.join(C.WORK, "img_" + tag)
    os.makedirs(d, exist_ok=True)
    paths = {}
    for k in ("int", "jit", "data", "ss"):
        p = os.path.join(d, k + ".bin")
        with open(p, "wb") as f:
            f.write(bytes.fromhex(files.get(k) or ""))
        paths[k] = p
    return d, paths


class Layout:
    def __init__(self, code_base=0x80002A24, data_base=0x80100000, stack_top=0x80300000, stack_size=1 << 20,
                 ss_base=0x80400000, halt=0x80000010):
        self.code_base, self.data_base, self.stack_top = code_base, data_base, stack_top
        self.stack_size, self.ss_base, self.halt = stack_size, ss_base, halt


def parse_result(line):
    p = line.split()
    r = {"outcome": p[0], "fault": p[1]}
    for kv in p[2:]:
        k, v = kv.split("=", 1)
        if k in ("regs", "init"):
            r[k] = list(map(int, v.split(",")))
        else:
            r[k] = int(v)
    return r


def run_image(variant, paths, data_reg, L=None, max_steps=2_000_000, extra=(), timeout=1200):
    L = L or Layout()
    exe = os.path.join(C.WORK, "bin", "refmachine")
    cmd = [exe, str(VNUM[variant]), paths["int"], paths["jit"], paths["data"], paths["ss"], str(L.code_base),
           str(L.data_base), str(L.stack_top), str(L.stack_size), str(L.ss_base), str(data_reg), str(L.halt),
           str(max_steps)] + [str(x) for x in extra]
    rc, out, t = C.run(["bash", "-c", "ulimit -s unlimited; exec \"$@\"", "x"] + cmd, timeout)
    lines = [l for l in out.split("\n") if l.strip()]
    if rc != 0 or not lines:
        raise RuntimeError(f"refmachine failed rc={rc}: {out[-500:]}")
    r = parse_result(lines[-1])
    r["wall"] = t
    return r


def read_trace(path):
    """[(pc_off, sp, access or None)]"""
    out = []
    with open(path) as f:
        for l in f:
            p = l.split()
            out.append((int(p[0]), int(p[1]), p[2:] if len(p) > 2 else None))
    return out
