"""Implementation side of the front-ends / records slices (C08, C16).
stdin: JSON list of jobs; stdout: JSON list of results.
job = {"fe": "api"|"runner"|"cli_main", "variant":..., "cfg": {...}, "seed": int, "history": [jobs]}
Files are read back from the scratch cwd's bin/ directory."""
import copy
import json
import os
import random
import sys

import scripted_random as SR
import impl_gen as IG   # reuses classes() / snapshot_globals(); its main() is guarded below

ISO = {"base": ("none", 0), "tramp": ("none", 1), "rimiss": ("rimiss", 1), "rimifull": ("rimifull", 1),
       "fixer": ("fixer", 1)}


RUNNERS = {}


def read_files():
    out = {}
    for k in ("int", "jit", "data", "ss"):
        p = os.path.join("bin", k + ".bin")
        if os.path.exists(p):
            out[k] = open(p, "rb").read().hex()
    return out


def clean():
    for k in ("int", "jit", "data", "ss"):
        p = os.path.join("bin", k + ".bin")
        if os.path.exists(p):
            os.remove(p)


def run(job):
    v, cfg, seed = job["variant"], job["cfg"], job["seed"]
    clean()
    SR.reset(None)
    res = {"exc": None}
    import signal
    def _alarm(signum, frame):
        raise TimeoutError("front-end exceeded the per-job time limit")
    signal.signal(signal.SIGALRM, _alarm)
    signal.alarm(int(job.get("time_limit", 60)))
    try:
        if job["fe"] == "api":
            g = IG.classes()[v](**cfg)
            random.seed(seed)
            g.main()
        elif job["fe"] == "runner":
            from toccata.runner import Runner
            iso, tr = ISO[v]
            inp = dict(cfg, isolation_solution=iso, uses_trampolines=tr, core="rocket", max_cycles=1)
            # toccata.cli.main drives all the runs of a campaign through ONE Runner: jobs that carry the same
            # "runner_key" share a Runner instance (records must not depend on earlier runs of that Runner)
            key = job.get("runner_key")
            if key is None:
                r = Runner()
            else:
                r = RUNNERS.setdefault(key, Runner())
            gd, jd = r.generate_binary(seed, inp)
            res["generation_data"], res["jit_elements_data"], res["generation_ok"] = gd, jd, r.generation_ok
        elif job["fe"] == "cli_main":
            from gigue.cli import main
            iso, tr = ISO[v]
            argv = ["-s", str(seed), "-a", str(cfg["interpreter_start_address"]), "-j", str(cfg["jit_start_address"]),
                    "-i", iso, "-js", str(cfg["jit_size"]), "-n", str(cfg["jit_nb_methods"]),
                    "-vm", repr(cfg["method_variation_mean"]), "-vs", repr(cfg["method_variation_stdev"]),
                    "-cm", repr(cfg["call_occupation_mean"]), "-cs", repr(cfg["call_occupation_stdev"]),
                    "-cdm", str(cfg["call_depth_mean"]), "--datareg", str(cfg["data_reg"]),
                    "--datasize", str(cfg["data_size"]), "--datagen", cfg["data_generation_strategy"],
                    "-r", repr(cfg["pics_ratio"]), "--picmeancase", str(cfg["pics_mean_case_nb"]),
                    "--piccmpreg", str(cfg["pics_cmp_reg"]), "--pichitcasereg", str(cfg["pics_hit_case_reg"])]
            if not tr:
                argv.append("-not")
            main(argv)
    except BaseException as e:  # noqa
        res["exc"] = type(e).__name__
    finally:
        signal.alarm(0)
    res["files"] = read_files()
    res["log"] = list(SR.LOG)
    return res


def main():
    import resource
    try:   # a runaway allocation must fail the job (MemoryError), not the machine
        resource.setrlimit(resource.RLIMIT_AS, (12 << 30, 12 << 30))
    except Exception:  # noqa
        pass
    SR.install()
    os.makedirs("bin", exist_ok=True)
    os.makedirs(os.path.join("toccata", "results"), exist_ok=True)
    jobs = json.load(sys.stdin)
    base = IG.snapshot_globals()
    out = []
    for job in jobs:
        for h in job.get("history", []):
            run(h)
        r = run(job)
        now = IG.snapshot_globals()
        r["globals_changed"] = sorted(k for k in set(base) | set(now) if base.get(k) != now.get(k))
        out.append(r)
    json.dump(out, sys.stdout)


if __name__ == "__main__":
    main()
