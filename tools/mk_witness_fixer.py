#!/usr/bin/env python3
"""Writes coq/WitnessFixer.v: a second FIXER witness (larger methods, so that the image
has call-making methods - tagged calls, checked returns - and PICs), recorded from the
real generator under ScriptRandom.  Committed artefact of the MODEL, like Witness.v.
   usage: mk_witness_fixer.py <out.v>"""
import math
import os
import sys

sys.path.insert(0, os.path.dirname(os.path.abspath(__file__)))
import genslice as G
from floatfmt import to_triple
from mk_witness import fl, zl, draw


def main(out):
    cfg = dict(interpreter_start_address=0x1000, jit_start_address=0x1000 + 0x400, jit_size=300, jit_nb_methods=6,
               method_variation_mean=0.2, method_variation_stdev=0.1, call_depth_mean=2,
               call_occupation_mean=0.5, call_occupation_stdev=0.1, pics_ratio=0.5, pics_mean_case_nb=2,
               data_size=64, data_generation_strategy="iterative32", pics_cmp_reg=6, pics_hit_case_reg=5,
               registers=list(G.CALLER_SAVED), data_reg=31, weights=[25, 30, 10, 5, 10, 10, 10])
    for seed in range(7, 60):
        job = dict(variant="fixer", cfg=cfg, seed=seed, mode="record")
        r = G.impl_gen([job])[0]
        if r["exc"] is not None:
            continue
        has_pic = any(e["kind"] == "P" for e in r["elements"])
        ms = []
        for e in r["elements"]:
            ms += [e["m"]] if e["kind"] == "M" else e["ms"]
        if has_pic and any(m["calls"] > 0 for m in ms):
            break
    else:
        raise SystemExit("no suitable seed")
    t = lambda x: fl(to_triple(float(x)))
    sc = G.translate_log(r["log"])
    o = ["(* WitnessFixer.v — written by tools/mk_witness_fixer.py: a FIXER witness with call-making",
         "   methods and PICs (accepted configuration + recorded decision script, seed %d). *)" % seed,
         "From Coq Require Import ZArith List String Bool SpecFloat.",
         "From Gigue Require Import Types Builder Samplers Generator ImageSem Witness.",
         "Import ListNotations.", "Open Scope Z_scope.", "Open Scope string_scope.", ""]
    o.append("Definition wcfg_fixer2 : config :=")
    o.append("  mk_config GFixer %d %d %d %d %s %s %d %s %s %s %s %d %s %d \"%s\" %d %d %s %d %s 28 800 3000%%nat." % (
        cfg["interpreter_start_address"], cfg["jit_start_address"], cfg["jit_size"], cfg["jit_nb_methods"],
        t(cfg["method_variation_mean"]), t(cfg["method_variation_stdev"]), cfg["call_depth_mean"],
        t(math.exp(-cfg["call_depth_mean"])), t(cfg["call_occupation_mean"]), t(cfg["call_occupation_stdev"]),
        t(cfg["pics_ratio"]), cfg["pics_mean_case_nb"], t(math.exp(-cfg["pics_mean_case_nb"])), cfg["data_size"],
        cfg["data_generation_strategy"], cfg["pics_cmp_reg"], cfg["pics_hit_case_reg"], zl(cfg["registers"]),
        cfg["data_reg"], zl(cfg["weights"])))
    o.append("Definition wscript_fixer2 : list draw := [")
    o.append(";\n".join("  " + draw(l) for l in sc))
    o.append("].")
    o.append("")
    o.append("Example witness_fixer2 : exists img, successful wcfg_fixer2 wscript_fixer2 img.")
    o.append("Proof. apply is_success_successful. vm_compute. reflexivity. Qed.")
    with open(out, "w") as f:
        f.write("\n".join(o) + "\n")
    print("seed", seed, "script", len(sc))


if __name__ == "__main__":
    main(sys.argv[1])
