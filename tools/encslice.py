"""Encoder correspondence slice (shared by C12 and C14): constructor tuples are
generated here, run through the implementation (impl_enc.py), the extracted
model (model_driver) and the specification judge (spec_driver)."""
import json
import os
import random

import common as C

EXT = {"RIMIIInstruction": "1", "RIMISInstruction": "1", "FIXERCustomInstruction": "2"}
SHIFT64 = ("slli", "srli", "srai")
SHIFT32 = ("slliw", "srliw", "sraiw")


def impl(cmd, payload=None, timeout=900):
    d = C.impl_cwd("impl")
    rc, out, t = C.run([C.PY, os.path.join(C.VERIF, "tools", "impl_enc.py"), cmd], timeout, cwd=d,
                       env=C.impl_env(), input=None if payload is None else json.dumps(payload))
    if rc != 0:
        raise RuntimeError(f"impl_enc.py {cmd} failed:\n{out[-1500:]}")
    # logging of gigue may print before the JSON; take the last line starting with [ or {
    line = [l for l in out.split("\n") if l.startswith("[") or l.startswith("{")][-1]
    return json.loads(line)


def driver(exe, lines, timeout=1800):
    p = os.path.join(C.WORK, "bin", exe)
    rc, out, t = C.run(["bash", "-c", "ulimit -s unlimited; exec " + p], timeout, input="\n".join(lines) + "\n")
    if rc != 0:
        raise RuntimeError(f"{exe} failed: {out[-800:]}")
    res = out.split("\n")
    if res and res[-1] == "":
        res.pop()
    if len(res) != len(lines):
        raise RuntimeError(f"{exe}: {len(lines)} requests, {len(res)} answers")
    return res


def imm_domain(cls, name):
    """(kind, lo, hi, step) of the architectural range of the immediate operand"""
    if cls in ("IInstruction",) and name in SHIFT64:
        return ("shamt", 0, 63, 1)
    if cls in ("IInstruction",) and name in SHIFT32:
        return ("shamt", 0, 31, 1)
    if cls in ("IInstruction", "SInstruction", "RIMIIInstruction", "RIMISInstruction"):
        return ("imm12", -2048, 2047, 1)
    if cls == "BInstruction":
        return ("off13", -4096, 4094, 2)
    if cls == "JInstruction":
        return ("off21", -(1 << 20), (1 << 20) - 2, 2)
    if cls == "UInstruction":
        return ("imm32", -(1 << 31), (1 << 31) - 4096, 4096)
    return None


def interesting(lo, hi, step, rng, n_random, exhaustive):
    span = (hi - lo) // step + 1
    if exhaustive and span <= 8192:
        return [lo + k * step for k in range(span)]
    vals = {lo, lo + step, hi, hi - step, 0}
    b = step
    while b <= max(abs(lo), abs(hi)):
        for v in (b, -b, b - step, -b - step, b + step):
            if lo <= v <= hi and (v - lo) % step == 0:
                vals.add(v)
        b *= 2
    for _ in range(n_random):
        vals.add(lo + rng.randrange(span) * step)
    return sorted(vals)


def gen_cases(ctors, rng, n_joint, exhaustive):
    """ctors: [[cls, name, [params]]].  Returns list of [cls, name, args]."""
    cases = []
    unknown = []
    for cls, name, params in ctors:
        dom = []
        for p in params:
            if p in ("rd", "rs1", "rs2"):
                dom.append(("reg", 0, 31, 1))
            elif p == "imm":
                d = imm_domain(cls, name)
                if d is None:
                    unknown.append((cls, name, p))
                    d = ("imm12", -2048, 2047, 1)
                dom.append(d)
            else:
                unknown.append((cls, name, p))
                dom.append(("reg", 0, 31, 1))
        fixed3 = []
        for k in range(3):
            fixed3.append([(d[1], (d[1] + d[2]) // 2 // d[3] * d[3], d[2])[k] if d[0] != "reg"
                           else (0, 13, 31)[k] for d in dom])
        if not params:
            cases.append([cls, name, []])
            continue
        # exhaustive per field, other fields at 3 fixed values
        for i, d in enumerate(dom):
            vals = interesting(d[1], d[2], d[3], rng, 48, exhaustive or d[0] in ("reg", "shamt"))
            for base in fixed3:
                for v in vals:
                    a = list(base)
                    a[i] = v
                    cases.append([cls, name, a])
        # random joint tuples
        for _ in range(n_joint):
            cases.append([cls, name, [d[1] + rng.randrange((d[2] - d[1]) // d[3] + 1) * d[3] for d in dom]])
    return cases, unknown


def gen_out_of_range(ctors, rng, n):
    cases = []
    for cls, name, params in ctors:
        for _ in range(n):
            a = []
            for p in params:
                if p in ("rd", "rs1", "rs2"):
                    a.append(rng.choice([32, 33, 63, -1, 255, rng.randrange(-64, 128)]))
                else:
                    a.append(rng.choice([4096, -2049, 2048, 8191, -4097, 1 << 21, -(1 << 21) - 1, 1 << 32,
                                         (1 << 32) + 5, -(1 << 31) - 1, 64, 65, 127, 3, 2049,
                                         rng.randrange(-(1 << 33), 1 << 33)]))
            if params:
                cases.append([cls, name, a])
    return cases


def run_enc_slice(ctx, judge=True):
    rng = random.Random(ctx.seed * 7919 + 12)
    big = (not ctx.quick()) or ctx.deep
    ctors = impl("ctors")
    cases, unknown = gen_cases(ctors, rng, 600 if big else 120, exhaustive=big)
    oor = gen_out_of_range(ctors, rng, 40 if big else 12)
    allc = cases + oor
    impl_res = impl("enc", allc)
    lines = ["enc %s %s %s" % (c, n, " ".join(str(x) for x in a)) for c, n, a in allc]
    model_res = driver("model_driver", lines) if ctx.model_ok else None
    inr = driver("spec_driver", ["inrange %s %s %s" % (c, n, " ".join(str(x) for x in a)) for c, n, a in allc])
    mean = driver("spec_driver", ["mean %s %s %s" % (c, n, " ".join(str(x) for x in a)) for c, n, a in allc])
    declines = []
    for (c, n, a), r in zip(allc, impl_res):
        w = r.get("w")
        declines.append("dec %s %s" % (EXT.get(c, "0"), w if isinstance(w, int) else -1))
    dec = driver("spec_driver", declines)

    violations, disagreements = [], []
    dist = {"in_range": 0, "out_of_range": 0, "by_class": {}, "impl_exceptions": 0}
    distinct = set()
    for k, ((c, n, a), r) in enumerate(zip(allc, impl_res)):
        dist["by_class"][c] = dist["by_class"].get(c, 0) + 1
        if "exc" in r:
            dist["impl_exceptions"] += 1
        in_range = inr[k] == "1"
        dist["in_range" if in_range else "out_of_range"] += 1
        if in_range and a:
            distinct.add((c, n, tuple(a)))
        # -- correspondence model vs implementation
        if model_res is not None:
            m = model_res[k]
            iw = ("W %d" % r["w"]) if "w" in r else "NONE"
            if m != iw and not ("exc" in r and m == "NONE"):
                disagreements.append({"kind": "encoder-model-vs-impl", "ctor": n, "cls": c, "args": a,
                                      "impl": r, "model": m, "in_range": in_range,
                                      "what": f"{c}.{n}{tuple(a)}: implementation {iw}, model {m}"})
        # -- judgement by the specification (independent of the model)
        if judge and in_range:
            ok = "w" in r and isinstance(r["w"], int) and 0 <= r["w"] < (1 << 32) \
                and r.get("b") == r["w"].to_bytes(4, "little").hex() and dec[k] == mean[k] and mean[k] != "NONE"
            if not ok:
                issue = {"kind": "misencoded", "ctor": n, "cls": c, "args": a, "impl": r,
                         "decoded": dec[k], "intended": mean[k], "group": f"{c}.{n}",
                         "what": f"{c}.{n}{tuple(a)} emits {r} which decodes as [{dec[k]}], intended [{mean[k]}]"}
                if n in SHIFT64 and len(a) == 3:
                    issue["shamt_bit4"] = (a[2] >> 4) & 1
                violations.append(issue)
    for u in unknown:
        disagreements.append({"kind": "unknown-constructor-parameter", "what": f"{u}"})
    return {
        "name": "encoders", "evaluations": len(allc), "distinct": len(distinct),
        "rule": "every public constructor classmethod found at run time x (per-field sweeps with the other "
                "fields at 3 fixed values + random joint tuples + an out-of-range stream); distinct = "
                "distinct in-range (ctor, operand tuple) with >= 1 operand",
        "samples": [allc[0], allc[len(allc) // 3], allc[len(cases) - 1], allc[-1]],
        "dist": dist, "violations": violations, "disagreements": disagreements,
    }


def replay_enc(payload):
    c, n, a = payload["cls"], payload["ctor"], payload["args"]
    r = impl("enc", [[c, n, a]])[0]
    line = "%s %s %s" % (c, n, " ".join(str(x) for x in a))
    inr = driver("spec_driver", ["inrange " + line])[0]
    mean = driver("spec_driver", ["mean " + line])[0]
    dec = driver("spec_driver", ["dec %s %s" % (EXT.get(c, "0"), r.get("w", -1))])[0]
    ok = inr != "1" or ("w" in r and dec == mean and r.get("b") == r["w"].to_bytes(4, "little").hex())
    return ok, f"{c}.{n}{tuple(a)} -> {r}; decodes as [{dec}]; intended [{mean}]; in architectural range: {inr}"
