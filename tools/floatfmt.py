"""binary64 <-> the (sign, mantissa, exponent) triples of Coq's SpecFloat (canonical form)."""
import math


def to_triple(x: float) -> str:
    if x != x:
        return "nan"
    if x == math.inf:
        return "inf"
    if x == -math.inf:
        return "ninf"
    if x == 0.0:
        return "nz" if math.copysign(1.0, x) < 0 else "z"
    m, e = math.frexp(abs(x))
    M = int(m * (1 << 53))
    E = e - 53
    if E < -1074:                    # subnormal: canonical exponent is emin
        M >>= (-1074 - E)
        E = -1074
    return "%d,%d,%d" % (1 if x < 0 else 0, M, E)


def from_triple(s: str) -> float:
    if s == "nan":
        return math.nan
    if s == "inf":
        return math.inf
    if s == "ninf":
        return -math.inf
    if s == "z":
        return 0.0
    if s == "nz":
        return -0.0
    sg, m, e = s.split(",")
    v = math.ldexp(int(m), int(e))
    return -v if sg == "1" else v
