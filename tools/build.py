#!/usr/bin/env python3
"""Build steps shared by setup and by every check:
   gen_tables  — regenerate coq/GenTables.v from /repo (Tie 1)
   coq_make    — full .vo build of given targets (never -vos/-vok), under timeout
   ocaml_spec / ocaml_model — extraction + ocamlfind ocamlopt of the drivers
"""
import glob
import os
import re
import shutil
import sys

sys.path.insert(0, os.path.dirname(os.path.abspath(__file__)))
import common as C

OCAML = os.path.join(C.VERIF, "ocaml")
STDMODS = ["BinNums", "Datatypes", "Nat", "PeanoNat", "BinPos", "BinNat", "BinInt", "Ascii",
           "String0", "List0", "Bool", "Specif", "Decimal", "Hexadecimal", "Number",
           "BinPosDef", "BinNatDef", "BinIntDef", "Zpower", "Zbool", "SpecFloat", "Basics"]


def gen_tables():
    d = C.impl_cwd("gentables")
    rc, out, t = C.run([C.PY, os.path.join(C.VERIF, "tools", "gen_tables.py"),
                        os.path.join(C.COQ, "GenTables.v")], 180, cwd=d, env=C.impl_env())
    return rc == 0, out


def ensure_makefile():
    mk = os.path.join(C.COQ, "Makefile")
    cp = os.path.join(C.COQ, "_CoqProject")
    if not os.path.exists(mk) or os.path.getmtime(mk) < os.path.getmtime(cp):
        C.run(["coq_makefile", "-f", "_CoqProject", "-o", "Makefile"], 60, cwd=C.COQ)


def coq_make(targets, timeout=2400, jobs=16):
    """Full .vo compilation of targets (list of paths relative to coq/)."""
    ensure_makefile()
    if not os.path.exists(os.path.join(C.COQ, "GenTables.v")):
        return 2, "coq/GenTables.v is missing (table translator failed)", 0.0
    return C.run(["make", f"-j{jobs}"] + targets, timeout, cwd=C.COQ)


def _order_ml(dirpath, roots):
    """Topological order of extracted modules via ocamldep -sort."""
    mls = sorted(glob.glob(os.path.join(dirpath, "*.ml")) + glob.glob(os.path.join(dirpath, "*.mli")))
    rc, out, _ = C.run(["ocamlfind", "ocamldep", "-sort"] + [os.path.basename(m) for m in mls], 60, cwd=dirpath)
    if rc != 0:
        raise RuntimeError("ocamldep failed: " + out)
    return out.split()


def _build_driver(kind, extract_v, drivers):
    """kind: 'spec' | 'model'.  drivers: list of (main.ml, [extra helper .ml])"""
    gen = os.path.join(C.WORK, "ocaml_" + kind)
    shutil.rmtree(gen, ignore_errors=True)
    os.makedirs(gen)
    rc, out, _ = C.run(["coqc", "-Q", C.COQ, "Gigue", os.path.join(OCAML, extract_v)], 600, cwd=gen)
    # coqc writes the .vo next to the source; remove those by-products
    for ext in (".vo", ".vok", ".vos", ".glob"):
        p = os.path.join(OCAML, extract_v[:-2] + ext)
        if os.path.exists(p):
            os.remove(p)
    for p in glob.glob(os.path.join(OCAML, "." + extract_v[:-2] + ".aux")):
        os.remove(p)
    if rc != 0:
        return False, "extraction failed:\n" + out
    log = out
    bindir = os.path.join(C.WORK, "bin")
    os.makedirs(bindir, exist_ok=True)
    for main, helpers in drivers:
        for h in ["zio.ml"] + helpers + [main]:
            shutil.copyfile(os.path.join(OCAML, h), os.path.join(gen, h))
        order = _order_ml(gen, None)
        others = [m for (m, _) in drivers if m != main]
        order = [f for f in order if f not in others]
        exe = os.path.join(bindir, main[:-3])
        rc, out, _ = C.run(["ocamlfind", "ocamlopt", "-w", "-a", "-O3" if False else "-inline", "100",
                            "-o", exe + ".tmp"] + order, 900, cwd=gen)
        log += out
        if rc != 0:
            return False, f"ocamlopt failed for {main}:\n" + out
        os.replace(exe + ".tmp", exe)
    return True, log


SPEC_DRIVERS = [("spec_driver.ml", ["instr_print.ml"]), ("refmachine.ml", [])]
MODEL_DRIVERS = [("model_driver.ml", [])]


def _stale(exe, deps):
    if not os.path.exists(exe):
        return True
    t = os.path.getmtime(exe)
    return any(os.path.exists(d) and os.path.getmtime(d) > t for d in deps)


def ocaml_spec(force=False):
    deps = glob.glob(os.path.join(OCAML, "*")) + [os.path.join(C.COQ, f) for f in
                                                  ("Isa.vo", "CtorSpec.vo", "Machine.vo", "Static.vo", "LogSpec.vo")]
    exes = [os.path.join(C.WORK, "bin", m[:-3]) for m, _ in SPEC_DRIVERS]
    if not force and not any(_stale(e, deps) for e in exes):
        return True, "spec drivers up to date"
    return _build_driver("spec", "ExtractSpec.v", SPEC_DRIVERS)


def ocaml_model(force=False):
    deps = glob.glob(os.path.join(OCAML, "*")) + glob.glob(os.path.join(C.COQ, "*.vo"))
    exes = [os.path.join(C.WORK, "bin", m[:-3]) for m, _ in MODEL_DRIVERS]
    if not force and not any(_stale(e, deps) for e in exes):
        return True, "model drivers up to date"
    return _build_driver("model", "ExtractModel.v", MODEL_DRIVERS)


def spec_vo_targets():
    return ["Isa.vo", "CtorSpec.vo"]


def main():
    if "--all" in sys.argv:
        with C.Lock():
            ok, out = gen_tables()
            print(out.strip())
            if not ok:
                sys.exit(1)
            rc, out, t = coq_make(["all"], timeout=3600)
            print(out[-3000:])
            print(f"coq make: rc={rc} {t:.1f}s")
            if rc != 0:
                sys.exit(1)
            for f in (ocaml_spec, ocaml_model):
                ok, out = f(force=True)
                print(out[-2000:])
                if not ok:
                    sys.exit(1)
        print("build: OK")


if __name__ == "__main__":
    main()
