#!/bin/sh
cd /verif
ls seeded | grep _1 | xargs -P 5 -n 1 tools/confirm_mutant.sh
ls seeded | grep _2 | xargs -P 5 -n 1 tools/confirm_mutant.sh
echo ALLDONE
