#!/bin/sh
# round 2: the breaking changes <ID>_4 against the check of their property
cd /verif
out=${1:-/verif/work/mutant_round2.txt}
: > $out
for d in seeded/C*_4; do
  m=$(basename $d); p=${m%_*}
  git -C /repo diff --quiet || { echo "/repo dirty" >> $out; exit 2; }
  git -C /repo apply /verif/seeded/$m/patch.diff || { echo "$m $p PATCH-FAILED" >> $out; continue; }
  t0=$(date +%s)
  res=$(timeout 3000 ./check $p 2>&1 | grep -E "VIOLATION|^OK|KNOWN" | head -3 | cut -c1-200 | tr '\n' '|')
  git -C /repo checkout -- .
  echo "$m $p $(( $(date +%s) - t0 ))s $res" >> $out
done
echo DONE >> $out
