#!/bin/sh
# confirm one seeded change in a scratch worktree: suite passes with it, demo fails with it and passes without.
# usage: confirm_mutant.sh <name e.g. C12_1>   -> writes /verif/seeded/<name>/confirm.txt
n=$1
id=${n%_*}
wt=/tmp/wt/$id
out=/verif/seeded/$n/confirm.txt
cd $wt || exit 2
git checkout -q -- . ; git clean -fdq -e log -e bin
export PYTHONPATH=$wt PYTHONHASHSEED=0
{
echo "worktree: $wt (HEAD $(git rev-parse --short HEAD))"
echo "--- demo on original:"
timeout 900 /venv/bin/python /verif/seeded/$n/demo.py >/tmp/wt/$n.demo0.log 2>&1; echo "exit=$?"
git apply /verif/seeded/$n/patch.diff && echo "--- patch applied"
echo "--- test suite with the change:"
timeout 1800 /venv/bin/python -m pytest -q -p no:cacheprovider -n 3 2>&1 | tail -1
echo "--- demo with the change:"
timeout 900 /venv/bin/python /verif/seeded/$n/demo.py >/tmp/wt/$n.demo1.log 2>&1; echo "exit=$?"
tail -3 /tmp/wt/$n.demo1.log
} > $out 2>&1
git checkout -q -- . ; git clean -fdq -e log -e bin
