"""Implementation side of the encoder / disassembler / helper slices.
Runs under /venv/bin/python with PYTHONPATH=/repo in a scratch cwd.

  impl_enc.py ctors                 -> JSON list [[cls, name, [param names]] ...]
  impl_enc.py enc  < JSON cases     -> JSON list of results, one per case:
                                        {"w": int, "b": hex} | {"exc": ClassName}
     case = [cls, name, [args...]]
  impl_enc.py disasm < JSON         -> see do_disasm
"""
import inspect
import json
import sys


def classes():
    from gigue.instructions import (BInstruction, IInstruction, JInstruction, RInstruction,
                                    SInstruction, UInstruction)
    from gigue.rimi.rimi_instructions import RIMIIInstruction, RIMISInstruction
    from gigue.fixer.fixer_instructions import FIXERCustomInstruction
    return {c.__name__: c for c in (RInstruction, IInstruction, UInstruction, JInstruction,
                                    SInstruction, BInstruction, RIMIIInstruction,
                                    RIMISInstruction, FIXERCustomInstruction)}


def ctors():
    out = []
    for cname, cls in classes().items():
        for nm, obj in cls.__dict__.items():
            if isinstance(obj, classmethod) and not nm.endswith("_instr"):
                params = list(inspect.signature(getattr(cls, nm)).parameters)
                out.append([cname, nm, params])
    return out


def do_enc(cases):
    cl = classes()
    res = []
    for cname, nm, args in cases:
        try:
            ins = getattr(cl[cname], nm)(*args)
            w = ins.generate()
            b = ins.generate_bytes()
            res.append({"w": w, "b": b.hex()})
        except Exception as e:  # noqa
            res.append({"exc": type(e).__name__})
    return res


def tables():
    from gigue.constants import INSTRUCTIONS_INFO
    from gigue.rimi.rimi_constants import RIMI_INSTRUCTIONS_INFO
    from gigue.fixer.fixer_constants import FIXER_INSTRUCTIONS_INFO
    return {
        "base": INSTRUCTIONS_INFO,
        "rimi": RIMI_INSTRUCTIONS_INFO | INSTRUCTIONS_INFO,
        "fixer": FIXER_INSTRUCTIONS_INFO | INSTRUCTIONS_INFO,
        "rimi_only": RIMI_INSTRUCTIONS_INFO,
        "fixer_only": FIXER_INSTRUCTIONS_INFO,
    }


EXTRACTORS = ["extract_opcode", "extract_funct3", "extract_xd", "extract_xs1", "extract_xs2",
              "extract_rd", "extract_rs1", "extract_rs2", "extract_funct7"]
IMM_EXTRACTORS = ["extract_imm_b", "extract_imm_i", "extract_imm_j", "extract_imm_s", "extract_imm_u"]


def do_disasm(cases):
    """case = [table_name, word] -> {"name","type","fields":[...]} | {"exc":..}"""
    from gigue.disassembler import Disassembler
    tb = tables()
    ds = {k: Disassembler(v) for k, v in tb.items()}
    res = []
    for tname, w in cases:
        d = ds[tname]
        try:
            info = d.get_instruction_info(w)
            r = {"name": info.name, "type": info.instr_type,
                 "f": [getattr(d, e)(w) for e in EXTRACTORS],
                 "iu": [getattr(d, e)(w) for e in IMM_EXTRACTORS],
                 "is": [getattr(d, e)(w, sign_extend=True) for e in IMM_EXTRACTORS]}
        except Exception as e:  # noqa
            r = {"exc": type(e).__name__}
        res.append(r)
    return res


def do_pcrel(cases):
    """case = [w_auipc, w_jalr] -> int"""
    from gigue.disassembler import Disassembler
    d = Disassembler()
    res = []
    for a, b in cases:
        try:
            res.append({"v": d.extract_pc_relative_offset([a, b])})
        except Exception as e:  # noqa
            res.append({"exc": type(e).__name__})
    return res


def do_helpers(cases):
    """case = [helper ('gnu'|'rocket'|'cva6'), table ('rimi_only'|'fixer_only'|...), [names]]"""
    from prelude.proc_helper import CVA6Helper, GNUHelper, RocketHelper
    hs = {"gnu": GNUHelper(), "rocket": RocketHelper(), "cva6": CVA6Helper()}
    tb = tables()
    res = []
    for h, t, names in cases:
        try:
            res.append({"text": hs[h].get_output(names, tb[t])})
        except Exception as e:  # noqa
            res.append({"exc": type(e).__name__})
    return res


def do_matchmask(cases):
    """Instruction.riscv_opcodes_match_mask for a built instruction.
       case = [cls, name, args, table]"""
    cl = classes()
    tb = tables()
    res = []
    for cname, nm, args, t in cases:
        try:
            ins = getattr(cl[cname], nm)(*args)
            res.append({"text": ins.riscv_opcodes_match_mask(tb[t])})
        except Exception as e:  # noqa
            res.append({"exc": type(e).__name__})
    return res


if __name__ == "__main__":
    cmd = sys.argv[1]
    if cmd == "ctors":
        json.dump(ctors(), sys.stdout)
    else:
        cases = json.load(sys.stdin)
        f = {"enc": do_enc, "disasm": do_disasm, "pcrel": do_pcrel, "helpers": do_helpers,
             "matchmask": do_matchmask}[cmd]
        json.dump(f(cases), sys.stdout)
