"""Implementation side of the samplers slice (scripted random source).
stdin: JSON list of cases, floats as float.hex() strings; stdout: JSON list."""
import json
import math
import random
import signal
import sys


class Timeout(Exception):
    pass


def _alarm(*a):
    raise Timeout()


class Script:
    def __init__(self, gauss, uni):
        self.g, self.u, self.gi, self.ui = gauss, uni, 0, 0

    def gauss(self, mu=0.0, sigma=1.0):
        v = self.g[self.gi]
        self.gi += 1
        return v

    def random(self):
        v = self.u[self.ui]
        self.ui += 1
        return v


def with_script(gauss, uni, f):
    s = Script(gauss, uni)
    og, orr = random.gauss, random.random
    random.gauss, random.random = s.gauss, s.random
    signal.signal(signal.SIGALRM, _alarm)
    signal.setitimer(signal.ITIMER_REAL, 0.4)
    try:
        return f(), s
    finally:
        signal.setitimer(signal.ITIMER_REAL, 0)
        random.gauss, random.random = og, orr


def main():
    import gigue.helpers as H
    from gigue.generator import Generator, TrampolineGenerator
    from gigue.fixer.fixer_generator import FIXERTrampolineGenerator
    fh = float.fromhex
    out = []
    for c in json.load(sys.stdin):
        try:
            k = c[0]
            if k == "tn":
                _, lo, hi, draws = c
                r, s = with_script([fh(x) for x in draws], [], lambda: H.generate_trunc_norm(0.5, 0.1, fh(lo), fh(hi)))
                out.append({"v": r.hex(), "n": s.gi})
            elif k in ("poisson", "ztp"):
                _, lam, u = c
                f = H.generate_poisson if k == "poisson" else H.generate_zero_truncated_poisson
                r, s = with_script([], [fh(u)], lambda: f(lam))
                out.append({"k": r})
            elif k == "kind":
                _, ratio, u = c
                class R(random.Random):
                    def random(self_inner):
                        return fh(u)
                r = R(0).choices(["method", "pic"], [1 - fh(ratio), fh(ratio)])[0]
                out.append({"k": r})
            elif k == "method":
                _, variant, jit_size, nb, depth_mean, gauss, uni, leaf = c
                cls = {"base": Generator, "tramp": TrampolineGenerator, "fixer": FIXERTrampolineGenerator}[variant]
                g = cls(interpreter_start_address=0x1000, jit_start_address=0x100000, jit_size=jit_size,
                        jit_nb_methods=nb, method_variation_mean=0.2, method_variation_stdev=0.1,
                        call_depth_mean=depth_mean, call_occupation_mean=0.2, call_occupation_stdev=0.1,
                        pics_ratio=0.0, pics_mean_case_nb=2)
                fn = (lambda: g.generate_leaf_method(0x100000)) if leaf else (lambda: g.generate_method(0x100000))
                m, s = with_script([fh(x) for x in gauss], [fh(x) for x in uni], fn)
                out.append({"body": m.body_size, "calls": m.call_number, "depth": m.call_depth,
                            "ng": s.gi, "nu": s.ui, "call_size": g.call_size, "ms": g.jit_method_size})
            else:
                out.append({"exc": "BadCase"})
        except Timeout:
            out.append({"timeout": True})
        except BaseException as e:  # noqa
            out.append({"exc": type(e).__name__})
    json.dump(out, sys.stdout)


main()
