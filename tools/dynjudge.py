"""Dynamic judge: implementation images are executed on the extracted reference
machine (exact region mapping, arbitrary initial registers / stack contents)
and the run is judged against the property statements.  Independent of the
generator model."""
import os
import random

import common as C
import machine as M
import staticcheck as S

CALLEE_SAVED = [8, 9, 18, 19, 20, 21, 22, 23, 24, 25, 26, 27]


def static_count(job, r, info):
    """number of instructions the image executes, from the call DAG and the selected PIC cases"""
    v = job["variant"]
    fix = 1 if v == "fixer" else 0
    by_addr = {m["addr"]: m for m in info["methods"]}
    memo = {}

    def count(m):
        if m["addr"] in memo:
            return memo[m["addr"]]
        c = m["total"] - fix + sum(count(by_addr[t]) for _, t, _ in m.get("_sites", []) if t in by_addr)
        memo[m["addr"]] = c
        return c

    def need(m):
        k = ("need", m["addr"])
        if k not in memo:
            memo[k] = m.get("_frame", 0) + max([need(by_addr[t]) for _, t, _ in m.get("_sites", []) if t in by_addr] or [0])
        return memo[k]

    dint = info["dint"]
    end = next(i for i, x in enumerate(dint) if x == ("jalr", 0, 1, 0)) + 1
    total = end
    tramps = r["tramps"]
    tr = (tramps[0][2] + tramps[1][2]) if tramps else 0
    hits = []
    # hit cases loaded by the interpreter stubs: addi hit, x0, h just before the call pair
    hit_reg = job["cfg"]["pics_hit_case_reg"]
    pics = {p["addr"]: p for p in info["pics"]}
    stack = 0
    idx = 0
    calls = info["interp_calls"]
    # walk the interpreter again to associate hit cases with PIC calls
    pend_hit = None
    order = []
    for i in range(end):
        x = dint[i]
        if x[0] == "addi" and x[1] == hit_reg and x[2] == 0:
            pend_hit = x[3]
        if x[0] in ("jalr", "chdom") and x[1] == 1 and x[2] == 1:
            order.append(pend_hit)
            pend_hit = None
    for tgt, h in zip(calls, order):
        total += tr
        if tgt in pics:
            p = pics[tgt]
            hh = h if h is not None else 1
            total += 2 * (hh - 1) + 3
            cm = p["ms"][hh - 1]
            total += count(by_addr[cm["addr"]])
            stack = max(stack, need(by_addr[cm["addr"]]))
            hits.append((tgt, hh, cm["addr"]))
        elif tgt in by_addr:
            total += count(by_addr[tgt])
            stack = max(stack, need(by_addr[tgt]))
    tramp_frame = 8 if (tramps and v != "rimifull") else 0

    def ss_need(m):
        k = ("ss", m["addr"])
        if k not in memo:
            memo[k] = (1 if m["calls"] > 0 else 0) + max([ss_need(by_addr[t]) for _, t, _ in m.get("_sites", []) if t in by_addr] or [0])
        return memo[k]
    info["ss_need"] = (1 if v == "rimifull" else 0) + max([ss_need(m) for m in info["methods"]] or [0])
    # tie to the model: ImageSem.count_method / need_method evaluated by the extracted model on the same image
    bad = []
    for addr, mc, mn in r.get("_model_counts") or []:
        m = by_addr.get(addr)
        if m is None:
            bad.append(f"model method at {hex(addr)} not found in the decoded image")
            continue
        if count(m) != mc:
            bad.append(f"method {hex(addr)}: static instruction count {count(m)} from the decoded image, "
                       f"ImageSem.count_method gives {mc}")
        if v not in ("rimiss", "rimifull", "fixer") or m["calls"] == 0:
            pass
        if need(m) != mn:
            bad.append(f"method {hex(addr)}: stack need {need(m)} from the decoded frames, ImageSem.need_method gives {mn}")
    info["model_mismatch"] = bad
    return total, 88 + tramp_frame + stack, hits


def run_traced(job, r, tag, L=None, extra=(), max_steps=None, regs_seed=5):
    d, paths = M.write_image(dict(r["files"], ss=r.get("_ss_padded", r["files"].get("ss"))), tag)
    tr = os.path.join(d, "trace.txt")
    res = M.run_image(job["variant"], paths, job["cfg"]["data_reg"], L=L,
                      max_steps=max_steps or 3_000_000, extra=["regs", regs_seed, "trace", tr] + list(extra))
    return res, tr, paths


def judge(job, r, ctx_seed=0, want=("C01", "C02", "C03", "C05", "C06", "C07", "C09", "C10", "C11"), deep=False):
    """returns list of (props, text)"""
    v, cfg = job["variant"], job["cfg"]
    issues, info = S.analyze(job, r)
    if any("ILLEGAL" == x[0] for x in info["dint"] + info["djit"]):
        return issues
    try:
        expected_steps, stack_bound, hits = static_count(job, r, info)
        for w in info.get("model_mismatch", [])[:3]:
            issues.append((["MODEL"], w))
    except Exception as e:  # structure too broken to predict
        issues.append((["C06"], f"static count not computable: {type(e).__name__} {e}"))
        expected_steps, stack_bound, hits = None, 1 << 19, []
    if v in ("rimiss", "rimifull"):
        # chains deeper than the emitted shadow stack are outside C09's "within its capacity": run them with a
        # shadow region padded to the need computed from the call DAG
        cap = len(r["files"]["ss"]) // 2
        declared = cfg.get("shadow_stack_size", 800) // 8 * 8       # the configured capacity, in whole slots
        if cap < declared and "C09" in want:
            issues.append((["C09"], f"{v} seed {job.get('seed')}: the emitted shadow-stack image holds {cap // 8} "
                                    f"slots for a configured capacity of {declared // 8}: a call chain using slot "
                                    f"{cap // 8 + 1}, within the capacity, pushes outside the emitted image"))
        if 8 * info.get("ss_need", 0) > cap:
            r["_ss_padded"] = r["files"]["ss"] + "00" * (8 * info["ss_need"] - cap)
    rng = random.Random(ctx_seed * 31 + len(r["files"]["jit"]))
    # the data section, the stack and the shadow stack are placed after the end of the image, whatever its size
    code_bytes = (len(r["files"]["int"]) + len(r["files"]["jit"])) // 2
    top = (0x80002A24 + code_bytes + 0x20000) // 0x1000 * 0x1000
    L1 = M.Layout(data_base=top, stack_top=top + 0x200000, ss_base=top + 0x300000)
    budget = (expected_steps or 200000) * 3 + 1000
    if budget > 4_000_000:
        return issues          # too long for the extracted machine in this tier; the static judge still applied
    res, trp, paths = run_traced(job, r, "a", L=L1, max_steps=budget, regs_seed=rng.randrange(1, 1000))
    add = lambda props, what: issues.append((props, what))
    tag = f"{v} seed {job.get('seed')}"
    if res["outcome"] != "halt":
        props = ["C01"]
        f = res["fault"]
        if f in ("domain-fetch", "domain-access", "domain-switch"):
            props.append("C10")
        if f in ("shadow-access",):
            props += ["C09", "C03"]
        if f in ("unmapped-access", "misaligned-access", "store-to-code"):
            props += ["C03", "C02"]
        if f == "cfi-empty" or res["outcome"] == "trap":
            props.append("C11")
        if res["outcome"] == "timeout":
            props.append("C06")
        add(props, f"{tag}: run ends with {res['outcome']} {f} at pc={hex(res['pc'])} after {res['steps']} steps "
                   f"instead of returning to the caller")
        if "C07" in want and res["outcome"] == "fault":
            # does the same image return cleanly when loaded exactly where it was generated for?  Then its
            # behaviour depends on the load address.
            g0 = cfg["interpreter_start_address"] // 4 * 4
            Lg = M.Layout(code_base=g0, data_base=0x7_4000_0000, stack_top=0x7_8000_0000, ss_base=0x7_9000_0000,
                          halt=0x7_a000_0040)
            resg, _, _ = run_traced(job, r, "g", L=Lg, max_steps=budget, regs_seed=rng.randrange(1, 1000))
            if resg["outcome"] == "halt":
                add(["C07"], f"{tag}: loaded at {hex(L1.code_base)} the run ends with {res['outcome']} {f} at "
                             f"pc={hex(res['pc'])} (step {res['steps']}), loaded at the generation address "
                             f"{hex(g0)} the same image returns cleanly: behaviour depends on the load address")
        return issues
    trace = [t for t in M.read_trace(trp) if t[0] != L1.halt - L1.code_base]
    # ---- C02 registers restored, stack bound
    keep = [2] + CALLEE_SAVED + [cfg["data_reg"]] + ([28] if v in ("rimiss", "rimifull") else [])
    bad = [x for x in keep if res["regs"][x] != res["init"][x]]
    if bad:
        add(["C02"], f"{tag}: registers {['x%d' % x for x in bad]} differ at return from their entry values")
    if L1.stack_top - res["minsp"] > stack_bound:
        add(["C02"], f"{tag}: stack use {L1.stack_top - res['minsp']} bytes exceeds the call-graph bound {stack_bound}")
    # ---- C06 instruction count
    if expected_steps is not None and res["steps"] != expected_steps:
        add(["C06"], f"{tag}: executed {res['steps']} instructions, static prediction {expected_steps}")
    # ---- per-access checks from the trace
    int_len = len(info["dint"]) * 4
    frames = {}
    for m in info["methods"]:
        lo = m["addr"] - info["jit_start"] + int_len
        frames[(lo, lo + 4 * m["total"])] = m.get("_frame", 0)
    tramp_rng = None
    if r["tramps"]:
        lo = r["tramps"][0][1] - info["jit_start"] + int_len
        tramp_rng = (lo, lo + 4 * (r["tramps"][0][2] + r["tramps"][1][2]))
    mlist = sorted(frames)
    import bisect
    starts = [a for a, _ in mlist]
    shadow, cfi_seen, dom_events = [], [], []
    entries_seen = []
    entry_offs = {a - info["jit_start"] + int_len: a for a in info["entries"]}
    for pc_off, sp, acc in trace:
        if pc_off in entry_offs:
            entries_seen.append(entry_offs[pc_off])
        if not acc:
            continue
        k = acc[0]
        if k in ("L", "S"):
            addr, w, base = int(acc[1]), int(acc[2]), int(acc[3])
            if base == 2:
                if pc_off < int_len:
                    F = 88
                elif tramp_rng and tramp_rng[0] <= pc_off < tramp_rng[1]:
                    F = 8
                else:
                    j = bisect.bisect_right(starts, pc_off) - 1
                    F = frames[mlist[j]] if j >= 0 and mlist[j][0] <= pc_off < mlist[j][1] else 0
                if not (sp <= addr and addr + w <= sp + F):
                    add(["C02"], f"{tag}: stack access at image offset {hex(pc_off)} touches {hex(addr)} outside its "
                                 f"own frame [{hex(sp)}, {hex(sp + F)})")
            if k == "S" and v in ("rimiss", "rimifull") and len(acc) > 4 and int(acc[4]) == 1 and pc_off >= int_len \
                    and not (v == "rimiss" and tramp_rng and tramp_rng[0] <= pc_off < tramp_rng[1]):
                add(["C09"], f"{tag}: return address stored to the main stack at image offset {hex(pc_off)}")
        elif k == "SS":
            shadow.append(("push", int(acc[1])))
        elif k == "LS":
            shadow.append(("pop", int(acc[1])))
        elif k == "CC":
            cfi_seen.append(("call", int(acc[1]), pc_off))
        elif k == "CR":
            cfi_seen.append(("ret", None, pc_off))
        elif k == "EC":
            add(["C11"], f"{tag}: the trap (ecall) was reached in an untampered run at image offset {hex(pc_off)}")
    # ---- C09 shadow stack LIFO
    st = []
    for ev, a in shadow:
        if ev == "push":
            if st and a != st[-1] - 8:
                add(["C09"], f"{tag}: shadow-stack push at {hex(a)} does not use the next slot below {hex(st[-1])}")
            st.append(a)
        else:
            if not st or st[-1] != a:
                add(["C09"], f"{tag}: shadow-stack pop at {hex(a)} does not match the last push {st[-1:]}")
            else:
                st.pop()
    if st:
        add(["C09"], f"{tag}: {len(st)} shadow-stack pushes never popped")
    # ---- C11 CFI stack
    if v == "fixer":
        if res["cfi"] != 0:
            add(["C11"], f"{tag}: CFI stack holds {res['cfi']} entries at exit")
    # ---- C05 entries
    top = [a for a in info["interp_calls"] if a is not None]
    from collections import Counter
    cnt = Counter(entries_seen)
    for a in top:
        if cnt.get(a, 0) != 1 and info["entries"][a][0] == "pic":
            add(["C05"], f"{tag}: PIC at {hex(a)} entered {cnt.get(a, 0)} times")
    for p_addr, h, case_addr in hits:
        p = info["entries"][p_addr][1]
        ran = [m["addr"] for m in p["ms"] if cnt.get(m["addr"], 0) > 0]
        # case methods can also be called directly from other methods: look at the entry right after the PIC entry
        k = entries_seen.index(p_addr) if p_addr in entries_seen else -1
        after = entries_seen[k + 1] if 0 <= k < len(entries_seen) - 1 else None
        if after != case_addr:
            add(["C05", "C11"], f"{tag}: call of PIC {hex(p_addr)} with hit case {h} entered "
                                f"{hex(after) if after else None}, case {h} is at {hex(case_addr)}")
    # ---- C07 twin run at another layout
    if "C07" in want:
        L2 = M.Layout(code_base=0x2_0000_1000 + 4 * rng.randrange(0, 1000), data_base=0x3_4000_0000 + 8 * rng.randrange(0, 999),
                      stack_top=0x5_0000_0000 + 8 * rng.randrange(0, 999), ss_base=0x6_0000_0000 + 8 * rng.randrange(0, 99),
                      halt=0x1_0000_0040)
        res2, trp2, _ = run_traced(job, r, "b", L=L2, max_steps=budget, regs_seed=rng.randrange(1000, 2000))
        t2 = [t for t in M.read_trace(trp2) if t[0] != L2.halt - L2.code_base]
        if res2["outcome"] != "halt":
            add(["C07", "C01"], f"{tag}: relocated run ends with {res2['outcome']} {res2['fault']} at {hex(res2['pc'])}")
        else:
            s1 = [(p, (a[0], int(a[1]) - L1.data_base, a[2]) if a and a[0] in ("L", "S", "L1", "S1") and int(a[3]) == cfg["data_reg"] else None)
                  for p, _, a in trace]
            s2 = [(p, (a[0], int(a[1]) - L2.data_base, a[2]) if a and a[0] in ("L", "S", "L1", "S1") and int(a[3]) == cfg["data_reg"] else None)
                  for p, _, a in t2]
            if s1 != s2:
                k = next((i for i, (x, y) in enumerate(zip(s1, s2)) if x != y), min(len(s1), len(s2)))
                add(["C07"], f"{tag}: executions at two load addresses diverge at step {k}: "
                             f"{s1[k] if k < len(s1) else None} vs {s2[k] if k < len(s2) else None}")
    # ---- C09 corruption injection
    if "C09" in want and v in ("rimiss", "rimifull"):
        below = L1.stack_top - 88 - (8 if v == "rimiss" else 0)
        for period in ((7, 13) if deep else (11,)):
            res3, trp3, _ = run_traced(job, r, "c", L=L1, max_steps=budget, regs_seed=5,
                                       extra=["corrupt", below, period, rng.randrange(1, 10 ** 6)])
            ref, trp_r, _ = run_traced(job, r, "d", L=L1, max_steps=budget, regs_seed=5)
            t3 = [p for p, _, _ in M.read_trace(trp3) if p != L1.halt - L1.code_base]
            tr_ = [p for p, _, _ in M.read_trace(trp_r) if p != L1.halt - L1.code_base]
            if t3 != tr_:
                k = next((i for i, (x, y) in enumerate(zip(t3, tr_)) if x != y), min(len(t3), len(tr_)))
                add(["C09"], f"{tag}: corrupting JIT frames on the main stack every {period} steps changes the control "
                             f"flow at step {k} (outcome {res3['outcome']} {res3['fault']})")
    # ---- C11 tamper injection
    if "C11" in want and v == "fixer":
        saves = [(i, int(a[1])) for i, (p, sp, a) in enumerate(trace) if a and a[0] == "S" and len(a) > 4 and int(a[4]) == 1
                 and p >= int_len and not (tramp_rng and tramp_rng[0] <= p < tramp_rng[1])]
        loads = [(i, int(a[1])) for i, (p, sp, a) in enumerate(trace) if a and a[0] == "L" and p >= int_len
                 and not (tramp_rng and tramp_rng[0] <= p < tramp_rng[1]) and int(a[3]) == 2]
        rng.shuffle(saves)
        for (t0, slot) in saves[: (12 if deep else 3)]:
            t1 = next((i for i, a in loads if i > t0 and a == slot), None)
            if t1 is None:
                continue
            tt = rng.randrange(t0 + 1, t1 + 1)
            forged = rng.choice([L1.code_base + 4 * rng.randrange(0, len(info["dint"]) + len(info["djit"])),
                                 rng.getrandbits(40) & ~3, trace[t0][0] + L1.code_base + 4])
            d, paths = M.write_image(r["files"], "e")
            res4 = M.run_image(v, paths, cfg["data_reg"], L=L1, max_steps=budget,
                               extra=["regs", 5, "tamper", tt, slot, forged, "trace", os.path.join(d, "t.txt")])
            t4 = M.read_trace(os.path.join(d, "t.txt"))
            reached = any(p + L1.code_base == forged for p, _, _ in t4[tt:]) and forged != trace[t0][0] + L1.code_base
            if res4["outcome"] != "trap" or (reached and False):
                # the forged value may coincide with the genuine return address
                genuine = any(a and a[0] == "CC" for _, _, a in trace[:1]) and False
                add(["C11"], f"{tag}: overwriting the saved return address at {hex(slot)} at step {tt} with "
                             f"{hex(forged)} ends with {res4['outcome']} {res4['fault']} instead of the trap")
    return issues
