"""Front-ends slice (C08) and records slice (C16)."""
import json
import os
import random

import common as C
import encslice as E
import genslice as G
import staticcheck as S
from floatfmt import to_triple

DEFAULT_REGS = [5, 6, 7, 10, 11, 12, 13, 14, 15, 16, 17, 28, 29, 30, 31]
DEFAULT_W = [25, 30, 10, 5, 10, 10, 10]


def impl_front(jobs, tag="front", hashseed="0"):
    d = C.impl_cwd(tag)
    env = C.impl_env({"PYTHONHASHSEED": hashseed})
    rc, out, _ = C.run([C.PY, os.path.join(C.VERIF, "tools", "impl_front.py")], 3000, cwd=d, env=env,
                       input=json.dumps(jobs))
    if rc != 0:
        raise RuntimeError("impl_front.py failed:\n" + out[-2000:])
    return json.loads([l for l in out.split("\n") if l.startswith("[")][-1])


def cli_subprocess(job, hashseed, tag):
    """python -m gigue ... in its own process"""
    d = C.impl_cwd(tag)
    for k in ("int", "jit", "data", "ss"):
        p = os.path.join(d, "bin", k + ".bin")
        if os.path.exists(p):
            os.remove(p)
    v, cfg = job["variant"], job["cfg"]
    iso, tr = {"base": ("none", 0), "tramp": ("none", 1), "rimiss": ("rimiss", 1), "rimifull": ("rimifull", 1),
               "fixer": ("fixer", 1)}[v]
    argv = ["-s", str(job["seed"]), "-a", str(cfg["interpreter_start_address"]), "-j", str(cfg["jit_start_address"]),
            "-i", iso, "-js", str(cfg["jit_size"]), "-n", str(cfg["jit_nb_methods"]),
            "-vm", repr(cfg["method_variation_mean"]), "-vs", repr(cfg["method_variation_stdev"]),
            "-cm", repr(cfg["call_occupation_mean"]), "-cs", repr(cfg["call_occupation_stdev"]),
            "-cdm", str(cfg["call_depth_mean"]), "--datareg", str(cfg["data_reg"]),
            "--datasize", str(cfg["data_size"]), "--datagen", cfg["data_generation_strategy"],
            "-r", repr(cfg["pics_ratio"]), "--picmeancase", str(cfg["pics_mean_case_nb"]),
            "--piccmpreg", str(cfg["pics_cmp_reg"]), "--pichitcasereg", str(cfg["pics_hit_case_reg"])]
    if not tr:
        argv.append("-not")
    env = C.impl_env({"PYTHONHASHSEED": hashseed})
    rc, out, _ = C.run([C.PY, "-m", "gigue"] + argv, 600, cwd=d, env=env)
    files = {}
    for k in ("int", "jit", "data", "ss"):
        p = os.path.join(d, "bin", k + ".bin")
        if os.path.exists(p):
            files[k] = open(p, "rb").read().hex()
    return {"rc": rc, "files": files, "out": out[-300:]}


def front_cfg(rng, v):
    cfg = G.sample_cfg(rng, v, default_regs=rng.random() < .5)
    cfg["registers"] = list(DEFAULT_REGS)
    cfg["weights"] = list(DEFAULT_W)
    cfg.pop("shadow_stack_size", None)
    return cfg


def run_front_slice(ctx):
    rng = random.Random(ctx.seed * 424243 + 8)
    big = not ctx.quick()
    n = 6 if big else 2
    violations, disagreements = [], []
    evals = 0
    samples = []
    dist = {"front_end_pairs": 0, "histories": 0, "hash_seeds": 0, "cli_subprocesses": 0}
    for v in G.VARIANTS:
        for _ in range(n):
            cfg = front_cfg(rng, v)
            seed = rng.choice([0, 1, rng.getrandbits(32), rng.getrandbits(120)])
            base = {"variant": v, "cfg": cfg, "seed": seed}
            # histories: earlier generations of other variants / configurations / seeds, some failing
            hist = []
            for _ in range(rng.randrange(1, 4)):
                hv = rng.choice(G.VARIANTS)
                hc = front_cfg(rng, hv)
                if rng.random() < .3:
                    hc["data_reg"] = rng.choice([30, 29, 10])
                if rng.random() < .2:
                    hc["jit_start_address"] = hc["interpreter_start_address"] + 8      # fails
                hist.append({"fe": rng.choice(["api", "runner", "cli_main"]), "variant": hv, "cfg": hc,
                             "seed": rng.getrandbits(30)})
            runs = {}
            runs["api"] = impl_front([dict(base, fe="api")], tag="fa")[0]
            runs["runner"] = impl_front([dict(base, fe="runner")], tag="fb", hashseed="1")[0]
            runs["cli_main"] = impl_front([dict(base, fe="cli_main")], tag="fc", hashseed=str(rng.randrange(2, 999)))[0]
            runs["api_after_history"] = impl_front([dict(base, fe="api", history=hist)], tag="fd")[0]
            runs["runner_after_history"] = impl_front([dict(base, fe="runner", history=hist)], tag="fe")[0]
            sub = cli_subprocess(base, "random", "ff")
            runs["cli_process"] = {"files": sub["files"], "exc": None if sub["rc"] == 0 else "exit %d" % sub["rc"],
                                   "globals_changed": []}
            dist["histories"] += 2
            dist["cli_subprocesses"] += 1
            dist["hash_seeds"] += 3
            evals += len(runs)
            ref = runs["api"]
            for k, r in runs.items():
                dist["front_end_pairs"] += 1
                if (r["files"] or {}) != (ref["files"] or {}) or bool(r["exc"]) != bool(ref["exc"]):
                    diff = [f for f in ("int", "jit", "data", "ss") if (r["files"] or {}).get(f) != (ref["files"] or {}).get(f)]
                    violations.append({"kind": "not-reproducible", "job": base, "front_end": k, "history": hist,
                                       "group": f"{k}",
                                       "what": f"{v} seed {seed}: {k} produced different {diff} than the programming "
                                               f"interface in a fresh process (exc {r['exc']} vs {ref['exc']})"})
                if r.get("globals_changed"):
                    violations.append({"kind": "globals-mutated", "job": base, "front_end": k, "history": hist,
                                       "group": "globals",
                                       "what": f"{v}: module/class-level state changed by generation via {k}: "
                                               f"{r['globals_changed'][:4]}"})
            # model correspondence on the api run
            if ctx.model_ok:
                job = {"variant": v, "cfg": cfg, "seed": seed}
                res = dict(ref, elements=[], counts=[0, 0])
                ml = G.model_gen([job], [res])[0]
                if ml.startswith("OK"):
                    head = ml.split("|")[0].split()
                    for nm, mv in zip(("int", "jit", "data", "ss"), head[1:5]):
                        if (ref["files"] or {}).get(nm, "") != ("" if mv == "-" else mv):
                            disagreements.append({"kind": "generator-model-vs-impl", "job": job,
                                                  "what": f"{v} seed {seed}: {nm}.bin differs between model and api"})
                elif not ref["exc"]:
                    disagreements.append({"kind": "generator-model-vs-impl", "job": job,
                                          "what": f"{v} seed {seed}: model {ml[:60]} but the api run succeeded"})
            if len(samples) < 2:
                samples.append({"variant": v, "seed": seed, "history": [(h["fe"], h["variant"]) for h in hist]})
        # the register list is part of the configuration (order and repetitions included): interface vs runner
        for _ in range(2 if big else 1):
            cfg = G.sample_cfg(rng, v, default_regs=True)
            cfg.pop("shadow_stack_size", None)
            regs = [r for r in DEFAULT_REGS if r not in (cfg["data_reg"], 28)]
            rng.shuffle(regs)
            cfg["registers"] = regs[:rng.randrange(4, len(regs))] + [regs[0]]       # unsorted, one repetition
            cfg["weights"] = list(DEFAULT_W)
            seed = rng.getrandbits(40)
            base = {"variant": v, "cfg": cfg, "seed": seed}
            ra = impl_front([dict(base, fe="api")], tag="fa")[0]
            rb = impl_front([dict(base, fe="runner")], tag="fb", hashseed="3")[0]
            evals += 2
            dist["front_end_pairs"] += 1
            if (ra["files"] or {}) != (rb["files"] or {}) or bool(ra["exc"]) != bool(rb["exc"]):
                diff = [f for f in ("int", "jit", "data", "ss") if (ra["files"] or {}).get(f) != (rb["files"] or {}).get(f)]
                violations.append({"kind": "not-reproducible", "job": base, "front_end": "runner", "history": [],
                                   "group": "runner-registers",
                                   "what": f"{v} seed {seed} registers {cfg['registers']}: the runner produced different "
                                           f"{diff} than the programming interface (exc {rb['exc']} vs {ra['exc']})"})
    return {"name": "front-ends", "evaluations": evals, "distinct": evals,
            "rule": "same (variant, configuration, seed) through the programming interface, the toccata runner, "
                    "gigue.cli.main in-process and `python -m gigue` in a subprocess, under different hash seeds, "
                    "fresh and after 1-3 earlier generations (other variants / data registers / failing ones) in "
                    "the same process; all four files compared byte for byte; deep snapshot of module-level state",
            "samples": samples, "dist": dist, "violations": violations, "disagreements": disagreements}


# ------------------------------------------------------------------ C16
def records_judge(job, r):
    """runner records vs the bytes it wrote (independent re-derivation with the spec decoder)"""
    issues = []
    v, cfg = job["variant"], job["cfg"]
    gd, jd = r["generation_data"], r["jit_elements_data"]
    if not r["generation_ok"]:
        return issues
    jit_start = cfg["jit_start_address"] // 4 * 4
    int_start = cfg["interpreter_start_address"] // 4 * 4
    # the emitted binary is int.bin immediately followed by jit.bin, loaded at the interpreter start: reported
    # addresses are positions in it only if int.bin spans exactly the distance between the two starts
    nint = len(r["files"].get("int", "")) // 2
    if nint != jit_start - int_start:
        issues.append(f"int.bin is {nint} bytes for a distance of {jit_start - int_start} between the interpreter and "
                      f"JIT starts: in the emitted binary every element sits {nint - (jit_start - int_start)} bytes "
                      f"away from its reported address")
    djit = S.decode_words(v, r["files"]["jit"])
    end = jit_start + 4 * len(djit)

    def at(a):
        i = (a - jit_start) // 4
        return djit[i] if 0 <= i < len(djit) and (a - jit_start) % 4 == 0 else None

    spans, sizes = [], []

    def check_method(m, where):
        a, n = m["address"], m["full_size"]
        first, last = at(a), at(a + 4 * (n - 1))
        if first is None or first[0] != "addi" or first[1:3] != (2, 2) or first[3] >= 0:
            issues.append(f"{where}: no method prologue at the reported address {hex(a)} ({first})")
        if last != ("jalr", 0, 1, 0):
            issues.append(f"{where}: method at {hex(a)} does not end (ret) after the reported {n} instructions ({last})")
        inner = [i for i in range(1, n - 1) if at(a + 4 * i) == ("jalr", 0, 1, 0)]
        if inner:
            issues.append(f"{where}: method at {hex(a)} contains a ret before its reported end")
        ncalls = sum(1 for i in range(n - 1) if at(a + 4 * i) and at(a + 4 * i)[0] == "auipc" and at(a + 4 * i)[1] == 1
                     and at(a + 4 * i + 4) and at(a + 4 * i + 4)[0] == "jalr" and at(a + 4 * i + 4)[1:3] == (1, 1))
        if ncalls != (m["call_number"] if m["call_depth"] >= 1 else 0):
            issues.append(f"{where}: method at {hex(a)} has {ncalls} call sites, record says call_number "
                          f"{m['call_number']} depth {m['call_depth']}")
        spans.append((a, a + 4 * n))
        sizes.append(n)

    for m in jd["methods_info"]:
        check_method(m, "method record")
    for p in jd["pics_info"]:
        a, n = p["address"], p["case_number"]
        if len(p["methods_info"]) != n:
            issues.append(f"PIC record at {hex(a)}: {len(p['methods_info'])} case records, case_number {n}")
        for k, m in enumerate(p["methods_info"]):
            j = at(a + 12 * k + 8)
            if j is None or j[0] != "jal" or a + 12 * k + 8 + j[2] != m["address"] or at(a + 12 * k)[0] != "addi":
                issues.append(f"PIC record at {hex(a)}: switch case {k + 1} does not jump to the recorded case method "
                              f"{hex(m['address'])} ({j})")
            check_method(m, f"PIC {hex(a)} case {k + 1}")
        if at(a + 12 * n) != ("jalr", 0, 1, 0):
            issues.append(f"PIC record at {hex(a)}: no ret after {n} switch cases")
        tot = 3 * n + 1 + sum(m["full_size"] for m in p["methods_info"])
        if p["full_size"] != tot:
            issues.append(f"PIC record at {hex(a)}: full_size {p['full_size']}, switch + cases = {tot}")
        spans.append((a, a + 4 * (3 * n + 1)))
    spans.sort()
    tr = [("call", 5, 3), ("fix", 8, 3)]
    first = spans[0][0] if spans else jit_start
    pos = first
    for lo, hi in spans:
        if lo != pos:
            issues.append(f"records leave a gap / overlap at {hex(pos)}..{hex(lo)}")
        pos = hi
    if pos != end:
        issues.append(f"records end at {hex(pos)}, jit.bin ends at {hex(end)}")
    nbm = len(sizes)
    if gd["nb_methods"] != nbm or gd["nb_pics"] != len(jd["pics_info"]):
        issues.append(f"nb_methods {gd['nb_methods']} / nb_pics {gd['nb_pics']} vs {nbm} / {len(jd['pics_info'])} in the image")
    if sizes and gd["mean_method_size"] != sum(sizes) / len(sizes):
        issues.append(f"mean_method_size {gd['mean_method_size']!r} != {sum(sizes)}/{len(sizes)}")
    cases = [p["case_number"] for p in jd["pics_info"]]
    if gd["pics_mean_case_nb"] != (sum(cases) / len(cases) if cases else 0):
        issues.append(f"pics_mean_case_nb {gd['pics_mean_case_nb']!r} != mean of {cases}")
    return issues


PRESETS = {"nbmethods": {"low": {"jit_nb_methods": 100}, "medium": {"jit_nb_methods": 140}, "high": {"jit_nb_methods": 180}}}


def run_records_slice(ctx):
    rng = random.Random(ctx.seed * 77773 + 16)
    big = not ctx.quick()
    jobs = []
    for v in G.VARIANTS:
        for _ in range(10 if big else 3):
            cfg = G.sample_cfg(rng, v)
            cfg.pop("shadow_stack_size", None)
            jobs.append({"fe": "runner", "variant": v, "cfg": cfg, "seed": rng.choice([0, rng.getrandbits(64), rng.getrandbits(127)])})
        # a campaign: three generations with PICs through one Runner, as toccata.cli.main does for nb_runs > 1
        for k in range(3):
            cfg = G.sample_cfg(rng, v)
            cfg.pop("shadow_stack_size", None)
            cfg["pics_ratio"] = rng.choice([0.4, 0.8])
            cfg["pics_mean_case_nb"] = [2, 5, 3][k]
            jobs.append({"fe": "runner", "variant": v, "cfg": cfg, "seed": rng.getrandbits(64), "runner_key": "campaign-" + v})
    # the shipped base configuration with the low / medium / high presets applied (registers as shipped)
    try:
        base = json.load(open(os.path.join(C.REPO, "toccata", "config", "small_config.json")))["input_data"]
        import subprocess
        code = "import json,toccata.cli as t;print(json.dumps({'nbmethods':t.nbmethods,'calloccup':t.calloccup,'memaccess':t.memaccess}))"
        rc, out, _ = C.run([C.PY, "-c", code], 60, cwd=C.impl_cwd("impl"), env=C.impl_env())
        presets = json.loads([l for l in out.split("\n") if l.startswith("{")][-1])
        for pname, levels in presets.items():
            for lvl, fields in levels.items():
                inp = dict(base)
                inp.update(fields)
                v = {"none": "tramp" if inp["uses_trampolines"] else "base"}.get(inp["isolation_solution"], inp["isolation_solution"])
                keys = ["interpreter_start_address", "jit_start_address", "jit_size", "jit_nb_methods",
                        "method_variation_mean", "method_variation_stdev", "call_depth_mean", "call_occupation_mean",
                        "call_occupation_stdev", "pics_ratio", "pics_mean_case_nb", "data_size",
                        "data_generation_strategy", "pics_cmp_reg", "pics_hit_case_reg", "registers", "data_reg", "weights"]
                jobs.append({"fe": "runner", "variant": v, "cfg": {k: inp[k] for k in keys}, "seed": rng.getrandbits(32),
                             "preset": f"{pname}={lvl}"})
    except Exception as e:  # configuration files are part of the repo: their absence is reported by the slice
        jobs.append({"fe": "runner", "variant": "tramp", "cfg": G.sample_cfg(rng, "tramp"), "seed": 1, "preset": f"unavailable: {e}"})
    res = impl_front(jobs, tag="rec")
    violations, disagreements = [], []
    dist = {"ok": 0, "failed_generation": 0, "presets": sum(1 for j in jobs if "preset" in j)}
    # the recorded seed regenerates the same files
    again = impl_front([dict(j, seed=r["generation_data"]["gigue_seed"]) if "generation_data" in r else j
                        for j, r in zip(jobs, res)], tag="rec2", hashseed="7")
    for j, r, r2 in zip(jobs, res, again):
        tag = f"{j['variant']} seed {j['seed']}" + (f" preset {j['preset']}" if "preset" in j else "")
        if r["exc"] or not r.get("generation_ok"):
            dist["failed_generation"] += 1
            if r["exc"]:
                violations.append({"kind": "runner-raises", "job": j, "group": "runner-raises",
                                   "what": f"{tag}: Runner.generate_binary raised {r['exc']}"})
            elif r.get("files"):
                violations.append({"kind": "files-without-records", "job": j, "group": "files-without-records",
                                   "what": f"{tag}: generation flagged as failed but files {sorted(r['files'])} "
                                           f"were written: no record describes them"})
            continue
        dist["ok"] += 1
        for what in records_judge(j, r):
            violations.append({"kind": "records-mismatch", "job": j, "group": what[:40],
                               "what": f"{tag}: {what}"})
        if r["generation_data"]["gigue_seed"] != j["seed"] or r2["files"] != r["files"]:
            violations.append({"kind": "seed-not-reproducing", "job": j, "group": "seed",
                               "what": f"{tag}: regenerating with the recorded gigue_seed "
                                       f"{r['generation_data']['gigue_seed']} gives different files"})
        if ctx.model_ok:
            # model: same script minus the trailing gen_id draws
            log = [l for l in r["log"]]
            n_id = 0
            while log and log[-1].startswith("CH 62 "):
                log.pop()
                n_id += 1
            job = {"variant": j["variant"], "cfg": j["cfg"], "seed": j["seed"]}
            ml = G.model_gen([job], [dict(r, log=log)])[0]
            if not ml.startswith("OK"):
                disagreements.append({"kind": "records-model-vs-impl", "job": j, "what": f"{tag}: model {ml[:80]}"})
                continue
            rec = ml.split("|")[3].strip()
            gdl, minfo, pinfo = [x.strip() for x in rec.split(";")]
            nbm, nbp, msz, mcs, idd = gdl.split()
            gd, jd = r["generation_data"], r["jit_elements_data"]
            im = " ".join("%d:%d:%d:%d" % (m["address"], m["full_size"], m["call_number"], m["call_depth"]) for m in jd["methods_info"])
            ip = " ".join("%d:%d:%d[%s]" % (p["address"], p["full_size"], p["case_number"],
                                            ",".join("%d:%d:%d:%d" % (m["address"], m["full_size"], m["call_number"], m["call_depth"])
                                                     for m in p["methods_info"])) for p in jd["pics_info"])
            if (int(nbm), int(nbp)) != (gd["nb_methods"], gd["nb_pics"]) or minfo != im or pinfo != ip \
                    or msz != to_triple(float(gd["mean_method_size"])) or mcs != to_triple(float(gd["pics_mean_case_nb"])) \
                    or int(idd) != n_id:
                disagreements.append({"kind": "records-model-vs-impl", "job": j,
                                      "what": f"{tag}: records differ: model [{gdl}] impl [{gd['nb_methods']} {gd['nb_pics']} "
                                              f"{gd['mean_method_size']!r} {gd['pics_mean_case_nb']!r} ids {n_id}]"})
    return {"name": "records", "evaluations": len(jobs), "distinct": len(jobs),
            "rule": "Runner.generate_binary for the 5 isolation solutions x random configurations + the shipped "
                    "small_config with every low/medium/high preset; records re-derived from bin/jit.bin with the "
                    "spec decoder; recorded seed re-run; records compared with the model's Records",
            "samples": [{"variant": jobs[0]["variant"], "seed": jobs[0]["seed"]}], "dist": dist,
            "violations": violations, "disagreements": disagreements}
