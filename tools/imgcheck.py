"""Shared slices for the image-level properties (C01..C11, C16): generator
correspondence (model vs implementation, byte-exact) + independent judgement of
the implementation's images (static judge on the spec decoder's output, dynamic
judge on the extracted reference machine)."""
import json

import dynjudge
import genslice

PROP_SALT = {"C01": 1, "C02": 2, "C03": 3, "C04": 4, "C05": 5, "C06": 6, "C07": 7, "C08": 8, "C09": 9, "C10": 10,
             "C11": 11, "C16": 16}


class SubCtx:
    def __init__(self, ctx, salt):
        self.seed = ctx.seed * 1000 + salt
        self.tier, self.deep, self.model_ok = ctx.tier, ctx.deep, ctx.model_ok

    def quick(self):
        return self.tier == "quick"


SHAPES = {"C04": ("huge_methods", "far", "stub_boundary"), "C07": ("huge_methods", "far", "deep"),
          "C06": ("huge_methods", "deep"), "C01": ("huge_methods", "deep", "stub_boundary"), "C02": ("deep",),
          "C05": ("deep", "stub_boundary"), "C10": ("huge_methods", "stub_boundary", "stub_boundary", "stub_boundary")}


def image_slices(ctx, pid, variants=genslice.VARIANTS, want=None, n_quick=8, n_thorough=40, dynamic=True):
    sub = SubCtx(ctx, PROP_SALT[pid])
    big = (not ctx.quick()) or ctx.deep
    n_cfg = n_thorough if not ctx.quick() else (14 if ctx.deep else n_quick)   # deep = search after a broken tie
    g = genslice.run_gen_slice(sub, n_cfg=n_cfg, variants=variants, label="generator",
                               shapes=SHAPES.get(pid, ("huge_methods",)))
    jobs, results = g.pop("jobs"), g.pop("results")
    violations, judged, skipped = [v for v in g["violations"] if pid in v.get("props", [])], 0, 0
    g["violations"] = []
    dist = {"judged_images": 0, "executed_steps": 0, "raised": 0}
    disagreements = []
    for job, r in zip(jobs, results):
        if r["exc"]:
            dist["raised"] += 1
            # C04: failure must leave no files
            if r["files"]:
                violations.append({"kind": "files-on-error", "job": job, "group": "files-on-error", "props": ["C04"],
                                   "what": f"{job['variant']}: generation raised {r['exc']} but wrote {sorted(r['files'])}"})
            continue
        try:
            issues = dynjudge.judge(job, r, ctx_seed=sub.seed, want=want or (pid,), deep=big) if dynamic \
                else dynjudge.S.analyze(job, r)[0]
        except Exception as e:  # a judge crash on an implementation image is itself reported
            issues = [([pid], f"judge could not analyse the image: {type(e).__name__}: {e}")]
        judged += 1
        dist["model_static_counts_compared"] = dist.get("model_static_counts_compared", 0) + len(r.get("_model_counts") or [])
        for props, what in issues:
            if "MODEL" in props:
                disagreements.append({"kind": "static-count-model-vs-image", "job": job,
                                      "what": f"{job['variant']} seed {job['seed']}: {what}"})
            if pid in props:
                violations.append({"kind": "image-violates", "job": job, "props": props,
                                   "group": what.split(":")[0][:40] + what[-30:],
                                   "what": f"{job['variant']} seed {job['seed']}"
                                           f"{' policy ' + job['policy']['name'] if job.get('policy') else ''}: {what}"})
    dist["judged_images"] = judged
    j = {"name": "image-judge", "evaluations": judged, "distinct": judged,
         "rule": "every successfully generated implementation image of the generator slice is decoded by the spec "
                 "decoder and (dynamic clauses) executed on the extracted reference machine with exact region "
                 "mapping and arbitrary initial registers / stack; judged against the property statement",
         "samples": [{"variant": jobs[0]["variant"], "seed": jobs[0]["seed"]}], "dist": dist,
         "violations": violations, "disagreements": disagreements}
    return [g, j]


def replay_image(pid, payload):
    job = payload.get("job")
    if not job:
        return True, "nothing to replay"
    r = genslice.impl_gen([job])[0]
    if r["exc"]:
        ok = not r["files"]
        return ok, f"generation raises {r['exc']}; files written: {sorted(r['files'] or [])}"
    issues = dynjudge.judge(job, r, want=(pid,), deep=True)
    mine = [w for p, w in issues if pid in p]
    return not mine, f"{job['variant']} seed {job['seed']}: " + ("; ".join(mine)[:1500] if mine else "no violation on this input")
