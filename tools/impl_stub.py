"""Implementation side of the stubs slice.  stdin: JSON list of [kind, args...];
stdout: JSON list of {"w": [words]} | {"exc": ClassName}."""
import json
import sys


def main():
    from gigue.builder import InstructionBuilder as B
    from gigue.rimi.rimi_builder import RIMIFullInstructionBuilder as RB
    from gigue.fixer.fixer_builder import FIXERInstructionBuilder as FB
    from gigue.disassembler import Disassembler
    d = Disassembler()
    out = []
    for case in json.load(sys.stdin):
        kind, a = case[0], case[1:]
        try:
            if kind == "method":
                ins = B.build_method_base_call(a[0])
            elif kind == "pic":
                ins = B.build_pic_base_call(a[0], a[1], a[2])
            elif kind == "imeth":
                ins = (RB if a[0] else B).build_interpreter_trampoline_method_call(a[1], a[2])
            elif kind == "ipic":
                ins = (RB if a[0] else B).build_interpreter_trampoline_pic_call(a[1], a[2], a[3], a[4])
            elif kind == "switch":
                ins = B.build_switch_case(a[0], a[1], a[2], a[3])
            elif kind == "regsave":
                ins = B.build_pc_relative_reg_save(a[0], a[1])
            elif kind == "fmeth":
                ins = FB.build_method_base_call(a[0])
            elif kind == "fpic":
                ins = FB.build_pic_base_call(a[0], hit_case=a[1], hit_case_reg=a[2])
            else:
                raise ValueError(kind)
            ws = [i.generate() for i in ins]
            r = {"w": ws}
            if kind in ("method", "regsave"):
                r["pcrel"] = d.extract_pc_relative_offset(ws)
            out.append(r)
        except Exception as e:  # noqa
            out.append({"exc": type(e).__name__})
    json.dump(out, sys.stdout)


main()
