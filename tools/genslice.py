"""Generator slice: gigue's five generators under ScriptRandom (recorded real
seeds and forced boundary policies) vs the extracted Generator model fed the
same decision script; files compared byte for byte, exception class compared,
element records compared."""
import json
import math
import os
import random
import subprocess
from concurrent.futures import ThreadPoolExecutor

import common as C
import encslice as E
from floatfmt import to_triple

VARIANTS = ["base", "tramp", "rimiss", "rimifull", "fixer"]
VIDX = {v: i for i, v in enumerate(VARIANTS)}
CALLER_SAVED = [5, 6, 7, 10, 11, 12, 13, 14, 15, 16, 17, 28, 29, 30, 31]
DATA_SIZES = [8, 9, 15, 16, 17, 23, 24, 64, 256, 1024, 1600, 2047, 2048, 2055, 2056, 4096]


def impl_gen(jobs, tag="gen"):
    d = C.impl_cwd(tag)
    rc, out, _ = C.run([C.PY, os.path.join(C.VERIF, "tools", "impl_gen.py")], 3000, cwd=d,
                       env=C.impl_env(), input=json.dumps(jobs))
    if rc != 0:
        raise RuntimeError("impl_gen.py failed:\n" + out[-2000:])
    return json.loads([l for l in out.split("\n") if l.startswith("[")][-1])


def impl_gen_parallel(jobs, nproc=8):
    if len(jobs) < 2 * nproc:
        return impl_gen(jobs)
    chunks = [jobs[i::nproc] for i in range(nproc)]
    with ThreadPoolExecutor(nproc) as ex:
        rs = list(ex.map(lambda ic: impl_gen(ic[1], tag=f"gen{ic[0]}"), enumerate(chunks)))
    out = [None] * len(jobs)
    for i, r in enumerate(rs):
        for j, x in enumerate(r):
            out[i + j * nproc] = x
    return out


def admissible_pic_regs(rng, variant, data_reg):
    reserved = {data_reg}
    if variant in ("rimiss", "rimifull", "fixer"):
        reserved.add(28)
    cand = [r for r in CALLER_SAVED if r not in reserved]
    while True:
        hit, cmp_ = rng.sample(cand, 2)
        if variant != "base" and hit == 6:
            continue
        return hit, cmp_


def sample_cfg(rng, variant, small=True, default_regs=None, shape=None):
    nb = rng.choice([1, 2, 3, 5, 8, 13, 20, 40] if small else [1, 10, 50, 100, 200])
    msize = rng.choice([1, 2, 3, 6, 7, 10, 12, 20, 35, 60] if small else [10, 50, 200, 600])
    if shape == "huge_methods":            # bodies beyond 508 / 512 instructions (offset clamps of the J/B builders)
        nb, msize = rng.choice([1, 2, 3]), rng.choice([520, 700, 1100, 2100])
    if shape == "deep":                    # long call chains
        nb, msize = rng.choice([60, 120, 160]), rng.choice([9, 12, 18])
    if variant == "fixer":
        msize = max(msize, 1)
    data_reg = rng.choice([31, 31, 31, 30, 29, 10, 17])
    if default_regs if default_regs is not None else rng.random() < .6:
        hit, cmp_ = 5, 6
        if data_reg in (5, 6):
            data_reg = 31
    else:
        hit, cmp_ = admissible_pic_regs(rng, variant, data_reg)
    reserved = {data_reg, hit, cmp_, 6} | ({28} if variant in ("rimiss", "rimifull", "fixer") else set())
    pool = [r for r in CALLER_SAVED if r not in reserved]
    if rng.random() < .5:
        regs = list(CALLER_SAVED)
    else:
        regs = rng.sample(pool, rng.randrange(1, len(pool) + 1))
        if rng.random() < .5:
            regs.append(data_reg)          # the generator must filter it out itself
    # PIC registers must not be written by random bodies between the load and the switch: they are only
    # live inside the stub+switch, so they may be in the usable list (as the defaults t0/t1 are)
    cfg = dict(
        interpreter_start_address=rng.choice([0x0, 0x1000, 0x80002A24 & ~3, 0x400]),
        jit_size=nb * msize + rng.randrange(0, nb),
        jit_nb_methods=nb,
        method_variation_mean=rng.choice([0.0, 0.2, 0.5, 1.0, rng.random()]),
        method_variation_stdev=rng.choice([0.1, 0.3, 0.01]),
        call_depth_mean=rng.choice([1, 2, 3]) if shape != "deep" else rng.choice([6, 18, 25]),
        call_occupation_mean=rng.choice([0.0, 0.2, 0.5, 1.0, rng.random()]),
        call_occupation_stdev=rng.choice([0.1, 0.3]),
        pics_ratio=rng.choice([0.0, 0.2, 0.5, 1.0, rng.random()]),
        pics_mean_case_nb=rng.choice([1, 2, 3, 5]),
        data_size=rng.choice(DATA_SIZES),
        data_generation_strategy=rng.choice(["random", "random", "zeroes", "iterative32", "iterative64"]),
        pics_cmp_reg=cmp_, pics_hit_case_reg=hit,
        registers=regs, data_reg=data_reg,
        weights=rng.choice([[25, 30, 10, 5, 10, 10, 10], [28, 28, 20, 8, 8, 4, 4], [20, 20, 4, 8, 8, 20, 20],
                            [1, 1, 1, 1, 1, 1, 1], [0, 0, 0, 0, 0, 50, 50]]),
    )
    # room for the interpreter: prologue 12 + 5/6 per element + epilogue 13
    need = (12 + 13 + 6 * nb + 8) * 4
    gap = rng.choice([need, need + 64, 0x5000, 0x5000] if small else [need, 0x5000, 0x100000])
    if shape == "deep":
        cfg["call_occupation_mean"], cfg["method_variation_mean"] = rng.choice([0.3, 0.6]), 0.2
    if shape == "far":                     # elements farther than 2 MiB from their call sites
        gap = rng.choice([0x200000, 0x300000]) + need
        cfg["jit_nb_methods"], cfg["jit_size"] = nb, nb * 6
    if shape == "stub_boundary":           # some interpreter call stub starts 0x800 / 0x804 (mod 0x1000) before
        nb = rng.choice([3, 8, 20, 40])    # the JIT start: the low/high split of its offsets is at its boundary
        cfg["jit_nb_methods"], cfg["jit_size"] = nb, nb * rng.choice([3, 7, 12])
        cfg["interpreter_start_address"] = rng.choice([0x0, 0x1000, 0x4000])
        gap = 0x800 + 48 + 4 * rng.randrange(0, 4 * nb) + rng.choice([0, 0x1000])
        cfg["pics_ratio"] = rng.choice([0.0, 0.0, 0.3])
    cfg["jit_start_address"] = cfg["interpreter_start_address"] + gap
    if rng.random() < .15 and shape != "stub_boundary":   # unaligned requests: the generators align both down to 4
        cfg["interpreter_start_address"] += rng.choice([1, 2, 3])
        cfg["jit_start_address"] += rng.choice([4, 5, 6, 7])
    if variant in ("rimiss", "rimifull") and rng.random() < .5:
        cfg["shadow_stack_size"] = rng.choice([8, 24, 40, 64, 792, 800, 1600])
    return cfg


def cfg_line(variant, cfg, nlines, fuel=3000):
    t = lambda x: to_triple(float(x))
    special = 28
    ss = cfg.get("shadow_stack_size", 800)
    return "gen %d %d %d %d %d %s %s %d %s %s %s %s %d %s %d %s %d %d %s %d %s %d %d %d %d" % (
        VIDX[variant], cfg["interpreter_start_address"], cfg["jit_start_address"], cfg["jit_size"],
        cfg["jit_nb_methods"], t(cfg["method_variation_mean"]), t(cfg["method_variation_stdev"]),
        cfg["call_depth_mean"], t(math.exp(-cfg["call_depth_mean"])), t(cfg["call_occupation_mean"]),
        t(cfg["call_occupation_stdev"]), t(cfg["pics_ratio"]), cfg["pics_mean_case_nb"],
        t(math.exp(-cfg["pics_mean_case_nb"])), cfg["data_size"], cfg["data_generation_strategy"],
        cfg["pics_cmp_reg"], cfg["pics_hit_case_reg"], ",".join(map(str, cfg["registers"])) or "-",
        cfg["data_reg"], ",".join(map(str, cfg["weights"])), special, ss, fuel, nlines)


def translate_log(log):
    out = []
    fh = float.fromhex
    for l in log:
        p = l.split()
        if p[0] == "GA":
            out.append("GA %s %s %s" % (to_triple(fh(p[1])), to_triple(fh(p[2])), to_triple(fh(p[3]))))
        elif p[0] == "RA":
            out.append("RA " + to_triple(fh(p[1])))
        elif p[0] == "CS" and p[3].startswith("F:"):
            ws = ";".join(to_triple(fh(x)) for x in p[3][2:].split(","))
            out.append(" ".join(p[:3] + ["F:" + ws] + p[4:]))
        elif p[0] == "RB" and len(p) == 2:
            out.append(l + " ")
        else:
            out.append(l)
    return out


def model_gen(jobs, results):
    lines = []
    for job, r in zip(jobs, results):
        sc = translate_log(r["log"])
        lines.append(cfg_line(job["variant"], job["cfg"], len(sc)))
        lines += sc
    p = os.path.join(C.WORK, "bin", "model_driver")
    rc, out, _ = C.run(["bash", "-c", "ulimit -s unlimited; exec " + p], 3000, input="\n".join(lines) + "\n")
    if rc != 0:
        raise RuntimeError("model_driver gen failed: " + out[-1500:])
    res = [l for l in out.split("\n") if l]
    if len(res) != len(jobs):
        raise RuntimeError(f"model_driver: {len(jobs)} jobs, {len(res)} answers; last: {res[-1][:300] if res else ''}")
    return res


EXC_MAP = {"WrongAddressException": "WrongAddressException", "ZeroDivisionError": "ZeroDivisionError",
           "IndexError": "IndexError", "ValueError": "ValueError", "KeyError": "KeyError",
           "AttributeError": "KeyError", "WrongOffsetException": "WrongOffsetException",
           "CallNumberException": "CallNumberException"}


def compare(job, r, mline):
    """returns None if model and implementation agree, else a description"""
    if mline.startswith("ERR"):
        me = mline.split(" ", 1)[1]
        if r["exc"] is None:
            return f"model raises {me}, implementation succeeds"
        if EXC_MAP.get(r["exc"], r["exc"]) != me:
            return f"model raises {me}, implementation raises {r['exc']}"
        return None
    if r["exc"] is not None:
        return f"implementation raises {r['exc']}, model succeeds"
    head, mrecs, erecs = [x.strip() for x in mline.split("|")][:3]
    _, mi, mj, md, mss, left = head.split()[:6]
    f = r["files"] or {}
    for nm, mv in (("int", mi), ("jit", mj), ("data", md), ("ss", mss)):
        iv = f.get(nm, "") or "-"
        if mv != iv:
            k = next((i for i in range(0, min(len(mv), len(iv)), 8) if mv[i:i + 8] != iv[i:i + 8]), min(len(mv), len(iv)))
            return f"{nm}.bin differs at byte {k // 2} (lengths model {len(mv) // 2} impl {len(iv) // 2}): " \
                   f"model {mv[k:k + 8]} impl {iv[k:k + 8]}"
    if left != "0":
        return f"model left {left} script events unconsumed"
    # element records
    impl_ms = []
    for e in r["elements"]:
        impl_ms += [e["m"]] if e["kind"] == "M" else e["ms"]
    mm = mrecs.split()
    if len(mm) != len(impl_ms):
        return f"model has {len(mm)} methods, implementation {len(impl_ms)}"
    addr_of = [int(x.split(":")[0]) for x in mm]
    for x, im in zip(mm, impl_ms):
        a, b, c, d, pr, ep, cal = x.split(":")
        cal = [addr_of[int(i)] for i in cal.split(",")] if cal else []
        if (int(a), int(b), int(c), int(d), int(pr), int(ep)) != (im["addr"], im["body"], im["calls"], im["depth"],
                                                                   im["pro"], im["epi"]) or cal != im["callees"]:
            return f"method record differs: model {x} ({cal}) impl {im}"
    # the model's statically computed instruction count / stack need of every method (ImageSem.count_method,
    # need_method: the quantities of the whole-image theorems) are handed to the dynamic judge, which compares
    # them with what it derives from the decoded implementation image
    parts = [x.strip() for x in mline.split("|")]
    if len(parts) > 4 and parts[4]:
        r["_model_counts"] = [tuple(int(y) for y in x.split(":")) for x in parts[4].split()]
    return None


def run_gen_slice(ctx, n_cfg=None, variants=VARIANTS, policies=True, label="generator",
                  shapes=("huge_methods", "deep"), pic_heavy=False):
    rng = random.Random(ctx.seed * 7368787 + 31)
    big = (not ctx.quick()) or ctx.deep
    n = n_cfg or (120 if big else 8)
    big = not ctx.quick()
    jobs = []
    for v in variants:
        for k in range(n):
            cfg = sample_cfg(rng, v, small=(not big) or k % 4 != 0)
            if pic_heavy:        # PICs whose ZTP draw exceeds the methods still to create, and the ratio extremes
                cfg["pics_ratio"] = [1.0, 0.9, 0.0, 0.7, 1.0, 0.5][k % 6]
                cfg["pics_mean_case_nb"] = rng.choice([3, 5, 8, 12])
            jobs.append({"variant": v, "cfg": cfg, "seed": rng.getrandbits(64)})
        for shape in shapes:
            for _ in range(3 if big else 1):
                jobs.append({"variant": v, "cfg": sample_cfg(rng, v, shape=shape), "seed": rng.getrandbits(64),
                             "shape": shape})
        if policies:
            for pol in ({"name": "last_hit_case"}, {"name": "first_hit_case"},
                        {"name": "extremes", "v": 0.0, "occ": 1.0, "maxoff": True},
                        {"name": "extremes", "v": 1.0 - 2 ** -53, "occ": 1.0},
                        {"name": "extremes", "v": 0.5, "occ": 0.0, "maxoff": True},
                        {"name": "all_pics_big", "u": 0.99}, {"name": "mem_heavy"}):
                for _ in range(4 if big else 1):
                    cfg = sample_cfg(rng, v)
                    if pol["name"] in ("last_hit_case", "first_hit_case", "all_pics_big"):
                        cfg["pics_ratio"] = rng.choice([0.6, 1.0])
                    if pol.get("maxoff") or pol["name"] == "mem_heavy":
                        cfg["data_size"] = rng.choice([2055, 2056, 2057, 4096, 8, 16, 24])
                        cfg["weights"] = [1, 1, 1, 1, 1, 20, 20]
                    jobs.append({"variant": v, "cfg": cfg, "seed": rng.getrandbits(64),
                                 "policy": dict(pol, var_mean=cfg["method_variation_mean"],
                                                var_std=cfg["method_variation_stdev"],
                                                occ_mean=cfg["call_occupation_mean"],
                                                occ_std=cfg["call_occupation_stdev"])})
            # error branch: the interpreter loop does not fit
            for _ in range(3 if big else 1):
                cfg = sample_cfg(rng, v)
                cfg["jit_start_address"] = cfg["interpreter_start_address"] + rng.choice([0, 4, 48, 96, 100])
                jobs.append({"variant": v, "cfg": cfg, "seed": rng.getrandbits(64)})
    results = impl_gen_parallel(jobs)
    # second pass: the same seeds with the JIT start at / just inside / just past the end of the interpreter loop
    fit_jobs = []
    for job, r in list(zip(jobs, results)):
        if r["exc"] or job.get("policy") or len(fit_jobs) >= (40 if big else 10) or rng.random() < .5:
            continue
        ints = r["files"]["int"]
        nop = "13000000"
        n_int = len(ints) // 8
        while n_int > 0 and ints[8 * (n_int - 1): 8 * n_int] == nop:
            n_int -= 1
        i0 = job["cfg"]["interpreter_start_address"] // 4 * 4
        for k in rng.sample([0, 1, 2, 5, 12, 13, 14, -1], 3):
            cfg2 = dict(job["cfg"], interpreter_start_address=i0, jit_start_address=i0 + 4 * (n_int - k))
            fit_jobs.append({"variant": job["variant"], "cfg": cfg2, "seed": job["seed"], "fit_overrun": k})
    if fit_jobs:
        fit_res = impl_gen_parallel(fit_jobs)
        jobs += fit_jobs
        results += fit_res
    disagreements, violations = [], []
    dist = {"by_variant": {}, "exceptions": {}, "instructions": 0, "pics": 0, "methods": 0, "events": 0,
            "policies": 0, "generated_and_cfg_ok": 0, "generated_outside_cfg_ok": 0}
    model = model_gen(jobs, results) if ctx.model_ok else None
    for k, (job, r) in enumerate(zip(jobs, results)):
        dist["by_variant"][job["variant"]] = dist["by_variant"].get(job["variant"], 0) + 1
        dist["events"] += len(r["log"])
        dist["policies"] += 1 if job.get("policy") else 0
        if r["exc"]:
            dist["exceptions"][r["exc"]] = dist["exceptions"].get(r["exc"], 0) + 1
        else:
            dist["instructions"] += sum(len(r["files"][x]) for x in ("int", "jit")) // 8
            dist["pics"] += r["counts"][1]
            dist["methods"] += r["counts"][0]
        if model is not None:
            if model[k].startswith("OK") and not r["exc"]:
                ok_flag = model[k].split("|")[0].split()[6:7] == ["1"]
                dist["generated_and_cfg_ok" if ok_flag else "generated_outside_cfg_ok"] += 1
            d = compare(job, r, model[k])
            if d:
                disagreements.append({"kind": "generator-model-vs-impl", "job": job,
                                      "what": f"{job['variant']} seed {job['seed']} "
                                              f"{'policy ' + job['policy']['name'] if job.get('policy') else ''}: {d}"})
        if "fit_overrun" in job:
            k = job["fit_overrun"]
            if k >= 1 and (r["exc"] is None or r["files"]):
                violations.append({"kind": "overlap-not-refused", "job": job, "props": ["C04", "C01"],
                                   "group": "overlap-not-refused",
                                   "what": f"{job['variant']} seed {job['seed']}: the interpreter loop overruns the JIT "
                                           f"start by {k} instruction(s) but generation "
                                           f"{'succeeded' if r['exc'] is None else 'raised ' + r['exc']} and wrote "
                                           f"{sorted(r['files'] or [])}"})
            if k <= 0 and r["exc"] is not None and r["exc"] != "WrongOffsetException":
                violations.append({"kind": "fit-refused", "job": job, "props": ["C04"], "group": "fit-refused",
                                   "what": f"{job['variant']} seed {job['seed']}: the interpreter loop fits exactly "
                                           f"({-k} spare) but generation raised {r['exc']}"})
        if r["globals_changed"]:
            disagreements.append({"kind": "globals-mutated", "job": job,
                                  "what": f"{job['variant']}: module-level state changed: {r['globals_changed'][:4]}"})
    return {"name": label, "evaluations": len(jobs),
            "distinct": len({json.dumps(j, sort_keys=True) for j in jobs}),
            "rule": "5 variants x random accepted configurations (recorded real seeds) + forced boundary policies "
                    "(first/last hit case, v=0 / v->1, occupation 0 / 1, max data offsets, PIC-heavy, memory-heavy) "
                    "+ the interpreter-does-not-fit error branch; files compared byte for byte",
            "samples": [{"variant": jobs[0]["variant"], "cfg": jobs[0]["cfg"], "seed": jobs[0]["seed"]}],
            "dist": dist, "violations": violations, "disagreements": disagreements,
            "jobs": jobs, "results": results}
