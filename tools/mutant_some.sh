#!/bin/sh
# usage: mutant_some.sh out.txt M1 M2 ...   (each Mi = seeded dir name, e.g. C04_1)
cd /verif
out=$1; shift
: > $out
for m in "$@"; do
  p=${m%_*}
  git -C /repo diff --quiet || { echo "/repo dirty" >> $out; exit 2; }
  git -C /repo apply /verif/seeded/$m/patch.diff || { echo "$m $p PATCH-FAILED" >> $out; continue; }
  s=$(date +%s)
  res=$(timeout 3000 ./check $p 2>&1 | grep -E "VIOLATION|^OK|ERROR|Traceback" | head -3 | cut -c1-200 | tr '\n' '|')
  git -C /repo checkout -- .
  echo "$m $p $(( $(date +%s) - s ))s $res" >> $out
done
echo DONE >> $out
