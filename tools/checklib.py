"""Generic driver of one property check (DESIGN §2.4–2.6).

A property module (tools/props/cNN.py) provides:
  PID, TARGET ("Properties/CNN.vo"), NEEDS_MODEL (bool),
  slices(ctx) -> list of SliceResult dicts:
     {"name", "evaluations", "distinct", "rule", "samples", "dist",
      "violations":    [issue...],   # property judged FALSE on the implementation
                                     # for a concrete input, by spec-side tools only
      "disagreements": [issue...]}   # model and implementation differ
  replay(payload) -> (ok: bool, text)
An issue is a dict with at least "kind" and "what"; it is stored verbatim as
the replay payload.
"""
import json
import os
import re
import sys
import time
import traceback

sys.path.insert(0, os.path.dirname(os.path.abspath(__file__)))
import build as B
import common as C

ALLOWED_ASSUMPTIONS = set()  # DESIGN §7: every property theorem is expected to be closed

TRUSTED_BASE = [
    "Coq 8.16.1 kernel (coqc; vm_compute used, native_compute not used)",
    "axioms: none (Print Assumptions: Closed under the global context for every property theorem)",
    "tools/gen_tables.py (translator by evaluation of /repo's runtime values, fail-closed)",
    "extraction: ExtrOcamlBasic + ExtrOcamlString directives only; OCaml 4.13.1",
    "correspondence harness (tools/*.py), CPython 3.12.1",
    "hand-written specification Isa.v / CtorSpec.v (RV64IM encodings, frozen custom-encoding contract)",
]


class Ctx:
    def __init__(self, pid, tier, seed):
        self.pid, self.tier, self.seed = pid, tier, seed
        self.t0 = time.time()
        self.deep = False
        self.notes = []

    def quick(self):
        return self.tier == "quick"


def parse_theorems(vfile):
    src = C.strip_coq_comments(open(vfile).read())
    return re.findall(r"^\s*(?:Theorem|Lemma|Example|Corollary)\s+(\w+)", src, re.M)


def build_property(mod, ctx):
    """Returns dict(proof_ok, detail, theorems, assumptions_text)."""
    res = {"proof_ok": False, "detail": "", "theorems": [], "closed": 0, "steps": []}
    ok, out = B.gen_tables()
    res["steps"].append(("gen_tables", ok, out.strip()[-600:]))
    tables_ok = ok
    bad = C.scan_forbidden()
    if bad:
        res["detail"] = "forbidden constructs in the development: " + "; ".join(bad[:5])
        return res
    vfile = os.path.join(C.COQ, mod.TARGET[:-1])
    res["theorems"] = parse_theorems(vfile)
    if not tables_ok:
        res["detail"] = "table translator failed closed (tie 1 broken): " + out.strip()[-400:]
        return res
    rc, out, t = B.coq_make([mod.TARGET])
    res["steps"].append(("make " + mod.TARGET, rc == 0, out[-1500:]))
    if rc != 0:
        m = re.findall(r'File "\./([^"]+)", line (\d+)', out)
        where = f"{m[-1][0]}:{m[-1][1]}" if m else "?"
        res["detail"] = f"proof obligation no longer checks (coq build failed at {where})"
        res["failed_at"] = where
        return res
    # recompile the property file alone to capture Print Assumptions
    rc, out, t = C.run(["coqc", "-Q", ".", "Gigue", mod.TARGET[:-1]], 900, cwd=C.COQ)
    if rc != 0:
        res["detail"] = "property file failed to compile: " + out[-400:]
        return res
    closed = out.count("Closed under the global context")
    axioms = re.findall(r"^Axioms:\s*\n((?:.+\n)+)", out, re.M)
    res["closed"] = closed
    res["assumptions_text"] = out.strip()[-800:]
    if axioms:
        res["detail"] = "Print Assumptions reports axioms: " + " ".join(axioms)[:400]
        return res
    res["proof_ok"] = True
    return res


def main(mod):
    import argparse
    ap = argparse.ArgumentParser()
    ap.add_argument("--tier", default=os.environ.get("VERIF_TIER", "quick"))
    ap.add_argument("--replay")
    a = ap.parse_args(sys.argv[2:])
    seed = int(os.environ.get("VERIF_SEED", "0"))
    ctx = Ctx(mod.PID, a.tier if a.tier in ("quick", "thorough") else "quick", seed)
    with C.Lock():
        if a.replay:
            return do_replay(mod, a.replay)
        try:
            return run(mod, ctx)
        except Exception:  # never die silently: an internal error is reported as unverified
            tb = traceback.format_exc()
            p = C.write_replay(mod.PID, {"kind": "internal-error", "traceback": tb})
            print(tb)
            print(f"VIOLATION property={mod.PID} replay={p} no-failing-input-found")
            return 1


def do_replay(mod, path):
    payload = json.load(open(path))
    B.gen_tables()
    B.coq_make(B.spec_vo_targets())
    B.ocaml_spec()
    ok, text = mod.replay(payload)
    print(text)
    print("REPLAY: property", "HOLDS on this input" if ok else "FAILS on this input")
    return 0 if ok else 1


def run(mod, ctx):
    pid = mod.PID
    br = build_property(mod, ctx)
    # spec-side tools must be available whatever happened to the tables/model
    rc, out, _ = B.coq_make(B.spec_vo_targets())
    ok_spec, out_spec = B.ocaml_spec()
    if not ok_spec:
        raise RuntimeError("spec-side drivers failed to build:\n" + out_spec[-1500:])
    model_ok = False
    if getattr(mod, "NEEDS_MODEL", True):
        rc, out, _ = B.coq_make(getattr(mod, "MODEL_VO", ["Enc.vo", "GenTables.vo"]))
        if rc == 0:
            model_ok, out_model = B.ocaml_model()
            if not model_ok:
                ctx.notes.append("model drivers failed to build: " + out_model[-500:])
        else:
            ctx.notes.append("model .vo files do not build: " + out[-500:])
    ctx.model_ok = model_ok
    ctx.deep = not br["proof_ok"]
    results = mod.slices(ctx)
    # search deeper when something is off and nothing concrete was found yet
    if (not br["proof_ok"] or any(r["disagreements"] for r in results)) \
            and not any(r["violations"] for r in results) and not ctx.deep:
        ctx.deep = True
        results = mod.slices(ctx)

    violations, known_lines = [], {}
    for r in results:
        for v in r["violations"]:
            k = C.match_known(pid, v)
            if k:
                known_lines.setdefault(k["key"], (k, v))
            else:
                violations.append((r["name"], v))
    disagreements = [(r["name"], d) for r in results for d in r["disagreements"]]
    if not model_ok and getattr(mod, "NEEDS_MODEL", True):
        disagreements.append(("model", {"kind": "model-unavailable", "what": "; ".join(ctx.notes)[:600]}))

    for key, (k, v) in known_lines.items():
        print(f"KNOWN-FINDING: property={pid} {k['what']} (e.g. {v.get('what', '')})")
    # known findings that are listed but were not observed any more are worth a note
    for k in C.load_known():
        if k.get("property") == pid and k.get("status") == "known" and k["key"] not in known_lines:
            print(f"NOTE: known finding {k['key']} was not reproduced by this run")

    exit_code = 0
    reported = []
    if violations:
        seen = set()
        for sl, v in violations:
            sig = (sl, v.get("kind"), v.get("group", v.get("what")))
            if sig in seen:
                continue
            seen.add(sig)
            if len(seen) > 5:
                break
            v = dict(v, property=pid, slice=sl, proof_ok=br["proof_ok"], proof_detail=br["detail"])
            p = C.write_replay(pid, v)
            print(f"  failing input ({sl}): {v.get('what', '')}")
            print(f"VIOLATION property={pid} replay={p}")
            reported.append(p)
        exit_code = 1
    elif not br["proof_ok"] or disagreements:
        payload = {"property": pid, "kind": "unverified",
                   "proof_ok": br["proof_ok"], "proof_detail": br["detail"],
                   "theorems_of_property_file": br["theorems"],
                   "broken_correspondence": [{"slice": s, **d} for s, d in disagreements[:20]],
                   "build_steps": br["steps"],
                   "note": "no input on which the property fails was found by the search; "
                           "the named theorem / correspondence no longer checks"}
        p = C.write_replay(pid, payload)
        if not br["proof_ok"]:
            print("  proof: " + br["detail"])
        for s, d in disagreements[:5]:
            print(f"  correspondence broken ({s}): {d.get('what', '')}")
        print(f"VIOLATION property={pid} replay={p} no-failing-input-found")
        reported.append(p)
        exit_code = 1

    # ------------------------------------------------------------ evidence
    n_thm = len(br["theorems"])
    evals = sum(r["evaluations"] for r in results)
    distinct = sum(r["distinct"] for r in results)
    samples = []
    for r in results:
        for s in r["samples"][:3]:
            samples.append({"slice": r["name"], "case": s})
    for t in br["theorems"][:4]:
        samples.append({"obligation": t})
    coverage = {
        "obligations": n_thm,
        "discharged": n_thm if br["proof_ok"] else 0,
        "checker_cmd": f"cd /verif/coq && make -j16 {mod.TARGET}  (full .vo build via coq_makefile; "
                       f"then coqc on {mod.TARGET[:-1]} for Print Assumptions)",
        "trusted_base": TRUSTED_BASE + getattr(mod, "EXTRA_TRUSTED", []),
        "theorems": br["theorems"],
        "print_assumptions_closed": br["closed"],
        "evaluations": evals,
        "distinct_nontrivial": distinct,
        "rule": " | ".join(f"{r['name']}: {r['rule']}" for r in results),
        "samples": samples,
        "correspondence": [{"slice": r["name"], "cases": r["evaluations"], "distinct": r["distinct"],
                            "violations": len(r["violations"]), "disagreements": len(r["disagreements"]),
                            "distribution": r.get("dist", {})} for r in results],
        "known_findings_reproduced": sorted(known_lines),
        "explanation": getattr(mod, "EXPLANATION", ""),
        "model_drivers_built": model_ok,
    }
    C.write_evidence(pid, ctx.tier, ctx.seed, coverage, time.time() - ctx.t0,
                     len(reported), getattr(mod, "ASSUMPTIONS", []))
    if exit_code == 0:
        print(f"OK property={pid} theorems={n_thm} (all closed) correspondence_cases={evals} "
              f"wall={time.time() - ctx.t0:.0f}s")
    return exit_code
