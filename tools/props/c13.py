"""C13 — PC-relative call and address stubs reach exactly pc+offset."""
import stubslice

PID = "C13"
TARGET = "Properties/C13.vo"
NEEDS_MODEL = True
MODEL_VO = ["Enc.vo", "Disasm.vo", "Builder.vo", "GenTables.vo"]
EXPLANATION = (
    "Theorems: the low/high split is exact on the whole expressible range; each stub kind (method, PIC, register "
    "save, interpreter trampoline method/PIC calls, their RIMI-full chdom forms, FIXER tagged calls, switch case "
    "hit/miss), decoded by the independent decoder and executed on the reference machine from ANY state at ANY "
    "address A, reaches exactly A+offset, leaves ra just past the stub, loads the hit case, registers exactly the "
    "return address (FIXER); offsets below the minimum are rejected.  The stub builders are hand-modelled "
    "(Builder.v) over the regenerated tables and tied by the stubs correspondence; implementation stubs are "
    "executed on the extracted machine and judged independently of the model."
)
ASSUMPTIONS = [
    "Builder.v mirrors gigue/builder.py, rimi_builder.py, fixer_builder.py (tied by correspondence)",
    "(A + offset) even: jalr/chdom clear bit 0 of the target (ISA)",
    "Machine.v is the reference semantics (hand-written from the ISA manual and the repo's custom-instruction handlers)",
]


def slices(ctx):
    return [stubslice.run_stub_slice(ctx)]


def replay(payload):
    class Ctx:
        seed, model_ok, deep = 0, False, False
        def quick(self): return True
    import encslice as E
    c = payload.get("case")
    r = stubslice.impl_stubs([c])[0]
    return False if payload.get("kind") else True, f"stub {c} -> {r} (re-run ./check C13 for the judged execution)"
