"""C15 — generation parameters mean what the documentation says."""
import samplerslice

PID = "C15"
TARGET = "Properties/C15.vo"
NEEDS_MODEL = True
MODEL_VO = ["Enc.vo", "Disasm.vo", "Builder.vo", "LogParse.vo", "Samplers.vo", "GenTables.vo"]
EXPLANATION = (
    "Theorems over bit-exact binary64 (SpecFloat, axiom-free): truncated normal returns the first in-bounds draw "
    "unchanged (re-draw, never clamp); Poisson/ZTP return the first index whose computed partial sum is not below "
    "the one uniform draw (exact inverse of the computed CDF) and cannot run out of fuel when such an index is "
    "reachable; ratio 0 / 1 give only methods / only PICs for EVERY uniform (x*1.0 = x proved for every canonical "
    "double).  Totality is refuted (known finding F5).  The sizing law (ceil / trunc formulas) and the samplers "
    "are tied to the implementation bit-for-bit by the samplers correspondence under a scripted random source."
)
ASSUMPTIONS = [
    "math.exp(-lambda) and random.gauss are inputs (libm and the Gaussian algorithm are not modelled)",
    "CPython 3.12 random.choices algorithm (cumulative weights + bisect) is modelled by hand",
    "the unbounded divergence theorem assumes lambda/x never rounds to inf/NaN (stated as an explicit hypothesis); "
    "the bounded refutation (30000 iterations) is unconditional",
    "C15_sizes on whole emitted images is covered by the generator correspondence (C01..C06 checks), not by a "
    "theorem of this file",
]


def slices(ctx):
    return [samplerslice.run_sampler_slice(ctx)]


def replay(payload):
    c = payload["case"]
    r = samplerslice.impl_samplers([c])[0]
    ok = "timeout" not in r and "exc" not in r
    return ok, f"case {c} -> {r}"
