"""C15 — generation parameters mean what the documentation says."""
import samplerslice

PID = "C15"
TARGET = "Properties/C15.vo"
NEEDS_MODEL = True
MODEL_VO = ["Generator.vo", "Records.vo", "ImageSem.vo", "Enc.vo", "Disasm.vo", "Builder.vo", "LogParse.vo", "Samplers.vo", "GenTables.vo"]
EXPLANATION = (
    "Theorems over bit-exact binary64 (SpecFloat, axiom-free): truncated normal returns the first in-bounds draw "
    "unchanged (re-draw, never clamp); Poisson/ZTP return the first index whose computed partial sum is not below "
    "the one uniform draw (exact inverse of the computed CDF) and cannot run out of fuel when such an index is "
    "reachable; ratio 0 / 1 give only methods / only PICs for EVERY uniform (x*1.0 = x proved for every canonical "
    "double).  Totality is refuted (known finding F5).  The sizing law (ceil / trunc formulas) and the samplers "
    "are tied to the implementation bit-for-bit by the samplers correspondence under a scripted random source."
)
ASSUMPTIONS = [
    "math.exp(-lambda) and random.gauss are inputs (libm and the Gaussian algorithm are not modelled)",
    "CPython 3.12 random.choices algorithm (cumulative weights + bisect) is modelled by hand",
    "the unbounded divergence theorem assumes lambda/x never rounds to inf/NaN (stated as an explicit hypothesis); "
    "the bounded refutation (30000 iterations) is unconditional",
    "C15_sizes on whole emitted images is covered by the generator correspondence (C01..C06 checks), not by a "
    "theorem of this file",
]


def _pic_law_issues(job, r):
    """PIC case count = min(one ZTP draw, methods still to create); ratio 0 -> no PIC; ratio 1 -> only PICs
    after the mandatory first leaf.  The ZTP draw of the k-th PIC is the RA event that follows the k-th
    element-kind choice answering 'pic' in the recorded API-level log; its value is recomputed by the
    extracted Samplers.generate_ztp (proved to be the exact inverse CDF of that uniform)."""
    import math
    import encslice as E
    from floatfmt import to_triple
    cfg = job["cfg"]
    if r["exc"] == "TimeoutError":
        return ["generation did not finish within the per-job time limit (a sampler or the element loop "
                "re-draws without bound)"]
    if r["exc"]:
        return []
    out = []
    els = r["elements"]
    ratio = cfg["pics_ratio"]
    if ratio == 0.0 and any(e["kind"] == "P" for e in els):
        out.append("pics_ratio 0 produced a PIC")
    if ratio == 1.0 and any(e["kind"] == "M" for e in els[1:]):
        out.append("pics_ratio 1 produced a plain method after the mandatory first leaf")
    if els and (els[0]["kind"] != "M" or els[0]["m"]["calls"] != 0 or els[0]["m"]["depth"] != 0):
        out.append("the first element is not a leaf method")
    us = []
    log = r["log"]
    for i, l in enumerate(log[:-1]):
        p = l.split()
        if p[0] == "CS" and p[1] == "2" and p[2] == "1" and p[3].startswith("F:") and p[4:] == ["1"]:
            q = log[i + 1].split()
            us.append(float.fromhex(q[1]) if q[0] == "RA" else None)
    pics = [e for e in els if e["kind"] == "P"]
    if len(us) != len(pics):
        out.append(f"{len(pics)} PICs for {len(us)} 'pic' kind choices in the draw log")
        return out
    lam = cfg["pics_mean_case_nb"]
    lines = ["ztp 3000 %d %s %s" % (lam, to_triple(math.exp(-lam)), to_triple(u)) for u in us if u is not None]
    zs = iter(E.driver("model_driver", lines)) if lines else iter([])
    count = 0
    for e in els:
        if e["kind"] == "M":
            count += 1
            continue
        u = us.pop(0)
        remaining = cfg["jit_nb_methods"] - count
        if u is None:
            out.append("the kind choice 'pic' is not followed by the single uniform draw of the ZTP sampler")
            break
        z = next(zs)
        if z != "NONE" and e["cases"] != min(int(z), remaining):
            out.append(f"PIC at {e['addr']:#x}: {e['cases']} cases, but ZTP(u={u!r}, mean {lam}) = {z} and "
                       f"{remaining} methods were still to create: min is {min(int(z), remaining)}")
        if len(e["ms"]) != e["cases"]:
            out.append(f"PIC at {e['addr']:#x} declares {e['cases']} cases and holds {len(e['ms'])} methods")
        count += len(e["ms"])
    for e in els:
        for m in ([e["m"]] if e["kind"] == "M" else e["ms"]):
            if m["calls"] == 0 and m["depth"] != 0:
                out.append(f"method at {m['addr']:#x} has no call but depth {m['depth']}")
    if count != cfg["jit_nb_methods"]:
        out.append(f"{count} methods generated for jit_nb_methods = {cfg['jit_nb_methods']}")
    return out


def gen_law_slice(ctx):
    import genslice

    class Sub:
        seed, tier, deep, model_ok = ctx.seed * 1000 + 15, ctx.tier, ctx.deep, ctx.model_ok

        @staticmethod
        def quick():
            return ctx.quick()
    g = genslice.run_gen_slice(Sub, n_cfg=(30 if not ctx.quick() else (12 if ctx.deep else 6)), shapes=(),
                               label="generator-laws", pic_heavy=True)
    jobs, results = g.pop("jobs"), g.pop("results")
    viol = []
    for job, r in zip(jobs, results):
        for what in _pic_law_issues(job, r):
            viol.append({"kind": "generation-law", "job": job, "group": what.split(":")[0][:50],
                         "what": f"{job['variant']} seed {job['seed']}"
                                 f"{' policy ' + job['policy']['name'] if job.get('policy') else ''}: {what}"})
    g["violations"] = viol
    g["rule"] += " | judged: PIC case count = min(ZTP draw recomputed by the extracted sampler, methods still to " \
                 "create), ratio 0 / 1 extremes, first element a leaf, depth 0 without calls, method total"
    return g


def slices(ctx):
    return [samplerslice.run_sampler_slice(ctx), gen_law_slice(ctx)]


def replay(payload):
    if "job" in payload:
        import genslice
        job = payload["job"]
        r = genslice.impl_gen([job])[0]
        issues = _pic_law_issues(job, r)
        return not issues, f"{job['variant']} seed {job['seed']}: " + ("; ".join(issues)[:1500] if issues else
                                                                          "no violation on this input")
    c = payload["case"]
    r = samplerslice.impl_samplers([c])[0]
    ok = "timeout" not in r and "exc" not in r
    return ok, f"case {c} -> {r}"
