"""C17 — measurement window and instruction accounting are exact."""
import parseslice

PID = "C17"
TARGET = "Properties/C17.vo"
NEEDS_MODEL = True
MODEL_VO = ["Enc.vo", "Disasm.vo", "Builder.vo", "LogParse.vo", "GenTables.vo"]
EXPLANATION = (
    "Theorems on the parser model: the scan depends only on matched events (noise irrelevant); for every event "
    "sequence pre++[start]++mid++[ret]++post the window is exactly (stamp(start), stamp(ret), start::mid); both "
    "histograms sum to the instruction count; for each isolation solution every emitted instruction name and every "
    "pseudo-instruction name is a key of the table the runner selects (key sets regenerated from a real "
    "Runner.generate_binary run).  The hand-written scanners are tied to Python's `re` by the parsers "
    "correspondence; implementation results are judged against the abstract event sequence the files were "
    "synthesised from."
)
ASSUMPTIONS = [
    "LogParse.v mirrors toccata/parser.py on ASCII files; regex semantics (leftmost/greedy/lazy) hand-modelled, "
    "tied by correspondence",
    "well-formed logs: the start address is fetched before the ret address and not again before it (DESIGN 6.7)",
    "the pseudo-instruction name table (what a tracer may print) is an assumption (DESIGN 8)",
]


def slices(ctx):
    r = parseslice.run_parse_slice(ctx)
    r["violations"] = [v for v in r["violations"] if v.get("prop") == "C17"]
    r.pop("cases", None)
    return [r]


def replay(payload):
    hist = payload.get("history") or [payload["case"]]
    res = parseslice.impl_parse(hist)
    r = res[-1]
    txt = f"after {len(hist) - 1} earlier parses on the same parser objects, case {hist[-1][:5]} -> {str(r)[:500]}"
    if "exc" in r:
        return False, txt + "  (raises)"
    rec = r["ret"]
    if hist[-1][0] == "dump":
        ok = rec["dump_ok"] == 1 or (rec["start_address"], rec["ret_address"], rec["end_address"]) == (0, 0, 0)
    else:
        tr = rec["tracing_data"]
        n = tr["instrs_nb"]
        zero = all(x == 0 for x in tr["instrs_type"].values()) and all(x == 0 for x in tr["instrs_class"].values())
        ok = (tr["tracing_ok"] == 1 and sum(tr["instrs_type"].values()) == n == sum(tr["instrs_class"].values())) \
            or (tr["tracing_ok"] == 0 and zero and n == 0)
        if rec["emulation_ok"] == 0:
            ok = ok and (rec["start_cycle"], rec["end_cycle"], rec["nb_cycles"]) == (0, 0, 0)
    return ok, txt + "  (internal consistency of the record; the window itself is judged by ./check)"
