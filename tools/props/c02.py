"""C02 — calling convention: SP, callee-saved and reserved registers, frames"""
import imgcheck

PID = "C02"
TARGET = "Properties/C02.vo"
NEEDS_MODEL = True
MODEL_VO = ["Generator.vo", "GenTables.vo", "LogParse.vo", "Samplers.vo", "Disasm.vo"]
EXPLANATION = 'see DESIGN.md section 4 C02 and Properties/C02.v'
ASSUMPTIONS = ['Generator.v / Builder.v mirror the Python generators (tied byte-for-byte by the generator correspondence)', 'Machine.v / Isa.v are the hand-written reference semantics', 'decision scripts abstract the Mersenne Twister: theorems quantify over all scripts']


def slices(ctx):
    return imgcheck.image_slices(ctx, PID, variants=['base', 'tramp', 'rimiss', 'rimifull', 'fixer'], dynamic=True)


def replay(payload):
    return imgcheck.replay_image(PID, payload)
