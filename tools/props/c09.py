"""C09 — RIMI: return addresses live only on the shadow stack"""
import imgcheck

PID = "C09"
TARGET = "Properties/C09.vo"
NEEDS_MODEL = True
MODEL_VO = ["Generator.vo", "GenTables.vo", "LogParse.vo", "Samplers.vo", "Disasm.vo"]
EXPLANATION = 'see DESIGN.md section 4 C09 and Properties/C09.v'
ASSUMPTIONS = ['Generator.v / Builder.v mirror the Python generators (tied byte-for-byte by the generator correspondence)', 'Machine.v / Isa.v are the hand-written reference semantics', 'decision scripts abstract the Mersenne Twister: theorems quantify over all scripts']


def slices(ctx):
    return imgcheck.image_slices(ctx, PID, variants=['rimiss', 'rimifull'], dynamic=True)


def replay(payload):
    return imgcheck.replay_image(PID, payload)
