"""C12 — encoder fidelity for base, RIMI and FIXER instructions."""
import encslice

PID = "C12"
TARGET = "Properties/C12.vo"
NEEDS_MODEL = True
MODEL_VO = ["Enc.vo", "GenTables.vo"]
EXPLANATION = (
    "Theorems: for all 77 constructor classmethods and ALL in-range operand tuples the emitted word "
    "decodes (independent spec decoder) to the intended instruction; the tables the encoder reads are "
    "regenerated from /repo on every run, the constructor universe is tied to the classes' current "
    "classmethods by computation.  The Python algorithms (format_to, shuffles, |, <<) are hand-modelled "
    "in Enc.v and tied by the encoder correspondence slice; the spec decoder judges the implementation's "
    "words independently of the model."
)
ASSUMPTIONS = [
    "Enc.v is a faithful mirror of gigue/instructions.py + helpers.py (checked by correspondence, not proved)",
    "Isa.v is the RISC-V unprivileged encoding (hand-written from the manual) and the custom encodings "
    "are the frozen contract of DESIGN 3.1",
]


def slices(ctx):
    return [encslice.run_enc_slice(ctx, judge=True)]


def replay(payload):
    return encslice.replay_enc(payload)
