"""C14 — instruction identification is sound and unambiguous."""
import disslice
import encslice

PID = "C14"
TARGET = "Properties/C14.vo"
NEEDS_MODEL = True
MODEL_VO = ["Enc.vo", "Disasm.vo", "GenTables.vo"]
EXPLANATION = (
    "Theorems over the regenerated, ordered tables: every constructor's words are identified (first match) as "
    "its own definition and format and match no other non-alias, non-placeholder definition; extractors equal "
    "the specification's raw fields / immediates for EVERY 32-bit word; helper MASK/MATCH constants fit 32 bits. "
    "Correspondence: disassembler and helper output of the implementation vs extracted model; independent "
    "judgement of the implementation's answers by the property's own statement."
)
ASSUMPTIONS = [
    "Disasm.v mirrors gigue/disassembler.py and the numeric part of prelude/proc_helper.py (tied by correspondence)",
    "placeholders custom0..3/unknown and the keys of INSTRUCTIONS_INFO_ALIASES are excluded as the 'other' "
    "definition (DESIGN 6.1)",
    "helper text layout (padding, upper-casing, hex()) is parsed by the harness, not modelled in Coq",
]


def slices(ctx):
    return [encslice.run_enc_slice(ctx, judge=False), disslice.run_dis_slice(ctx), disslice.run_helper_slice(ctx)]


def replay(payload):
    k = payload.get("kind")
    if k in ("misidentified", "ambiguous"):
        c, n, a = payload["cls"], payload["ctor"], payload["args"]
        w = encslice.impl("enc", [[c, n, a]])[0].get("w", -1)
        t = disslice.TABLE_OF_CLASS.get(c, "base")
        r = encslice.impl("disasm", [[t, w]])[0]
        key = disslice.own_key(c, n)
        tabs = disslice.impl_tables()
        others = [nm for (k2, nm, mask, val, alias, *_r) in tabs[t]
                  if not alias and nm not in disslice.PLACEHOLDERS and nm != key and (mask & w) == val]
        ok = "exc" not in r and r["name"] == key and r["type"] == disslice.TYPE_OF_CLASS[c] and not others
        return ok, f"{c}.{n}{tuple(a)} = {hex(w)}: reported {r}; expected {key}; other matching definitions {others}"
    if k == "wrong-field":
        r = encslice.impl("disasm", [[payload["table"], payload["word"]]])[0]
        sf = list(map(int, encslice.driver("spec_driver", ["fields %d" % payload["word"]])[0].split()))
        exp = [sf[0], sf[2], (sf[2] >> 2) & 1, (sf[2] >> 1) & 1, sf[2] & 1, sf[1], sf[3], sf[4], sf[5]]
        ok = "exc" in r or r["f"] == exp
        return ok, f"word {hex(payload['word'])}: extractors {r}; raw fields {exp}"
    if k in ("helper-constant", "helper-raises"):
        class Ctx:  # minimal context
            seed, model_ok, deep = 0, False, False
            def quick(self): return True
        res = disslice.run_helper_slice(Ctx())
        bad = [v for v in res["violations"] if v.get("group") == payload.get("group")]
        return not bad, f"helper slice re-run: {[v['what'] for v in bad][:3]}"
    return True, "nothing to replay for kind " + str(k)
