"""C16 — toccata's generation records describe the emitted binary exactly."""
import frontslice

PID = "C16"
TARGET = "Properties/C16.vo"
NEEDS_MODEL = True
MODEL_VO = ["Generator.vo", "Records.vo", "GenTables.vo", "LogParse.vo", "Samplers.vo", "Disasm.vo"]
EXPLANATION = (
    "Theorems: every method / PIC record is the (address, size, calls, depth / cases, case list) of the element "
    "object it was built from; totals are the element counts; both means are one binary64 division of exact "
    "integer sums.  The records slice drives Runner.generate_binary for all isolation solutions and the shipped "
    "presets, re-derives every record from bin/jit.bin with the spec decoder (independent of generator objects and "
    "of the model), re-runs the recorded seed, and compares with the model's Records."
)
ASSUMPTIONS = [
    "Records.v mirrors toccata/runner.py:231-295 (tied by the records correspondence)",
    "mean_method_call_occupation / mean_method_call_depth are outside the property (float sums) and not modelled",
    "'matches the binary' = records + C04 tiling; tiling of whole images rests on the generator correspondence",
]


def slices(ctx):
    return [frontslice.run_records_slice(ctx)]


def replay(payload):
    job = payload.get("job")
    if not job:
        return True, "nothing to replay"
    r = frontslice.impl_front([dict(job, fe="runner")], tag="rr")[0]
    if r["exc"]:
        return False, f"runner raised {r['exc']}"
    iss = frontslice.records_judge(job, r) if r.get("generation_ok") else []
    return not iss, f"{job['variant']} seed {job['seed']}: " + ("; ".join(iss)[:1200] if iss else "records match the binary")
