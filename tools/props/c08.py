"""C08 — seeded generation is reproducible across runs, histories, front-ends."""
import frontslice

PID = "C08"
TARGET = "Properties/C08.vo"
NEEDS_MODEL = True
MODEL_VO = ["Generator.vo", "Records.vo", "GenTables.vo", "LogParse.vo", "Samplers.vo", "Disasm.vo"]
EXPLANATION = (
    "Theorems (for every seed->stream map and every global state): constructing a generator is pure, a generation "
    "leaves the globals unchanged, the three front-ends produce the same files, and the files of a seeded "
    "generation do not depend on the history of earlier generations in the process.  PARTIAL: cross-process "
    "determinism of random.seed and absence of other entropy sources are runtime facts, exercised by the "
    "front-ends slice (fresh processes, `python -m gigue` subprocesses, three hash seeds, histories including "
    "failing generations and other data registers, deep snapshot of module-level state) and by script accounting "
    "(the model must consume exactly the recorded draws)."
)
ASSUMPTIONS = [
    "CPython random.seed(int) is deterministic across processes (trusted, exercised)",
    "hash randomisation / process environment are outside any Gallina model: C08 is labelled partial",
]


def slices(ctx):
    return [frontslice.run_front_slice(ctx)]


def replay(payload):
    job = payload.get("job")
    if not job:
        return True, "nothing to replay"
    fe = payload.get("front_end", "api")
    hist = payload.get("history", [])
    a = frontslice.impl_front([dict(job, fe="api")], tag="ra")[0]
    if fe == "cli_process":
        b = frontslice.cli_subprocess(job, "random", "rb")
    else:
        real = fe.replace("_after_history", "")
        b = frontslice.impl_front([dict(job, fe=real, history=hist if "history" in fe else [])], tag="rb", hashseed="3")[0]
    ok = (a["files"] or {}) == (b["files"] or {})
    return ok, f"{job['variant']} seed {job['seed']}: api vs {fe}: files {'identical' if ok else 'DIFFER'}"
