"""C11 — FIXER: every call tagged, every return checked, tampering trapped"""
import imgcheck

PID = "C11"
TARGET = "Properties/C11.vo"
NEEDS_MODEL = True
MODEL_VO = ["Generator.vo", "GenTables.vo", "LogParse.vo", "Samplers.vo", "Disasm.vo"]
EXPLANATION = 'see DESIGN.md section 4 C11 and Properties/C11.v'
ASSUMPTIONS = ['Generator.v / Builder.v mirror the Python generators (tied byte-for-byte by the generator correspondence)', 'Machine.v / Isa.v are the hand-written reference semantics', 'decision scripts abstract the Mersenne Twister: theorems quantify over all scripts']


def slices(ctx):
    return imgcheck.image_slices(ctx, PID, variants=['fixer'], dynamic=True)


def replay(payload):
    return imgcheck.replay_image(PID, payload)
