"""C05 — workload shape: every element called once, PIC runs the chosen case"""
import imgcheck

PID = "C05"
TARGET = "Properties/C05.vo"
NEEDS_MODEL = True
MODEL_VO = ["Generator.vo", "GenTables.vo", "LogParse.vo", "Samplers.vo", "Disasm.vo"]
EXPLANATION = 'see DESIGN.md section 4 C05 and Properties/C05.v'
ASSUMPTIONS = ['Generator.v / Builder.v mirror the Python generators (tied byte-for-byte by the generator correspondence)', 'Machine.v / Isa.v are the hand-written reference semantics', 'decision scripts abstract the Mersenne Twister: theorems quantify over all scripts']


def slices(ctx):
    return imgcheck.image_slices(ctx, PID, variants=['base', 'tramp', 'rimiss', 'rimifull', 'fixer'], dynamic=True)


def replay(payload):
    return imgcheck.replay_image(PID, payload)
