"""C18 — a failed benchmark step is flagged, never fatal."""
import parseslice

PID = "C18"
TARGET = "Properties/C18.vo"
NEEDS_MODEL = True
MODEL_VO = ["Enc.vo", "Disasm.vo", "Builder.vo", "LogParse.vo", "GenTables.vo"]
EXPLANATION = (
    "Theorems on the parser model with explicit Python exception semantics (Ret | Raise): for EVERY file state "
    "(absent, undecodable, any ASCII content) parse_dump and both parse_core_log variants return a record; the ok "
    "flag is cleared with default values unless extraction succeeded.  The model is tied to the implementation by "
    "the parsers correspondence (the raised exception class, or its absence, is compared) over a malformed stream "
    "of 19 fault classes interleaved with well-formed files on persistent parser objects."
)
ASSUMPTIONS = [
    "LogParse.v mirrors toccata/parser.py (repaired by fix: cae6d51) on ASCII files; non-UTF-8 input is the model's "
    "FNotText state (UnicodeDecodeError is a ValueError)",
    "OS-level failures other than a missing/unreadable file are outside the model",
]


def slices(ctx):
    r = parseslice.run_parse_slice(ctx)
    r["violations"] = [v for v in r["violations"] if v.get("prop") == "C18"]
    r.pop("cases", None)
    return [r]


def replay(payload):
    hist = payload.get("history") or [payload["case"]]
    res = parseslice.impl_parse(hist)
    r = res[-1]
    txt = f"after {len(hist) - 1} earlier parses on the same parser objects, case {hist[-1][:5]} -> {str(r)[:500]}"
    if "exc" in r:
        return False, txt + "  (raises)"
    rec = r["ret"]
    if hist[-1][0] == "dump":
        ok = rec["dump_ok"] == 1 or (rec["start_address"], rec["ret_address"], rec["end_address"]) == (0, 0, 0)
    else:
        tr = rec["tracing_data"]
        n = tr["instrs_nb"]
        zero = all(x == 0 for x in tr["instrs_type"].values()) and all(x == 0 for x in tr["instrs_class"].values())
        ok = (tr["tracing_ok"] == 1 and sum(tr["instrs_type"].values()) == n == sum(tr["instrs_class"].values())) \
            or (tr["tracing_ok"] == 0 and zero and n == 0)
        if rec["emulation_ok"] == 0:
            ok = ok and (rec["start_cycle"], rec["end_cycle"], rec["nb_cycles"]) == (0, 0, 0)
    return ok, txt + "  (internal consistency of the record; the window itself is judged by ./check)"
