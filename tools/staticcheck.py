"""Static judge of emitted images: the words are decoded by the extracted
SPECIFICATION decoder (spec_driver dec); the structural clauses of the
properties are then checked on the decoded stream together with the element
records exported by the implementation.  Independent of the model."""
import encslice as E

LOADS = {"lb": 1, "lbu": 1, "lh": 2, "lhu": 2, "lw": 4, "lwu": 4, "ld": 8}
STORES = {"sb": 1, "sh": 2, "sw": 4, "sd": 8}
LOADS1 = {k + "1": v for k, v in LOADS.items()}
STORES1 = {k + "1": v for k, v in STORES.items()}
BRANCHES = {"beq", "bne", "blt", "bge", "bltu", "bgeu"}
EXT = {"base": "0", "tramp": "0", "rimiss": "1", "rimifull": "1", "fixer": "2"}
RA, SP, T1, T3 = 1, 2, 6, 28


def decode_words(variant, hexs):
    words = [int.from_bytes(bytes.fromhex(hexs[i:i + 8]), "little") for i in range(0, len(hexs), 8)]
    res = E.driver("spec_driver", ["dec %s %d" % (EXT[variant], w) for w in words]) if words else []
    out = []
    for w, l in zip(words, res):
        p = l.split()
        out.append((p[0],) + tuple(int(x) for x in p[1:]) if p[0] != "NONE" else ("ILLEGAL", w))
    return out


def rd_of(ins):
    m = ins[0]
    if m in STORES or m in STORES1 or m in BRANCHES or m in ("sst", "ecall", "ebreak", "ILLEGAL", "cficall"):
        return None
    return ins[1] if len(ins) > 1 else None


def analyze(job, r):
    """returns (issues, info); issue = (property ids, text).  r must be a successful generation."""
    v, cfg = job["variant"], job["cfg"]
    issues = []
    add = lambda props, what: issues.append((props, what))
    int_start = cfg["interpreter_start_address"] // 4 * 4
    jit_start = cfg["jit_start_address"] // 4 * 4
    data_reg, hit, cmp_ = cfg["data_reg"], cfg["pics_hit_case_reg"], cfg["pics_cmp_reg"]
    dint = decode_words(v, r["files"]["int"])
    djit = decode_words(v, r["files"]["jit"])
    data_len = len(r["files"]["data"]) // 2
    tramp = v != "base"
    full = v == "rimifull"
    rimi = v in ("rimiss", "rimifull")
    # ---- C01 static part: everything decodes in the variant's extension set
    for base, dec, nm in ((int_start, dint, "int"), (jit_start, djit, "jit")):
        for i, ins in enumerate(dec):
            if ins[0] == "ILLEGAL":
                add(["C01"], f"{nm}.bin word {hex(ins[1])} at {hex(base + 4 * i)} is not an RV64IM/{v} instruction")
    # ---- C03 data image
    if data_len != cfg["data_size"] // 8 * 8:
        add(["C03"], f"data.bin has {data_len} bytes, configured size {cfg['data_size']} rounds down to {cfg['data_size'] // 8 * 8}")
    # ---- C04 tiling
    if len(dint) * 4 != jit_start - int_start:
        add(["C04", "C16"], f"int.bin is {len(dint) * 4} bytes, distance between start addresses is {jit_start - int_start}")
    pos = jit_start
    entries, methods, pics = {}, [], []
    for name, addr, n in r["tramps"]:
        if addr != pos:
            add(["C04"], f"trampoline {name} recorded at {hex(addr)}, its byte position is {hex(pos)}")
        entries[addr] = ("tramp", name)
        pos += 4 * n
    tramp_end = pos
    for e in r["elements"]:
        if e["kind"] == "M":
            ms = [e["m"]]
            owner = None
        else:
            if e["addr"] != pos:
                add(["C04", "C16"], f"PIC recorded at {hex(e['addr'])}, its byte position is {hex(pos)}")
            entries[e["addr"]] = ("pic", e)
            pics.append(e)
            if e["total"] != 3 * e["cases"] + 1 + sum(m["total"] for m in e["ms"]) or len(e["ms"]) != e["cases"]:
                add(["C04", "C16"], f"PIC at {hex(e['addr'])}: total_size {e['total']} != switch + cases")
            pos += 4 * (3 * e["cases"] + 1)
            ms = e["ms"]
            owner = e
        for m in ms:
            if m["addr"] != pos:
                add(["C04", "C16"], f"method recorded at {hex(m['addr'])}, its byte position is {hex(pos)}")
            if m["n_instrs"] != m["total"] or m["total"] != m["pro"] + m["body"] + m["epi"]:
                add(["C04", "C16"], f"method at {hex(m['addr'])}: {m['n_instrs']} instructions, total_size {m['total']}")
            entries[m["addr"]] = ("method", m)
            m["_pic"] = owner
            methods.append(m)
            pos += 4 * m["total"]
    if pos - jit_start != 4 * len(djit):
        add(["C04", "C16"], f"elements cover {pos - jit_start} bytes, jit.bin has {4 * len(djit)}")
    if r["counts"][0] != cfg["jit_nb_methods"] or len(methods) != cfg["jit_nb_methods"]:
        add(["C05", "C16"], f"{len(methods)} methods in the image (method_count {r['counts'][0]}), requested {cfg['jit_nb_methods']}")

    def ins_at(addr):
        if int_start <= addr < int_start + 4 * len(dint):
            return dint[(addr - int_start) // 4]
        if jit_start <= addr < jit_start + 4 * len(djit):
            return djit[(addr - jit_start) // 4]
        return None

    elem_entry = {a for a, (k, _) in entries.items() if k in ("method", "pic")}
    call_tramp = r["tramps"][0][1] if tramp else None
    ret_tramp = r["tramps"][1][1] if tramp else None

    # ---- generic scan of one region: returns call sites found [(addr, target, length, hit)]
    def scan(base, dec, lo, hi, where, allow_sp=False, body=False, props_ctx=()):
        calls = []
        i = lo
        while i < hi:
            ins = dec[i]
            a = base + 4 * i
            m = ins[0]
            nxt = dec[i + 1] if i + 1 < len(dec) else None
            # pc-relative pairs
            if m == "auipc" and nxt is not None and nxt[0] in ("jalr", "chdom") and nxt[2] == ins[1]:
                tgt = a + ins[2] * 4096 + nxt[3]
                if ins[1] != RA or nxt[1] != RA:
                    add(["C04", "C07"], f"{where}: call pair at {hex(a)} does not go through ra")
                calls.append((a, tgt, nxt[0]))
                i += 2
                continue
            if m == "auipc" and nxt is not None and nxt[0] == "addi" and nxt[1] == ins[1] and nxt[2] == ins[1] \
                    and (ins[1] in (RA, T1, T3) if not body else (ins[1] == T3 and v == "fixer")):
                tgt = a + ins[2] * 4096 + nxt[3]
                calls.append((a, tgt, "save%d" % ins[1]))
                i += 2
                continue
            if m in ("jal",):
                if ins[2] <= 0:
                    add(["C06"], f"{where}: {ins} at {hex(a)} jumps backwards or to itself")
                if not (body and ins[2] == 4):
                    calls.append((a, a + ins[2], "jal"))
            elif m in BRANCHES:
                if ins[3] <= 0:
                    add(["C06"], f"{where}: {ins} at {hex(a)} branches backwards or to itself")
                if ins[3] not in (4, 8) or not (lo <= i + ins[3] // 4 <= hi):
                    add(["C04"], f"{where}: branch {ins} at {hex(a)} leaves its element / is not to pc+4 or pc+8")
            elif m == "jalr":
                ok = (ins[1], ins[3]) == (0, 0) and ins[2] in (RA, T1)
                if not ok:
                    add(["C04", "C06", "C07"], f"{where}: stray jalr {ins} at {hex(a)}")
            if m == "auipc" and not body:
                add(["C07"], f"{where}: unpaired auipc at {hex(a)}")
            if m == "auipc" and body and ins[1] in (RA, SP, data_reg):
                add(["C07", "C02"], f"{where}: auipc into x{ins[1]} inside a body at {hex(a)}")
            # memory operands
            width = LOADS.get(m) or STORES.get(m) or LOADS1.get(m) or STORES1.get(m)
            if width:
                basereg, off = (ins[2], ins[3]) if (m in LOADS or m in LOADS1) else (ins[1], ins[3])
                dup = m in LOADS1 or m in STORES1
                if basereg == data_reg:
                    if off < 0 or off % width or off + width > data_len or off > 0x7FF:
                        add(["C03", "C01"], f"{where}: {ins} at {hex(a)}: offset {off} width {width} outside the "
                                            f"{data_len}-byte data image / misaligned")
                    if full and not dup:
                        add(["C10"], f"{where}: data access {ins} at {hex(a)} is not a duplicated instruction")
                    if dup and not full:
                        add(["C01"], f"{where}: duplicated instruction {ins} in variant {v}")
                    if not body:
                        add(["C03"], f"{where}: data-register access {ins} at {hex(a)} outside a method body")
                elif basereg == SP and not body:
                    if dup:
                        add(["C10"], f"{where}: duplicated access through sp at {hex(a)}")
                else:
                    add(["C03", "C07"], f"{where}: memory access {ins} at {hex(a)} through register {basereg} "
                                        f"(not the data register{'' if body else ' / sp'})")
            if m in ("lst", "sst"):
                if not rimi:
                    add(["C01"], f"{where}: shadow-stack instruction in variant {v}")
            rd = rd_of(ins)
            if rd == data_reg and rd != 0:
                add(["C03", "C02"], f"{where}: {ins} at {hex(a)} writes the data-base register x{data_reg}")
            if rd in (8, 9, 18, 19, 20, 21, 22, 23, 24, 25, 26, 27) and body:
                add(["C02"], f"{where}: body instruction {ins} at {hex(a)} writes callee-saved x{rd}")
            if rd == SP and body:
                add(["C02"], f"{where}: body instruction {ins} at {hex(a)} writes sp")
            if rd == RA and body and m not in ("jal",):
                add(["C02", "C09"], f"{where}: body instruction {ins} at {hex(a)} writes ra")
            if rimi and rd == T3:
                prev = dec[i - 1] if i > 0 else None
                ok = (m == "addi" and ins[2] == T3 and ins[3] == -8 and nxt and nxt[0] == "sst" and nxt[1] == T3 and nxt[3] == 0) \
                    or (m == "addi" and ins[2] == T3 and ins[3] == 8 and prev and prev[0] == "lst" and prev[2] == T3 and prev[3] == 0)
                if not ok:
                    add(["C03", "C09"], f"{where}: {ins} at {hex(a)} changes the shadow-stack pointer outside a push/pop")
            if v == "fixer" and rd == T3 and body:
                add(["C11"], f"{where}: body instruction {ins} writes the FIXER register")
            i += 1
        return calls

    info = {"methods": methods, "pics": pics, "entries": entries, "dint": dint, "djit": djit,
            "int_start": int_start, "jit_start": jit_start}

    # ---- methods: prologue / body / epilogue
    by_addr = {m["addr"]: m for m in methods}
    for m in methods:
        lo = (m["addr"] - jit_start) // 4
        where = f"method@{hex(m['addr'])}"
        if lo < 0 or lo + m["total"] > len(djit):
            continue
        pro = djit[lo:lo + m["pro"]]
        epi = djit[lo + m["pro"] + m["body"]:lo + m["total"]]
        # frame symmetry (C02)
        dec_sp = [x[3] for x in pro if x[0] == "addi" and x[1] == SP and x[2] == SP]
        inc_sp = [x[3] for x in epi if x[0] == "addi" and x[1] == SP and x[2] == SP]
        if len(dec_sp) != 1 or len(inc_sp) != 1 or dec_sp[0] + inc_sp[0] != 0 or dec_sp[0] >= 0:
            add(["C02"], f"{where}: frame allocated {dec_sp} released {inc_sp}")
        frame = -dec_sp[0] if dec_sp else 0
        saved = sorted((x[2], x[3]) for x in pro if x[0] == "sd" and x[1] == SP)
        restored = sorted((x[1], x[3]) for x in epi if x[0] == "ld" and x[2] == SP)
        if saved != restored or any(not (0 <= off <= frame - 8) or off % 8 for _, off in saved):
            add(["C02"], f"{where}: saved {saved} restored {restored} frame {frame}")
        m["_frame"] = frame
        if epi and epi[-1] != ("jalr", 0, 1, 0):
            add(["C04", "C01"], f"{where}: does not end with ret")
        if rimi and (any(x[0] == "sd" and x[2] == RA for x in pro + epi) or any(x[0] == "ld" and x[1] == RA for x in pro + epi)):
            add(["C09"], f"{where}: return address spilled to / reloaded from the main stack")
        if rimi and m["calls"] > 0:
            if ("sst", T3, RA, 0) not in pro or ("lst", RA, T3, 0) not in epi:
                add(["C09"], f"{where}: call-making method does not push/pop ra on the shadow stack")
        if v == "fixer":
            if [x[0] for x in epi[-4:]] != ["cfiret", "beq", "ecall", "jalr"] or epi[-4][1] != T3 \
                    or epi[-3] != ("beq", RA, T3, 8):
                add(["C11"], f"{where}: return is not preceded by cfiret/beq/ecall: {epi[-4:]}")
        scan(jit_start, djit, lo, lo + m["pro"], where + ".prologue", allow_sp=True)
        calls = scan(jit_start, djit, lo + m["pro"], lo + m["pro"] + m["body"], where + ".body", body=True)
        scan(jit_start, djit, lo + m["pro"] + m["body"], lo + m["total"], where + ".epilogue", allow_sp=True)
        sites = [c for c in calls if c[2] in ("jalr", "chdom")]
        want = m["calls"] if m["depth"] >= 1 else 0
        if len(sites) != want:
            add(["C05"], f"{where}: {len(sites)} call sites in the body, declared call_number {m['calls']} depth {m['depth']}")
        m["_sites"] = sites
        prev_end = None
        for a, tgt, kind in sorted(sites):
            if prev_end is not None and a < prev_end:
                add(["C04"], f"{where}: call stubs overlap at {hex(a)}")
            prev_end = a + 8
            callee = by_addr.get(tgt)
            if callee is None:
                add(["C04", "C01"], f"{where}: call at {hex(a)} targets {hex(tgt)}, not a method entry")
            elif callee["depth"] >= m["depth"]:
                add(["C06"], f"{where} (depth {m['depth']}) calls method@{hex(tgt)} of depth {callee['depth']}")
            if v == "fixer":
                k = (a - jit_start) // 4
                pre = djit[k - 3:k]
                if len(pre) != 3 or pre[0] != ("auipc", T3, 0) or pre[1][0:3] != ("addi", T3, T3) or pre[2] != ("cficall", 0, T3, 0) \
                        or (a - 12) + pre[1][3] != a + 8:
                    add(["C11"], f"{where}: call at {hex(a)} is not preceded by a tag of its return address: {pre}")
        for a, tgt, kind in calls:
            if kind.startswith("save") and v == "fixer" and kind == "save28":
                continue
            if kind.startswith("save"):
                add(["C07"], f"{where}: address materialisation {kind} at {hex(a)} inside a body")
        if sorted(tgt for _, tgt, _ in sites) != sorted(m["callees"]):
            add(["C16", "C04"], f"{where}: call targets {[hex(t) for _, t, _ in sites]} differ from recorded callees")

    # ---- PIC switches
    for p in pics:
        lo = (p["addr"] - jit_start) // 4
        n = p["cases"]
        sw = djit[lo:lo + 3 * n + 1]
        where = f"pic@{hex(p['addr'])}"
        for k in range(n):
            a = p["addr"] + 12 * k
            grp = sw[3 * k:3 * k + 3]
            exp_t = p["ms"][k]["addr"]
            if len(grp) < 3 or grp[0] != ("addi", cmp_, 0, k + 1) or grp[1] != ("bne", cmp_, hit, 8) \
                    or grp[2][0:2] != ("jal", 0) or a + 8 + grp[2][2] != exp_t:
                add(["C05", "C04"], f"{where}: switch case {k + 1} is {grp}, expected compare x{cmp_} with x{hit} and jump to {hex(exp_t)}")
        if len(sw) != 3 * n + 1 or sw[-1] != ("jalr", 0, 1, 0):
            add(["C04"], f"{where}: switch table does not end with ret")

    # ---- trampolines
    if tramp:
        lo0 = (r["tramps"][0][1] - jit_start) // 4
        n0, n1 = r["tramps"][0][2], r["tramps"][1][2]
        ct, rt = djit[lo0:lo0 + n0], djit[lo0 + n0:lo0 + n0 + n1]
        cs = scan(jit_start, djit, lo0, lo0 + n0, "call-trampoline", allow_sp=True)
        scan(jit_start, djit, lo0 + n0, lo0 + n0 + n1, "ret-trampoline", allow_sp=True)
        for a, tgt, kind in cs:
            if kind == "save1" and tgt != ret_tramp:
                add(["C04", "C05"], f"call trampoline sets ra to {hex(tgt)}, the return trampoline is at {hex(ret_tramp)}")
            if kind == "save28" and v == "fixer" and tgt != ret_tramp:
                add(["C11"], f"call trampoline tags {hex(tgt)}, the return address is {hex(ret_tramp)}")
        if ct[-1] != ("jalr", 0, T1, 0):
            add(["C04"], "call trampoline does not end with jr t1")
        if full:
            if rt[-1][0] != "retdom" or any(x[0] == "retdom" for x in djit[:lo0 + n0 + n1 - 1] + djit[lo0 + n0 + n1:]):
                add(["C10"], "retdom is not exactly the last instruction of the return trampoline")
            if ("sst", T3, RA, 0) not in ct or ("lst", RA, T3, 0) not in rt:
                add(["C09", "C10"], "RIMI-full trampolines do not keep the interpreter's ra on the shadow stack")
        elif rt[-1] != ("jalr", 0, 1, 0):
            add(["C04"], "return trampoline does not end with ret")
        if v == "fixer" and ("cficall", 0, T3, 0) not in ct:
            add(["C11"], "call trampoline does not tag its return address")
        if v == "rimiss" and any(x[0] == "sst" for x in ct):
            pass
    # ---- interpreter
    n_int = len(dint)
    body_end = next((i for i in range(n_int) if dint[i] == ("jalr", 0, 1, 0)), n_int - 1) + 1
    ic = scan(int_start, dint, 0, body_end, "interpreter", allow_sp=True)
    for i in range(body_end, n_int):
        if dint[i] != ("addi", 0, 0, 0):
            add(["C04"], f"interpreter padding word at {hex(int_start + 4 * i)} is {dint[i]}, not nop")
    called = []
    k = 0
    pend_t1 = None
    for a, tgt, kind in ic:
        if kind == "save6":
            pend_t1 = tgt
        elif kind in ("jalr", "chdom"):
            if tramp:
                if tgt != call_tramp:
                    add(["C04", "C05", "C10"], f"interpreter call at {hex(a)} targets {hex(tgt)}, the call trampoline is at {hex(call_tramp)}")
                if full and kind != "chdom":
                    add(["C10"], f"interpreter call at {hex(a)} is not a domain change")
                if not full and kind == "chdom":
                    add(["C01", "C10"], f"chdom in variant {v}")
                called.append(pend_t1)
                pend_t1 = None
            else:
                called.append(tgt)
    if sorted(x for x in called if x is not None) != sorted(a for a in elem_entry if entries[a][0] == "pic" or entries[a][1].get("_pic") is None) \
            or None in called:
        top = sorted(a for a in elem_entry if entries[a][0] == "pic" or entries[a][1].get("_pic") is None)
        add(["C05", "C04"], f"interpreter calls {[hex(x) if x is not None else None for x in called]}, top-level elements are {[hex(x) for x in top]}")
    if full:
        for i, ins in enumerate(dint):
            if ins[0] in LOADS1 or ins[0] in STORES1 or ins[0] in ("lst", "sst"):
                add(["C10"], f"interpreter image contains {ins} at {hex(int_start + 4 * i)}")
        for i, ins in enumerate(djit):
            if ins[0] == "chdom":
                add(["C10"], f"chdom inside the JIT image at {hex(jit_start + 4 * i)}")
    info["interp_calls"] = called
    return issues, info
