#!/usr/bin/env python3
"""Writes coq/Witness.v: for each of the five variants one accepted configuration
and one decision script (recorded from the real generator under ScriptRandom)
on which the Generator model succeeds — the non-vacuity witnesses of the
whole-image theorems.  The file is a committed artefact of the MODEL (it is not
regenerated on every run: non-vacuity is a statement about the model alone);
re-run this tool when Generator.v changes.
   usage: mk_witness.py <out.v>"""
import math
import os
import sys

sys.path.insert(0, os.path.dirname(os.path.abspath(__file__)))
import common as C
import genslice as G
from floatfmt import to_triple


def fl(t):
    if t == "z":
        return "(S754_zero false)"
    if t == "nz":
        return "(S754_zero true)"
    if t == "inf":
        return "(S754_infinity false)"
    if t == "ninf":
        return "(S754_infinity true)"
    if t == "nan":
        return "S754_nan"
    sg, m, e = t.split(",")
    return "(S754_finite %s %s (%s))" % ("true" if sg == "1" else "false", m, e)


def z(x):
    x = int(x)
    return str(x) if x >= 0 else "(%d)" % x


def zl(xs):
    return "[" + "; ".join(z(x) for x in xs) + "]"


def weights(w):
    if w == "-":
        return "WNone"
    if w.startswith("I:"):
        return "(WInts %s)" % zl(w[2:].split(","))
    return "(WFloats [%s])" % "; ".join(fl(t) for t in w[2:].split(";"))


def draw(line):
    p = line.split()
    k = p[0]
    if k == "CH":
        return "DChoice %s %s" % (z(p[1]), z(p[2]))
    if k == "CS":
        return "DChoices %s %s %s %s" % (z(p[1]), z(p[2]), weights(p[3]), zl(p[4:]))
    if k == "RI":
        return "DRandint %s %s %s" % (z(p[1]), z(p[2]), z(p[3]))
    if k == "SA":
        return "DSample %s %s %s %s %s" % (z(p[1]), z(p[2]), z(p[3]), z(p[4]), zl(p[5:]))
    if k == "SH":
        return "DShuffle %s %s" % (z(p[1]), zl(p[2:]))
    if k == "GA":
        return "DGauss %s %s %s" % (fl(p[1]), fl(p[2]), fl(p[3]))
    if k == "RA":
        return "DRandom %s" % fl(p[1])
    if k == "RB":
        hx = p[2] if len(p) > 2 else ""
        return "DBytes %s %s" % (z(p[1]), zl(int(hx[i:i + 2], 16) for i in range(0, len(hx), 2)))
    raise ValueError(line)


CTOR = {"base": "GBase", "tramp": "GTramp", "rimiss": "GRimiSS", "rimifull": "GRimiFull", "fixer": "GFixer"}


def main(out):
    cfg = dict(interpreter_start_address=0x1000, jit_start_address=0x1000 + 0x400, jit_size=60, jit_nb_methods=6,
               method_variation_mean=0.2, method_variation_stdev=0.1, call_depth_mean=2,
               call_occupation_mean=0.5, call_occupation_stdev=0.1, pics_ratio=0.5, pics_mean_case_nb=2,
               data_size=64, data_generation_strategy="iterative32", pics_cmp_reg=6, pics_hit_case_reg=5,
               registers=list(G.CALLER_SAVED), data_reg=31, weights=[25, 30, 10, 5, 10, 10, 10])
    jobs = [dict(variant=v, cfg=cfg, seed=7, mode="record") for v in G.VARIANTS]
    res = G.impl_gen(jobs)
    t = lambda x: fl(to_triple(float(x)))
    o = ["(* Witness.v — written by tools/mk_witness.py: non-vacuity witnesses (one accepted",
         "   configuration and one recorded decision script per variant). *)",
         "From Coq Require Import ZArith List String Bool SpecFloat.",
         "From Gigue Require Import Types Builder Samplers Generator ImageSem.",
         "Import ListNotations.", "Open Scope Z_scope.", "Open Scope string_scope.", ""]
    for job, r in zip(jobs, res):
        if r["exc"] is not None:
            raise SystemExit("witness job failed: %r" % r["exc"])
        v = job["variant"]
        sc = G.translate_log(r["log"])
        o.append("Definition wcfg_%s : config :=" % v)
        o.append("  mk_config %s %d %d %d %d %s %s %d %s %s %s %s %d %s %d \"%s\" %d %d %s %d %s 28 800 3000%%nat." % (
            CTOR[v], cfg["interpreter_start_address"], cfg["jit_start_address"], cfg["jit_size"], cfg["jit_nb_methods"],
            t(cfg["method_variation_mean"]), t(cfg["method_variation_stdev"]), cfg["call_depth_mean"],
            t(math.exp(-cfg["call_depth_mean"])), t(cfg["call_occupation_mean"]), t(cfg["call_occupation_stdev"]),
            t(cfg["pics_ratio"]), cfg["pics_mean_case_nb"], t(math.exp(-cfg["pics_mean_case_nb"])), cfg["data_size"],
            cfg["data_generation_strategy"], cfg["pics_cmp_reg"], cfg["pics_hit_case_reg"], zl(cfg["registers"]),
            cfg["data_reg"], zl(cfg["weights"])))
        o.append("Definition wscript_%s : list draw := [" % v)
        o.append(";\n".join("  " + draw(l) for l in sc))
        o.append("].")
        o.append("")
    o.append("Definition is_success (c : config) (sc : list draw) : bool :=")
    o.append("  cfg_ok c && match run_gen c sc with OK (_, []) => true | _ => false end.")
    o.append("Lemma is_success_successful c sc : is_success c sc = true -> exists img, successful c sc img.")
    o.append("Proof.")
    o.append("  unfold is_success, successful. intros H. apply andb_prop in H. destruct H as [Hc H].")
    o.append("  destruct (run_gen c sc) as [[img [|d l]]|e]; try discriminate. exists img. split; [exact Hc|reflexivity].")
    o.append("Qed.")
    for v in G.VARIANTS:
        o.append("Example witness_%s : exists img, successful wcfg_%s wscript_%s img." % (v, v, v))
        o.append("Proof. apply is_success_successful. vm_compute. reflexivity. Qed.")
    with open(out, "w") as f:
        f.write("\n".join(o) + "\n")
    print("witness scripts:", [len(G.translate_log(r["log"])) for r in res])


if __name__ == "__main__":
    main(sys.argv[1])
