"""Disassembler and prelude-helper slices (C14)."""
import random
import re

import encslice as E

TABLE_OF_CLASS = {"RIMIIInstruction": "rimi", "RIMISInstruction": "rimi", "FIXERCustomInstruction": "fixer"}
TYPE_OF_CLASS = {"RInstruction": "R", "FIXERCustomInstruction": "R", "IInstruction": "I",
                 "RIMIIInstruction": "I", "UInstruction": "U", "JInstruction": "J",
                 "SInstruction": "S", "RIMISInstruction": "S", "BInstruction": "B"}
PLACEHOLDERS = {"custom0", "custom1", "custom2", "custom3", "unknown"}


def own_key(cls, name):
    if cls == "IInstruction":
        return {"jr": "jalr", "ret": "jalr", "nop": "addi"}.get(name, name)
    if cls == "JInstruction":
        return "jal"
    return name


def impl_tables():
    """[(table, [(key, name, mask, val, is_alias)])] from the implementation at run time"""
    code = r'''
import json, sys
sys.path.insert(0, %r)
import impl_enc
from gigue.constants import INSTRUCTIONS_INFO_ALIASES
out = {}
for t, d in impl_enc.tables().items():
    rows, seen = [], set()
    for k, v in d.items():
        alias = k in INSTRUCTIONS_INFO_ALIASES or id(v) in seen
        seen.add(id(v))
        rows.append([k, v.name, v.cmp_mask, v.cmp_val, alias, v.instr_type, v.opcode, v.funct3, v.funct7])
    out[t] = rows
print(json.dumps(out))
''' % (E.C.VERIF + "/tools")
    import json
    import os
    d = E.C.impl_cwd("impl")
    rc, out, _ = E.C.run([E.C.PY, "-c", code], 120, cwd=d, env=E.C.impl_env())
    if rc != 0:
        raise RuntimeError("impl table dump failed: " + out[-800:])
    return json.loads([l for l in out.split("\n") if l.startswith("{")][-1])


def run_dis_slice(ctx):
    rng = random.Random(ctx.seed * 104729 + 14)
    big = (not ctx.quick()) or ctx.deep
    ctors = E.impl("ctors")
    cases, _ = E.gen_cases(ctors, rng, 150 if big else 40, exhaustive=False)
    impl_words = E.impl("enc", cases)
    inr = E.driver("spec_driver", ["inrange %s %s %s" % (c, n, " ".join(map(str, a))) for c, n, a in cases])
    tabs = impl_tables()
    items = []   # (table, word, origin)
    for (c, n, a), r, ir in zip(cases, impl_words, inr):
        if "w" in r and ir == "1":
            items.append((TABLE_OF_CLASS.get(c, "base"), r["w"], (c, n, a)))
    n_emitted = len(items)
    for _ in range(4000 if big else 800):           # arbitrary words: exercises the no-match path
        items.append((rng.choice(["base", "rimi", "fixer"]), rng.getrandbits(32), None))
    for w in (0, 0x73, 0x100073, 0x7B200073, 0x100F, 0xFFFFFFFF, 0x13, 0x8067):
        items.append(("base", w, None))
    impl_dis = E.impl("disasm", [[t, w] for t, w, _ in items])
    spec_f = E.driver("spec_driver", ["fields %d" % w for _, w, _ in items])
    model = E.driver("model_driver", ["dis %s %d" % (t, w) for t, w, _ in items]) if ctx.model_ok else None

    violations, disagreements = [], []
    dist = {"emitted_words": n_emitted, "arbitrary_words": len(items) - n_emitted, "unknown": 0}
    distinct = set()
    for k, ((t, w, org), r) in enumerate(zip(items, impl_dis)):
        distinct.add((t, w))
        if "exc" in r:
            dist["unknown"] += 1
        if model is not None:
            if "exc" in r:
                mstr = "NONE"
            else:
                mstr = "%s %s %s %s %s" % (r["name"], r["type"], " ".join(map(str, r["f"])),
                                          " ".join(map(str, r["iu"])), " ".join(map(str, r["is"])))
            if mstr != model[k]:
                disagreements.append({"kind": "disassembler-model-vs-impl", "table": t, "word": w,
                                      "what": f"word {hex(w)} table {t}: implementation [{mstr}] model [{model[k]}]"})
        sf = list(map(int, spec_f[k].split()))
        # judgement 1: extractors return the raw fields (every word for which look-up succeeded)
        if "exc" not in r:
            f = r["f"]   # opcode f3 xd xs1 xs2 rd rs1 rs2 f7
            exp = [sf[0], sf[2], (sf[2] >> 2) & 1, (sf[2] >> 1) & 1, sf[2] & 1, sf[1], sf[3], sf[4], sf[5]]
            exp_is = [sf[8], sf[6], sf[10], sf[7], sf[9] * 4096]   # b i j s u (signed)
            if f != exp or r["is"] != exp_is:
                violations.append({"kind": "wrong-field", "table": t, "word": w, "group": "extractors",
                                   "what": f"word {hex(w)}: extractors {f} {r['is']} but the word's fields are "
                                           f"{exp} {exp_is}"})
        if org is not None:
            c, n, a = org
            key = own_key(c, n)
            # judgement 2: name and format of the definition that was encoded
            if "exc" in r or r["name"] != key or r["type"] != TYPE_OF_CLASS[c]:
                violations.append({"kind": "misidentified", "ctor": n, "cls": c, "args": a, "word": w,
                                   "group": f"{c}.{n}", "reported": r,
                                   "what": f"{c}.{n}{tuple(a)} = {hex(w)} is reported as {r}, expected {key}/"
                                           f"{TYPE_OF_CLASS[c]}"})
            # judgement 3: no other non-alias, non-placeholder definition matches
            for (k2, nm, mask, val, alias, *_r) in tabs[t]:
                if alias or nm in PLACEHOLDERS or nm == key:
                    continue
                if (mask & w) == val:
                    violations.append({"kind": "ambiguous", "ctor": n, "cls": c, "args": a, "word": w,
                                       "other": nm, "group": f"{c}.{n}~{nm}",
                                       "what": f"{c}.{n}{tuple(a)} = {hex(w)} also matches the pattern of {nm}"})
    return {"name": "disassembler", "evaluations": len(items), "distinct": len(distinct),
            "rule": "words emitted by every constructor on in-range tuples (matching table) + arbitrary 32-bit "
                    "words and fixed corner words; distinct = distinct (table, word)",
            "samples": [list(items[0][:2]), list(items[n_emitted // 2][:2]), list(items[-1][:2])],
            "dist": dist, "violations": violations, "disagreements": disagreements}


def parse_gnu(text):
    ops, masks, matches = {}, {}, {}
    for line in text.split("\n"):
        m = re.match(r"#define MASK_(\w+)\s+(0x[0-9a-f]+)", line)
        if m:
            masks[m.group(1).lower()] = int(m.group(2), 16)
            continue
        m = re.match(r"#define MATCH_(\w+)\s+(0x[0-9a-f]+)", line)
        if m:
            matches[m.group(1).lower()] = int(m.group(2), 16)
            continue
        m = re.match(r"(\S+)\s+.*1\.\.0=", line)
        if m and not line.startswith("#"):
            fields = {}
            for hi, lo, v in re.findall(r"(\d+)\.\.(\d+)=(0x[0-9a-f]+|\d+)", line):
                fields[(int(hi), int(lo))] = int(v, 0)
            ops[m.group(1)] = fields
    return ops, masks, matches


def run_helper_slice(ctx):
    rng = random.Random(ctx.seed * 31337 + 15)
    tabs = impl_tables()
    ctors = E.impl("ctors")
    violations, disagreements = [], []
    evaluations, samples = 0, []
    # sample words of every custom instruction, from the implementation's encoders
    words = {}
    for cls, name, params in ctors:
        if cls not in TABLE_OF_CLASS:
            continue
        cs = []
        for _ in range(40):
            cs.append([cls, name, [rng.randrange(32) if p != "imm" else rng.randrange(-2048, 2048) for p in params]])
        res = E.impl("enc", cs)
        words[name] = [r["w"] for r in res if "w" in r]
    for tname in ("rimi_only", "fixer_only"):
        rows = tabs[tname]
        names = [r[0] for r in rows]
        outs = E.impl("helpers", [[h, tname, names] for h in ("gnu", "rocket", "cva6")])
        model = E.driver("model_driver", ["helper %s %s" % (tname, n) for n in names]) if ctx.model_ok else None
        evaluations += 3 * len(names)
        gnu, rocket, cva6 = outs
        for o, h in zip(outs, ("gnu", "rocket", "cva6")):
            if "exc" in o:
                # GNU helper legitimately refuses U/J/B formats; for the custom tables every entry is I/R/S
                violations.append({"kind": "helper-raises", "helper": h, "table": tname, "exc": o["exc"],
                                   "group": f"{h}-{tname}",
                                   "what": f"{h} helper raises {o['exc']} on table {tname}"})
        ops, masks, matches = parse_gnu(gnu.get("text", ""))
        bitpats = dict(re.findall(r"def (\w+)\s*= BitPat\(\"(b[01?]*)\"\)", rocket.get("text", "")))
        cva = re.findall(r"localparam (\w+)\s*= 7'b([01]{2})_([01]{3})_([01]{2})", cva6.get("text", ""))
        cva_ops = {int(a + b + c, 2) for _, a, b, c in cva}
        samples.append({"table": tname, "gnu": gnu.get("text", "")[:300]})
        for k, (key, nm, mask, val, alias, ty, opcode, f3, f7) in enumerate(rows):
            ws = words.get(nm, [])
            probs = []
            if "text" in gnu:
                mk, mt = masks.get(nm), matches.get(nm)
                if mk is None or mt is None or mk >= (1 << 32) or mt >= (1 << 32):
                    probs.append(f"MASK/MATCH missing or wider than 32 bits ({mk}, {mt})")
                elif any((w & mk) != mt for w in ws):
                    probs.append(f"MATCH {hex(mt)} / MASK {hex(mk)} disagree with emitted word {hex(ws[0])}")
                fl = ops.get(nm)
                if fl is None:
                    probs.append("no riscv-opcodes line")
                else:
                    for (hi, lo), v in fl.items():
                        for w in ws:
                            if (w >> lo) & ((1 << (hi - lo + 1)) - 1) != v:
                                probs.append(f"opcode-line field {hi}..{lo}={v} but emitted word {hex(w)} has "
                                             f"{(w >> lo) & ((1 << (hi - lo + 1)) - 1)}")
                                break
            if "text" in rocket:
                bp = bitpats.get(nm.upper())
                if bp is None or len(bp) != 33:
                    probs.append(f"BitPat missing or not 32 characters: {bp}")
                else:
                    for w in ws:
                        bits = format(w, "032b")
                        if any(p != "?" and p != b for p, b in zip(bp[1:], bits)):
                            probs.append(f"BitPat {bp} does not match emitted word {hex(w)}")
                            break
                    for other, ows in words.items():
                        if other != nm and any(all(p == "?" or p == b for p, b in zip(bp[1:], format(w, "032b")))
                                               for w in ows if other in [r[1] for r in rows]):
                            probs.append(f"BitPat {bp} also matches a word of {other}")
                            break
            if "text" in cva6 and ws and (ws[0] & 0x7F) not in cva_ops:
                probs.append(f"CVA6 opcode list {sorted(cva_ops)} lacks opcode {ws[0] & 0x7F}")
            for pr in probs:
                violations.append({"kind": "helper-constant", "instr": nm, "table": tname, "group": f"helper-{nm}",
                                   "what": f"{nm}: {pr}"})
            if model is not None and "text" in gnu and "text" in rocket:
                mm = model[k].split()
                got = [str(masks.get(nm)), str(matches.get(nm)),
                       str(ops.get(nm, {}).get((6, 2))), str(ops.get(nm, {}).get((1, 0))),
                       bitpats.get(nm.upper(), "b")[1:]]
                if mm[:5] != got:
                    disagreements.append({"kind": "helper-model-vs-impl", "instr": nm,
                                          "what": f"helper constants of {nm}: implementation {got}, model {mm[:5]}"})
    return {"name": "helpers", "evaluations": evaluations, "distinct": evaluations,
            "rule": "GNU / Rocket / CVA6 helper output for every RIMI and FIXER definition, parsed and compared "
                    "with 40 words per instruction emitted by the implementation's encoders",
            "samples": samples[:2], "dist": {"instructions": sum(len(v) > 0 for v in words.values())},
            "violations": violations, "disagreements": disagreements}
