"""Shared plumbing for the /verif checks (paths, implementation environment,
subprocess helpers, evidence writer, known-findings filter)."""
import fcntl
import json
import os
import re
import shutil
import subprocess
import sys
import time

VERIF = os.path.dirname(os.path.dirname(os.path.abspath(__file__)))
REPO = os.environ.get("VERIF_REPO", "/repo")
COQ = os.path.join(VERIF, "coq")
WORK = os.path.join(VERIF, "work")
PY = "/venv/bin/python"
GUARD = "GIGUE_VERIF"  # reserved; no hook in /repo uses it


def impl_cwd(tag="impl"):
    """A scratch cwd in which `import gigue` works (needs logging.ini, log/)."""
    d = os.path.join(WORK, tag)
    os.makedirs(os.path.join(d, "log"), exist_ok=True)
    os.makedirs(os.path.join(d, "bin"), exist_ok=True)
    os.makedirs(os.path.join(d, "toccata", "results"), exist_ok=True)
    shutil.copyfile(os.path.join(REPO, "logging.ini"), os.path.join(d, "logging.ini"))
    return d


def impl_env(extra=None):
    env = dict(os.environ)
    env["PYTHONPATH"] = REPO + os.pathsep + os.path.join(VERIF, "tools")
    env["PYTHONHASHSEED"] = env.get("VERIF_HASHSEED", "0")
    env.setdefault("RISCV", "/nonexistent-riscv")
    env.setdefault("ROCKET", "/nonexistent-rocket")
    env["PYTHONDONTWRITEBYTECODE"] = "1"
    if extra:
        env.update(extra)
    return env


def run(cmd, timeout, cwd=None, env=None, input=None):
    """Run a command under a timeout; returns (rc, stdout+stderr, seconds)."""
    t0 = time.time()
    try:
        p = subprocess.run(cmd, cwd=cwd, env=env, input=input, stdout=subprocess.PIPE,
                           stderr=subprocess.STDOUT, timeout=timeout, text=True)
        return p.returncode, p.stdout, time.time() - t0
    except subprocess.TimeoutExpired as e:
        out = e.stdout or ""
        if isinstance(out, bytes):
            out = out.decode(errors="replace")
        return 124, out + f"\n[timeout after {timeout}s]", time.time() - t0


class Lock:
    def __enter__(self):
        os.makedirs(WORK, exist_ok=True)
        self.f = open(os.path.join(WORK, ".lock"), "w")
        fcntl.flock(self.f, fcntl.LOCK_EX)
        return self

    def __exit__(self, *a):
        fcntl.flock(self.f, fcntl.LOCK_UN)
        self.f.close()


FORBIDDEN = re.compile(
    r"\b(Admitted|admit|Axiom|Axioms|Parameter|Parameters|Conjecture|Hypothesis|Variable|Variables|"
    r"Unset\s+Guard|bypass_check|Admit\s+Obligations|Unset\s+Positivity|Unset\s+Universe|"
    r"type-in-type|impredicative-set|native_compute)\b"
)


def strip_coq_comments(src):
    out, depth, i, n = [], 0, 0, len(src)
    in_str = False
    while i < n:
        if not in_str and src.startswith("(*", i):
            depth += 1
            i += 2
            continue
        if not in_str and depth and src.startswith("*)", i):
            depth -= 1
            i += 2
            continue
        c = src[i]
        if depth == 0:
            if c == '"':
                in_str = not in_str
            out.append(c)
        i += 1
    return "".join(out)


def scan_forbidden():
    """Refuse Admitted/Axiom/... anywhere in the development (comments and
    string literals excluded; Section-local Variable/Hypothesis is allowed
    only between Section ... End, which we check textually)."""
    bad = []
    for root, _, files in os.walk(COQ):
        if "extracted" in root:
            continue
        for f in files:
            if not f.endswith(".v"):
                continue
            p = os.path.join(root, f)
            src = strip_coq_comments(open(p).read())
            src_nostr = re.sub(r'"(?:[^"]|"")*"', '""', src)
            depth = 0
            for ln, line in enumerate(src_nostr.split("\n"), 1):
                if re.match(r"\s*Section\b", line):
                    depth += 1
                if re.match(r"\s*End\b", line) and depth:
                    depth -= 1
                for m in FORBIDDEN.finditer(line):
                    w = m.group(1)
                    if w in ("Variable", "Variables", "Hypothesis") and depth > 0:
                        continue
                    bad.append(f"{os.path.relpath(p, VERIF)}:{ln}: {w}")
    return bad


def write_evidence(pid, tier, seed, coverage, wall_s, violations, assumptions):
    ev = {
        "property_id": pid,
        "tier": tier,
        "seed": int(seed),
        "level": "proof",
        "coverage": coverage,
        "assumptions": assumptions,
        "wall_s": round(wall_s, 2),
        "violations": violations,
    }
    os.makedirs(os.path.join(VERIF, "evidence"), exist_ok=True)
    p = os.path.join(VERIF, "evidence", f"{pid}.json")
    with open(p + ".tmp", "w") as f:
        json.dump(ev, f, indent=1, default=str)
    os.replace(p + ".tmp", p)
    return p


def load_known():
    p = os.path.join(VERIF, "known_findings.json")
    if not os.path.exists(p):
        return []
    return json.load(open(p))["findings"]


def match_known(pid, issue):
    """issue: dict with 'kind' and free fields.  A known entry matches when its
    property is pid, status is 'known', and every key of its matcher equals
    (or regex-fullmatches, for strings starting with 're:') the issue field."""
    for k in load_known():
        if k.get("property") != pid or k.get("status") != "known":
            continue
        ok = True
        for key, want in k.get("matcher", {}).items():
            have = issue.get(key)
            if isinstance(want, str) and want.startswith("re:"):
                if have is None or not re.fullmatch(want[3:], str(have)):
                    ok = False
            elif have != want:
                ok = False
            if not ok:
                break
        if ok:
            return k
    return None


_REPLAY_N = 0


def write_replay(pid, payload):
    d = os.path.join(VERIF, "replays")
    os.makedirs(d, exist_ok=True)
    global _REPLAY_N
    _REPLAY_N += 1
    p = os.path.join(d, f"{pid}-{int(time.time())}-{os.getpid()}-{_REPLAY_N}.json")
    with open(p, "w") as f:
        json.dump(payload, f, indent=1, default=str)
    return p
