#!/bin/sh
# usage: tools/try_mutant.sh <seeded-dir-name> <PID> [more PIDs]  — apply a seeded change to /repo, run checks, undo.
m=$1; shift
cd /verif
git -C /repo diff --quiet || { echo "/repo is dirty"; exit 2; }
git -C /repo apply /verif/seeded/$m/patch.diff || exit 2
for p in "$@"; do
  echo "=== $m / $p"
  timeout 3000 ./check $p 2>&1 | grep -E "VIOLATION|KNOWN-FINDING|^OK|failing input|proof:|correspondence broken" | cut -c1-400
done
git -C /repo checkout -- .
git -C /repo status --short | head -3
