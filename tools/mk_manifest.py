#!/usr/bin/env python3
"""Writes /verif/MANIFEST.json from the table below (one place to edit)."""
import json
import os

VERIF = os.path.dirname(os.path.dirname(os.path.abspath(__file__)))
props = [json.loads(l)["id"] for l in open(os.path.join(VERIF, "properties.jsonl"))]

CLAIMED = {
    "C12": dict(
        text="Machine-checked theorem (Coq): for every constructor classmethod (77) and EVERY in-range operand "
             "tuple the emitted word decodes, by an independent specification decoder proved injective on its "
             "image, to exactly the intended instruction; tables regenerated from /repo on every run, "
             "constructor universe tied by computation; the three 0x2F-masked shift constructors are proved "
             "wrong exactly when shamt bit 4 is set (known finding).  Encoder algorithms are tied by a "
             "differential correspondence (implementation vs extracted model vs spec judge).",
        design="4 C12",
        note="Trusted: Coq kernel (vm_compute, no native_compute), no axioms; gen_tables.py; extraction "
             "(ExtrOcamlBasic/ExtrOcamlString); hand-written Isa.v as the RISC-V/custom encoding spec; Enc.v "
             "mirrors instructions.py/helpers.py and is tied by correspondence only.",
        technique="Coq proof (lia over bit-field arithmetic + per-constructor computation on regenerated tables) "
                  "+ differential correspondence",
    ),
    "C13": dict(
        text="Machine-checked theorems (Coq): the low/high split is exact for EVERY offset in "
             "[-2^31-2^11, 2^31-2^11); every stub kind (method, PIC, register save, interpreter trampoline "
             "method/PIC calls, RIMI-full chdom forms, FIXER tagged calls, switch case hit/miss), decoded by the "
             "independent decoder and executed on the reference machine from ANY state at ANY address A, reaches "
             "exactly A+offset with ra just past the stub, the hit case loaded, CALL_TMP_REG = target and (FIXER) "
             "exactly the return address registered; offsets below the minimum distance are rejected.  Stub "
             "builders read the regenerated tables; implementation stubs are executed on the extracted machine.",
        design="4 C13",
        note="Trusted: Coq kernel, no axioms; gen_tables.py; extraction; Machine.v/Isa.v as hand-written reference "
             "semantics; Builder.v mirrors the Python stub builders and is tied by correspondence; hypothesis "
             "(A+offset) even (jalr clears bit 0).",
        technique="Coq proof (lia on the split arithmetic + symbolic execution of the decoded stub on the "
                  "reference machine) + differential correspondence and execution of implementation stubs",
    ),
    "C14": dict(
        text="Machine-checked theorems (Coq) over the regenerated, ordered instruction tables: for all 77 "
             "constructors and ALL in-range operand tuples the first-match look-up returns the constructor's own "
             "definition and format, and the word matches no other non-alias non-placeholder definition (pairwise "
             "conflict decided by computation over the table and lifted by a soundness lemma); the field and "
             "immediate extractors equal the specification's raw fields for EVERY 32-bit word; MASK/MATCH "
             "constants fit 32 bits.  Helper text (GNU/Rocket/CVA6) is judged against words the encoders emit.",
        design="4 C14",
        note="Trusted: Coq kernel, no axioms; gen_tables.py; extraction; Disasm.v mirrors disassembler.py / "
             "proc_helper.py (numeric part) and is tied by correspondence; helper text layout parsed by the "
             "harness; placeholders custom0-3/unknown and alias keys excluded as 'other' definitions.",
        technique="Coq proof (bit-mask lemmas + vm_compute sweep over the regenerated table lifted by "
                  "forallb_forall) + differential correspondence",
    ),
    "C15": dict(
        text="Machine-checked theorems (Coq) over bit-exact IEEE-754 binary64 (SpecFloat: pure Z arithmetic, "
             "axiom-free): the truncated normal returns the first in-bounds Gaussian draw unchanged (re-draw, "
             "never clamp); both Poisson samplers return exactly the first index whose computed partial sum is not "
             "below the single uniform draw, and cannot exhaust their fuel when such an index is reachable; PIC "
             "ratio 0 / 1 yield only methods / only PICs for EVERY uniform draw (x * 1.0 = x proved for every "
             "canonical double); totality is machine-refuted (known finding).  Sizing law and samplers are tied to "
             "CPython bit-for-bit by a scripted-random correspondence.",
        design="4 C15",
        note="Trusted: Coq kernel (vm_compute), no axioms; SpecFloat as the IEEE-754 specification; math.exp and "
             "random.gauss are inputs; CPython's choices algorithm hand-modelled; the unbounded divergence theorem "
             "carries an explicit hypothesis on lambda/x (bounded refutation is unconditional); C15_sizes over "
             "whole images rests on the generator correspondence.",
        technique="Coq proof (induction on fuel over a SpecFloat model; symbolic evaluation of SFmul by 1.0) + "
                  "bit-exact differential correspondence under a scripted random source",
    ),
    "C17": dict(
        text="Machine-checked theorems (Coq) on the parser model: the log scan depends only on matched events "
             "(arbitrary noise lines irrelevant); for EVERY event sequence pre++[start]++mid++[ret]++post the "
             "reported window is exactly (stamp(start), stamp(ret)) and the instructions are start::mid; both "
             "histograms sum to the instruction count; for each isolation solution every instruction name the "
             "variant's generator can emit and every pseudo-instruction name is a key of the table the runner "
             "selects (key sets regenerated from a real Runner.generate_binary run).  Scanners tied to Python's re "
             "by a differential correspondence on synthesised dumps/logs; implementation results judged against "
             "the abstract event sequence.",
        design="4 C17",
        note="Trusted: Coq kernel, no axioms; gen_tables.py; extraction; LogParse.v hand-models the regexes and "
             "int() on ASCII input (tied by correspondence); pseudo-instruction name table is an assumption; "
             "well-formedness of logs as in DESIGN 6.7.  Coverage clause is partial in that sense.",
        technique="Coq proof (induction over event lists, histogram algebra, vm_compute over regenerated key sets) "
                  "+ differential correspondence",
    ),
    "C18": dict(
        text="Machine-checked theorems (Coq) on the parser model with explicit Python exception semantics "
             "(Ret | Raise): for EVERY file state (absent, undecodable, any ASCII content) parse_dump and both "
             "parse_core_log variants return a record, never raise, and clear the ok flag with default values "
             "unless extraction succeeded.  Tied to the implementation by a differential correspondence that "
             "compares the raised exception class (or its absence) over 19 fault classes interleaved with "
             "well-formed files on persistent parser objects (histories).",
        design="4 C18",
        note="Trusted: Coq kernel, no axioms; extraction; LogParse.v mirrors toccata/parser.py after fix: cae6d51 "
             "(tied by correspondence); OS failures other than a missing/unreadable file are outside the model.",
        technique="Coq proof (case analysis of every exception path of the mirrored control flow) + differential "
                  "correspondence on a malformed stream",
    ),
    'C01': dict(
        text='Machine-checked (Coq): the builder model equals the fragments dumped from /repo now; every fragment word and every random-body instruction is a legal instruction of the variant (all operands); callee draws and offset choices are never empty. Partial: the whole-image clean-return theorem is stated, not proved; every implementation image of the run is executed on the extracted reference machine with exact region mapping (fetch/illegal/misaligned/unmapped/domain faults monitored).',
        design='4 C01',
        note='Trusted: Coq kernel (vm_compute), no axioms; gen_tables.py (fragments and tables dumped from /repo at run time); extraction; Machine.v/Isa.v hand-written reference semantics; Generator.v/Builder.v mirror the Python generators and are tied byte-for-byte by the generator correspondence over decision scripts (ScriptRandom); the whole-image composition (Layer A/B of DESIGN 3.6) is stated as `_statement` and NOT yet proved: the theorems proved are `_partial` component theorems; whole images are judged on the extracted reference machine (a test of the missing clause, not a proof).',
        technique='Coq proof of component theorems (regenerated fragments by computation, stub execution on the reference machine, generator arithmetic) + byte-exact generator correspondence + judgement of implementation images on the extracted reference machine',
    ),
    'C02': dict(
        text='Machine-checked (Coq): every prologue/epilogue and trampoline pair of the five variants is frame-symmetric (one allocation, equal release, same (register, slot) pairs, slots inside the frame) by computation on the regenerated fragments; reserved registers are excluded from random destinations; call stubs preserve every register but ra and do not touch memory (all offsets/addresses/states). Partial: whole-run register restoration, frame ownership and the stack bound are judged on the reference machine (final-vs-initial registers with arbitrary initial contents, per-access frame monitor, min sp vs call-graph bound).',
        design='4 C02',
        note='Trusted: Coq kernel (vm_compute), no axioms; gen_tables.py (fragments and tables dumped from /repo at run time); extraction; Machine.v/Isa.v hand-written reference semantics; Generator.v/Builder.v mirror the Python generators and are tied byte-for-byte by the generator correspondence over decision scripts (ScriptRandom); the whole-image composition (Layer A/B of DESIGN 3.6) is stated as `_statement` and NOT yet proved: the theorems proved are `_partial` component theorems; whole images are judged on the extracted reference machine (a test of the missing clause, not a proof).',
        technique='Coq proof of component theorems (regenerated fragments by computation, stub execution on the reference machine, generator arithmetic) + byte-exact generator correspondence + judgement of implementation images on the extracted reference machine',
    ),
    'C03': dict(
        text='Machine-checked (Coq): for ALL data sizes >= 8, draws and widths the offset is non-negative, aligned, fits the immediate and the access ends inside the rounded data image (bound tight); the alignment looked up from the regenerated ALIGNMENT/name lists is the access width; the data register is never a random destination; the shadow pointer moves only in matched 8-byte steps. Partial: lifting to every body of every image is stated; every memory instruction of every implementation image is checked statically (spec decoder) and dynamically (exact data region).',
        design='4 C03',
        note='Trusted: Coq kernel (vm_compute), no axioms; gen_tables.py (fragments and tables dumped from /repo at run time); extraction; Machine.v/Isa.v hand-written reference semantics; Generator.v/Builder.v mirror the Python generators and are tied byte-for-byte by the generator correspondence over decision scripts (ScriptRandom); the whole-image composition (Layer A/B of DESIGN 3.6) is stated as `_statement` and NOT yet proved: the theorems proved are `_partial` component theorems; whole images are judged on the extracted reference machine (a test of the missing clause, not a proof).',
        technique='Coq proof of component theorems (regenerated fragments by computation, stub execution on the reference machine, generator arithmetic) + byte-exact generator correspondence + judgement of implementation images on the extracted reference machine',
    ),
    'C04': dict(
        text='Machine-checked (Coq): fragment lengths equal the sizes Method.__init__/the generators assume; call-stub slots are pairwise disjoint and inside the body (all sizes); the patch population has body//call_size slots; call stubs and switch jumps land exactly on pc+offset. Partial: the tiling theorem over whole images is stated; tiling, true addresses, call/switch/trampoline targets, padding length and refusal-without-files are judged on every implementation image.',
        design='4 C04',
        note='Trusted: Coq kernel (vm_compute), no axioms; gen_tables.py (fragments and tables dumped from /repo at run time); extraction; Machine.v/Isa.v hand-written reference semantics; Generator.v/Builder.v mirror the Python generators and are tied byte-for-byte by the generator correspondence over decision scripts (ScriptRandom); the whole-image composition (Layer A/B of DESIGN 3.6) is stated as `_statement` and NOT yet proved: the theorems proved are `_partial` component theorems; whole images are judged on the extracted reference machine (a test of the missing clause, not a proof).',
        technique='Coq proof of component theorems (regenerated fragments by computation, stub execution on the reference machine, generator arithmetic) + byte-exact generator correspondence + judgement of implementation images on the extracted reference machine',
    ),
    'C05': dict(
        text="Machine-checked (Coq): a switch case jumps to its method iff the hit register holds its number and otherwise falls to the next case, for ALL admissible register pairs and states; PIC call stubs load exactly the drawn hit case into the PIC's own register; the case count is capped by the remaining methods. Partial: method count / call-site counts / each-element-once are judged statically and on the reference machine's entry trace (including non-default PIC registers and first/last hit cases forced).",
        design='4 C05',
        note='Trusted: Coq kernel (vm_compute), no axioms; gen_tables.py (fragments and tables dumped from /repo at run time); extraction; Machine.v/Isa.v hand-written reference semantics; Generator.v/Builder.v mirror the Python generators and are tied byte-for-byte by the generator correspondence over decision scripts (ScriptRandom); the whole-image composition (Layer A/B of DESIGN 3.6) is stated as `_statement` and NOT yet proved: the theorems proved are `_partial` component theorems; whole images are judged on the extracted reference machine (a test of the missing clause, not a proof).',
        technique='Coq proof of component theorems (regenerated fragments by computation, stub execution on the reference machine, generator arithmetic) + byte-exact generator correspondence + judgement of implementation images on the extracted reference machine',
    ),
    'C06': dict(
        text='Machine-checked (Coq): callees are drawn only from buckets of strictly smaller depth whenever the depth dictionary is consistent, and registration preserves consistency (all histories); switch compare-branches and jumps go forward. Partial: acyclicity over whole images and count equality are judged (call graph recovered from bytes; executed instruction count == static count from the call DAG and selected PIC cases).',
        design='4 C06',
        note='Trusted: Coq kernel (vm_compute), no axioms; gen_tables.py (fragments and tables dumped from /repo at run time); extraction; Machine.v/Isa.v hand-written reference semantics; Generator.v/Builder.v mirror the Python generators and are tied byte-for-byte by the generator correspondence over decision scripts (ScriptRandom); the whole-image composition (Layer A/B of DESIGN 3.6) is stated as `_statement` and NOT yet proved: the theorems proved are `_partial` component theorems; whole images are judged on the extracted reference machine (a test of the missing clause, not a proof).',
        technique='Coq proof of component theorems (regenerated fragments by computation, stub execution on the reference machine, generator arithmetic) + byte-exact generator correspondence + judgement of implementation images on the extracted reference machine',
    ),
    'C07': dict(
        text='Machine-checked (Coq): every call / address stub is position independent - its theorem quantifies over the address A and the whole register file; fragments address memory through sp / the shadow pointer only. Partial: whole-image relocation invariance is judged by twin runs of the reference machine at two random layouts (fetched offsets and data offset/width sequences compared).',
        design='4 C07',
        note='Trusted: Coq kernel (vm_compute), no axioms; gen_tables.py (fragments and tables dumped from /repo at run time); extraction; Machine.v/Isa.v hand-written reference semantics; Generator.v/Builder.v mirror the Python generators and are tied byte-for-byte by the generator correspondence over decision scripts (ScriptRandom); the whole-image composition (Layer A/B of DESIGN 3.6) is stated as `_statement` and NOT yet proved: the theorems proved are `_partial` component theorems; whole images are judged on the extracted reference machine (a test of the missing clause, not a proof).',
        technique='Coq proof of component theorems (regenerated fragments by computation, stub execution on the reference machine, generator arithmetic) + byte-exact generator correspondence + judgement of implementation images on the extracted reference machine',
    ),
    'C09': dict(
        text='Machine-checked (Coq): in both RIMI variants prologues/epilogues (and RIMI-full trampolines) never put ra on the main stack, push/pop it through the shadow pointer which moves only in matched 8-byte steps; ra and the shadow pointer are not random destinations; call stubs do not read memory. Partial: LIFO matching, capacity and corruption independence are judged on the reference machine (shadow monitor; random overwrites of all JIT frames every few steps with trace comparison).',
        design='4 C09',
        note='Trusted: Coq kernel (vm_compute), no axioms; gen_tables.py (fragments and tables dumped from /repo at run time); extraction; Machine.v/Isa.v hand-written reference semantics; Generator.v/Builder.v mirror the Python generators and are tied byte-for-byte by the generator correspondence over decision scripts (ScriptRandom); the whole-image composition (Layer A/B of DESIGN 3.6) is stated as `_statement` and NOT yet proved: the theorems proved are `_partial` component theorems; whole images are judged on the extracted reference machine (a test of the missing clause, not a proof).',
        technique='Coq proof of component theorems (regenerated fragments by computation, stub execution on the reference machine, generator arithmetic) + byte-exact generator correspondence + judgement of implementation images on the extracted reference machine',
    ),
    'C10': dict(
        text="Machine-checked (Coq): interpreter prologue/epilogue contain no custom instruction; retdom is the last and only domain instruction of the return trampoline; interpreter call stubs ending in chdom, executed in domain 0, enter domain 1 exactly at the call trampoline (all offsets/addresses/states). Partial: alternation and duplicated-access discipline over whole runs are judged by the reference machine's domain monitor and a static scan of int.bin/jit.bin.",
        design='4 C10',
        note='Trusted: Coq kernel (vm_compute), no axioms; gen_tables.py (fragments and tables dumped from /repo at run time); extraction; Machine.v/Isa.v hand-written reference semantics; Generator.v/Builder.v mirror the Python generators and are tied byte-for-byte by the generator correspondence over decision scripts (ScriptRandom); the whole-image composition (Layer A/B of DESIGN 3.6) is stated as `_statement` and NOT yet proved: the theorems proved are `_partial` component theorems; whole images are judged on the extracted reference machine (a test of the missing clause, not a proof).',
        technique='Coq proof of component theorems (regenerated fragments by computation, stub execution on the reference machine, generator arithmetic) + byte-exact generator correspondence + judgement of implementation images on the extracted reference machine',
    ),
    'C11': dict(
        text='Machine-checked (Coq): every FIXER epilogue ends with cfiret/beq/ecall/ret; a tagged call registers EXACTLY the return address the following jalr writes (method and PIC stubs, all offsets/addresses/states); the call trampoline tags before jumping. Partial: untampered runs (trap never reached, CFI stack empty at exit) and tamper runs (overwrite of a live saved-ra slot traps) are judged on the reference machine.',
        design='4 C11',
        note='Trusted: Coq kernel (vm_compute), no axioms; gen_tables.py (fragments and tables dumped from /repo at run time); extraction; Machine.v/Isa.v hand-written reference semantics; Generator.v/Builder.v mirror the Python generators and are tied byte-for-byte by the generator correspondence over decision scripts (ScriptRandom); the whole-image composition (Layer A/B of DESIGN 3.6) is stated as `_statement` and NOT yet proved: the theorems proved are `_partial` component theorems; whole images are judged on the extracted reference machine (a test of the missing clause, not a proof).',
        technique='Coq proof of component theorems (regenerated fragments by computation, stub execution on the reference machine, generator arithmetic) + byte-exact generator correspondence + judgement of implementation images on the extracted reference machine',
    ),
    'C08': dict(
        text='Machine-checked (Coq, for every seed->stream map and global state): constructing a generator is pure, a generation leaves module-level state unchanged, the three front-ends yield the same files, and files do not depend on the history of earlier generations. PARTIAL by nature: cross-process determinism of random.seed and absence of other entropy sources are runtime facts exercised by the front-ends slice (fresh processes, python -m gigue subprocesses, three hash seeds, histories incl. failing generations, deep snapshot of module-level state) and by script accounting.',
        design='4 C08',
        note='Trusted: Coq kernel, no axioms; CPython random.seed determinism; interpreter hash randomisation / environment outside the model (partial); Generator.v tied by the generator correspondence.',
        technique='Coq proof over an explicit process-state model + differential runs of the three front-ends across processes, hash seeds and histories',
    ),
    'C16': dict(
        text="Machine-checked (Coq): every method/PIC record is the (address, size, calls, depth / cases, case list) of the element it was built from; totals equal the element counts; both means are one binary64 division of exact integer sums. The records slice drives Runner.generate_binary for every isolation solution and the shipped presets, re-derives every record from bin/jit.bin with the spec decoder, re-runs the recorded seed and compares with the model's Records.",
        design='4 C16',
        note="Trusted: Coq kernel, no axioms; Records.v mirrors runner.py:231-295 (tied by correspondence); 'matches the binary' additionally needs C04's tiling, which for whole images rests on the generator correspondence; occupation/depth means are outside the property.",
        technique='Coq proof (structural) + differential correspondence + independent re-derivation of the records from the emitted bytes',
    ),
}

NOT_YET = "check under construction in this round (see DESIGN.md section 4); not yet claimed"

checks = []
for pid in props:
    if pid in CLAIMED:
        c = CLAIMED[pid]
        checks.append({
            "property_id": pid,
            "quick_cmd": f"./check {pid} --tier quick",
            "thorough_cmd": f"./check {pid} --tier thorough",
            "evidence_file": f"/verif/evidence/{pid}.json",
            "replay_cmd_template": f"./check {pid} --replay {{path}}",
            "engine": "coq+correspondence",
            "level_claimed": {"category": "proof", "text": c["text"], "design_ref": c["design"]},
            "level_note": c["note"],
            "technique": c["technique"],
        })

manifest = {
    "version": 1,
    "setup_cmd": "./setup.sh",
    "hooks": {
        "guard": "GIGUE_VERIF",
        "enable": "no hooks: nothing in /repo reads the guard; ScriptRandom and all drivers live in /verif",
        "baseline_off_cmd": "cd /repo && /venv/bin/python -m pytest -ra -q -p no:cacheprovider --timeout=900 "
                            "--continue-on-collection-errors",
        "source_commits": [],
        "add_only": True,
    },
    "engines": [
        {"name": "coq+correspondence", "path": "/verif/check",
         "serves_properties": sorted(CLAIMED),
         "kind_free_text": "Coq 8.16.1 development (coq/), regenerated tables (tools/gen_tables.py), extracted "
                           "OCaml model and spec drivers (ocaml/), differential correspondence harness (tools/)"},
    ],
    "checks": checks,
    "not_applicable": [{"property_id": p, "reason": NOT_YET} for p in props if p not in CLAIMED],
    "notes": "Machine-checked proof in Coq 8.16.1; see DESIGN.md.  fix: commits in /repo: 7ffa793 5dee1e9 8ac862b "
             "049aa6a 78563f4 cae6d51 (see known_findings.json).",
}
json.dump(manifest, open(os.path.join(VERIF, "MANIFEST.json"), "w"), indent=1)
print("MANIFEST.json: claimed", sorted(CLAIMED))
