#!/usr/bin/env python3
"""Writes /verif/MANIFEST.json from the table below (one place to edit)."""
import json
import os

VERIF = os.path.dirname(os.path.dirname(os.path.abspath(__file__)))
props = [json.loads(l)["id"] for l in open(os.path.join(VERIF, "properties.jsonl"))]

CLAIMED = {
    "C12": dict(
        text="Machine-checked theorem (Coq): for every constructor classmethod (77) and EVERY in-range operand "
             "tuple the emitted word decodes, by an independent specification decoder proved injective on its "
             "image, to exactly the intended instruction; tables regenerated from /repo on every run, "
             "constructor universe tied by computation; the three 0x2F-masked shift constructors are proved "
             "wrong exactly when shamt bit 4 is set (known finding).  Encoder algorithms are tied by a "
             "differential correspondence (implementation vs extracted model vs spec judge).",
        design="4 C12",
        note="Trusted: Coq kernel (vm_compute, no native_compute), no axioms; gen_tables.py; extraction "
             "(ExtrOcamlBasic/ExtrOcamlString); hand-written Isa.v as the RISC-V/custom encoding spec; Enc.v "
             "mirrors instructions.py/helpers.py and is tied by correspondence only.",
        technique="Coq proof (lia over bit-field arithmetic + per-constructor computation on regenerated tables) "
                  "+ differential correspondence",
    ),
    "C13": dict(
        text="Machine-checked theorems (Coq): the low/high split is exact for EVERY offset in "
             "[-2^31-2^11, 2^31-2^11); every stub kind (method, PIC, register save, interpreter trampoline "
             "method/PIC calls, RIMI-full chdom forms, FIXER tagged calls, switch case hit/miss), decoded by the "
             "independent decoder and executed on the reference machine from ANY state at ANY address A, reaches "
             "exactly A+offset with ra just past the stub, the hit case loaded, CALL_TMP_REG = target and (FIXER) "
             "exactly the return address registered; offsets below the minimum distance are rejected.  Stub "
             "builders read the regenerated tables; implementation stubs are executed on the extracted machine.",
        design="4 C13",
        note="Trusted: Coq kernel, no axioms; gen_tables.py; extraction; Machine.v/Isa.v as hand-written reference "
             "semantics; Builder.v mirrors the Python stub builders and is tied by correspondence; hypothesis "
             "(A+offset) even (jalr clears bit 0).",
        technique="Coq proof (lia on the split arithmetic + symbolic execution of the decoded stub on the "
                  "reference machine) + differential correspondence and execution of implementation stubs",
    ),
    "C14": dict(
        text="Machine-checked theorems (Coq) over the regenerated, ordered instruction tables: for all 77 "
             "constructors and ALL in-range operand tuples the first-match look-up returns the constructor's own "
             "definition and format, and the word matches no other non-alias non-placeholder definition (pairwise "
             "conflict decided by computation over the table and lifted by a soundness lemma); the field and "
             "immediate extractors equal the specification's raw fields for EVERY 32-bit word; MASK/MATCH "
             "constants fit 32 bits.  Helper text (GNU/Rocket/CVA6) is judged against words the encoders emit.",
        design="4 C14",
        note="Trusted: Coq kernel, no axioms; gen_tables.py; extraction; Disasm.v mirrors disassembler.py / "
             "proc_helper.py (numeric part) and is tied by correspondence; helper text layout parsed by the "
             "harness; placeholders custom0-3/unknown and alias keys excluded as 'other' definitions.",
        technique="Coq proof (bit-mask lemmas + vm_compute sweep over the regenerated table lifted by "
                  "forallb_forall) + differential correspondence",
    ),
    "C15": dict(
        text="Machine-checked theorems (Coq) over bit-exact IEEE-754 binary64 (SpecFloat: pure Z arithmetic, "
             "axiom-free): the truncated normal returns the first in-bounds Gaussian draw unchanged (re-draw, "
             "never clamp); both Poisson samplers return exactly the first index whose computed partial sum is not "
             "below the single uniform draw, and cannot exhaust their fuel when such an index is reachable; PIC "
             "ratio 0 / 1 yield only methods / only PICs for EVERY uniform draw (x * 1.0 = x proved for every "
             "canonical double); totality is machine-refuted (known finding).  Sizing law and samplers are tied to "
             "CPython bit-for-bit by a scripted-random correspondence.",
        design="4 C15",
        note="Trusted: Coq kernel (vm_compute), no axioms; SpecFloat as the IEEE-754 specification; math.exp and "
             "random.gauss are inputs; CPython's choices algorithm hand-modelled; the unbounded divergence theorem "
             "carries an explicit hypothesis on lambda/x (bounded refutation is unconditional); C15_sizes over "
             "whole images rests on the generator correspondence.",
        technique="Coq proof (induction on fuel over a SpecFloat model; symbolic evaluation of SFmul by 1.0) + "
                  "bit-exact differential correspondence under a scripted random source",
    ),
    "C17": dict(
        text="Machine-checked theorems (Coq) on the parser model: the log scan depends only on matched events "
             "(arbitrary noise lines irrelevant); for EVERY event sequence pre++[start]++mid++[ret]++post the "
             "reported window is exactly (stamp(start), stamp(ret)) and the instructions are start::mid; both "
             "histograms sum to the instruction count; for each isolation solution every instruction name the "
             "variant's generator can emit and every pseudo-instruction name is a key of the table the runner "
             "selects (key sets regenerated from a real Runner.generate_binary run).  Scanners tied to Python's re "
             "by a differential correspondence on synthesised dumps/logs; implementation results judged against "
             "the abstract event sequence.",
        design="4 C17",
        note="Trusted: Coq kernel, no axioms; gen_tables.py; extraction; LogParse.v hand-models the regexes and "
             "int() on ASCII input (tied by correspondence); pseudo-instruction name table is an assumption; "
             "well-formedness of logs as in DESIGN 6.7.  Coverage clause is partial in that sense.",
        technique="Coq proof (induction over event lists, histogram algebra, vm_compute over regenerated key sets) "
                  "+ differential correspondence",
    ),
    "C18": dict(
        text="Machine-checked theorems (Coq) on the parser model with explicit Python exception semantics "
             "(Ret | Raise): for EVERY file state (absent, undecodable, any ASCII content) parse_dump and both "
             "parse_core_log variants return a record, never raise, and clear the ok flag with default values "
             "unless extraction succeeded.  Tied to the implementation by a differential correspondence that "
             "compares the raised exception class (or its absence) over 19 fault classes interleaved with "
             "well-formed files on persistent parser objects (histories).",
        design="4 C18",
        note="Trusted: Coq kernel, no axioms; extraction; LogParse.v mirrors toccata/parser.py after fix: cae6d51 "
             "(tied by correspondence); OS failures other than a missing/unreadable file are outside the model.",
        technique="Coq proof (case analysis of every exception path of the mirrored control flow) + differential "
                  "correspondence on a malformed stream",
    ),
    'C01': dict(
        text="Machine-checked (Coq): for ALL FIVE variants, every accepted configuration, every decision script (seed) and every emitted image, from ImageSem.Init (int.bin++jit.bin at the generation address, arbitrary other registers / data / memory) the reference machine - fetching and decoding the emitted words - runs interpreter loop, trampolines, PIC dispatch and every method with all callees to the caller's return address WITHOUT ANY FAULT (fetch outside code, illegal instruction, misaligned / unmapped / code-writing access, domain, shadow, CFI faults are machine outcomes) in exactly the statically computed number of steps (C01_plain/rimiss/rimifull/fixer_image_from_files, with concrete non-vacuity witnesses). Components: builder model = regenerated fragments, every fragment word / random-body instruction legal for the variant.",
        design='4 C01',
        note="Trusted: Coq kernel (vm_compute), no axioms (Print Assumptions: closed; coqchk -o: Axioms <none>); gen_tables.py (fragments and tables dumped from /repo at run time); extraction (ExtrOcamlBasic/ExtrOcamlString); Machine.v/Isa.v hand-written reference semantics and ImageSem.Init hand-written entry conditions; Generator.v/Builder.v mirror the Python generators and are tied byte-for-byte by the generator correspondence over decision scripts (ScriptRandom) on every run. The whole-image theorems are about the model's image; side conditions: PIC switch offsets encodable (F6) and < 2047 cases, image < 2 GiB, data register not t1 with trampolines (DESIGN 6.2), RIMI call chains within the emitted shadow stack. Clauses named _partial / _statement in coq/Properties are decided by the judges on implementation images executed on the extracted reference machine (a test, not a proof).",
        technique='Coq proof: Hoare logic over the generator monad (Layer A invariants for every configuration and decision script), machine-level method contracts by induction on the call depth and whole-image theorems for all five variants (Layer B), non-vacuity witnesses; + byte-exact generator correspondence + judgement of implementation images on the extracted reference machine (incl. ImageSem.count_method / need_method vs decoded image vs executed steps)',
    ),
    'C02': dict(
        text='Machine-checked (Coq): the method contract along the call graph for all five variants (every method of every image, any depth: sp, s0, ra, data register, every non-usable register restored - t3 too for RIMI; memory changes only in the data image and the window [sp - need_method, sp) computed from the call DAG, plus the shadow window for RIMI) and the whole-image theorems (sp, s0-s9, ra restored from the interpreter frame; stack use <= Ntot = 88 (+8) + max need_method). Frame symmetry of every prologue / epilogue / trampoline pair by computation on the regenerated fragments; no method instruction writes the data register.',
        design='4 C02',
        note="Trusted: Coq kernel (vm_compute), no axioms (Print Assumptions: closed; coqchk -o: Axioms <none>); gen_tables.py (fragments and tables dumped from /repo at run time); extraction (ExtrOcamlBasic/ExtrOcamlString); Machine.v/Isa.v hand-written reference semantics and ImageSem.Init hand-written entry conditions; Generator.v/Builder.v mirror the Python generators and are tied byte-for-byte by the generator correspondence over decision scripts (ScriptRandom) on every run. The whole-image theorems are about the model's image; side conditions: PIC switch offsets encodable (F6) and < 2047 cases, image < 2 GiB, data register not t1 with trampolines (DESIGN 6.2), RIMI call chains within the emitted shadow stack. Clauses named _partial / _statement in coq/Properties are decided by the judges on implementation images executed on the extracted reference machine (a test, not a proof).",
        technique='Coq proof: Hoare logic over the generator monad (Layer A invariants for every configuration and decision script), machine-level method contracts by induction on the call depth and whole-image theorems for all five variants (Layer B), non-vacuity witnesses; + byte-exact generator correspondence + judgement of implementation images on the extracted reference machine (incl. ImageSem.count_method / need_method vs decoded image vs executed steps)',
    ),
    'C03': dict(
        text='Machine-checked (Coq): every load / store of every method instruction of every image goes through the data register with a non-negative, aligned, in-bounds offset or through sp / t3, and no instruction writes the data register (Layer A, all configurations and scripts); bodies execute on the machine with only the data image changing; in the whole-image theorems a store into code or an access outside data / stack / shadow regions is a machine fault and none occurs; t3 moves only in matched 8-byte steps (RIMI contracts). Data size arithmetic for all sizes >= 8.',
        design='4 C03',
        note="Trusted: Coq kernel (vm_compute), no axioms (Print Assumptions: closed; coqchk -o: Axioms <none>); gen_tables.py (fragments and tables dumped from /repo at run time); extraction (ExtrOcamlBasic/ExtrOcamlString); Machine.v/Isa.v hand-written reference semantics and ImageSem.Init hand-written entry conditions; Generator.v/Builder.v mirror the Python generators and are tied byte-for-byte by the generator correspondence over decision scripts (ScriptRandom) on every run. The whole-image theorems are about the model's image; side conditions: PIC switch offsets encodable (F6) and < 2047 cases, image < 2 GiB, data register not t1 with trampolines (DESIGN 6.2), RIMI call chains within the emitted shadow stack. Clauses named _partial / _statement in coq/Properties are decided by the judges on implementation images executed on the extracted reference machine (a test, not a proof).",
        technique='Coq proof: Hoare logic over the generator monad (Layer A invariants for every configuration and decision script), machine-level method contracts by induction on the call depth and whole-image theorems for all five variants (Layer B), non-vacuity witnesses; + byte-exact generator correspondence + judgement of implementation images on the extracted reference machine (incl. ImageSem.count_method / need_method vs decoded image vs executed steps)',
    ),
    'C04': dict(
        text='Machine-checked (Coq, Layer A, every configuration and script): jit.bin is trampolines ++ elements, gap-free, every recorded address = byte position; int.bin padded to exactly jit_start - int_start, generation fails instead of emitting files when the interpreter loop does not fit; every callee owns a slot inside the body, slots pairwise >= call_size apart, the slot holds exactly the stub for callee.address - slot address; stubs and switch jumps executed on the machine land on the recorded entries. Loader lemmas (Loader*.v) use these to derive the loaded structured image from the flat files.',
        design='4 C04',
        note="Trusted: Coq kernel (vm_compute), no axioms (Print Assumptions: closed; coqchk -o: Axioms <none>); gen_tables.py (fragments and tables dumped from /repo at run time); extraction (ExtrOcamlBasic/ExtrOcamlString); Machine.v/Isa.v hand-written reference semantics and ImageSem.Init hand-written entry conditions; Generator.v/Builder.v mirror the Python generators and are tied byte-for-byte by the generator correspondence over decision scripts (ScriptRandom) on every run. The whole-image theorems are about the model's image; side conditions: PIC switch offsets encodable (F6) and < 2047 cases, image < 2 GiB, data register not t1 with trampolines (DESIGN 6.2), RIMI call chains within the emitted shadow stack. Clauses named _partial / _statement in coq/Properties are decided by the judges on implementation images executed on the extracted reference machine (a test, not a proof).",
        technique='Coq proof: Hoare logic over the generator monad (Layer A invariants for every configuration and decision script), machine-level method contracts by induction on the call depth and whole-image theorems for all five variants (Layer B), non-vacuity witnesses; + byte-exact generator correspondence + judgement of implementation images on the extracted reference machine (incl. ImageSem.count_method / need_method vs decoded image vs executed steps)',
    ),
    'C05': dict(
        text='Machine-checked (Coq): exactly jit_nb_methods methods, depth-0 methods have no callee, deeper ones exactly call_number; the interpreter loop is prologue ++ one stub per element over a permutation ++ epilogue; PIC dispatch reaches exactly the case whose number the call site loaded, never the trailing ret, for all admissible register pairs; the whole-image theorems (all five variants) execute every element exactly once, each PIC call exactly one case method (elem_cost), through the trampolines when enabled.',
        design='4 C05',
        note="Trusted: Coq kernel (vm_compute), no axioms (Print Assumptions: closed; coqchk -o: Axioms <none>); gen_tables.py (fragments and tables dumped from /repo at run time); extraction (ExtrOcamlBasic/ExtrOcamlString); Machine.v/Isa.v hand-written reference semantics and ImageSem.Init hand-written entry conditions; Generator.v/Builder.v mirror the Python generators and are tied byte-for-byte by the generator correspondence over decision scripts (ScriptRandom) on every run. The whole-image theorems are about the model's image; side conditions: PIC switch offsets encodable (F6) and < 2047 cases, image < 2 GiB, data register not t1 with trampolines (DESIGN 6.2), RIMI call chains within the emitted shadow stack. Clauses named _partial / _statement in coq/Properties are decided by the judges on implementation images executed on the extracted reference machine (a test, not a proof).",
        technique='Coq proof: Hoare logic over the generator monad (Layer A invariants for every configuration and decision script), machine-level method contracts by induction on the call depth and whole-image theorems for all five variants (Layer B), non-vacuity witnesses; + byte-exact generator correspondence + judgement of implementation images on the extracted reference machine (incl. ImageSem.count_method / need_method vs decoded image vs executed steps)',
    ),
    'C06': dict(
        text='Machine-checked (Coq): callees have strictly smaller depth, the call graph is acyclic, every direct jump / branch of every method goes to pc+4 / pc+8 (Layer A); the number of executed instructions is finite and EQUALS image_steps = 12 + sum over elements of elem_cost + 13 computed from the call DAG and the selected PIC cases, for all five variants (C06_executed_count_*: ONE list of selected cases is fixed by the image before any layout or entry state - exists eh, forall L s0 - so every run executes the same number of instructions), with steps_method = ImageSem.count_method.',
        design='4 C06',
        note="Trusted: Coq kernel (vm_compute), no axioms (Print Assumptions: closed; coqchk -o: Axioms <none>); gen_tables.py (fragments and tables dumped from /repo at run time); extraction (ExtrOcamlBasic/ExtrOcamlString); Machine.v/Isa.v hand-written reference semantics and ImageSem.Init hand-written entry conditions; Generator.v/Builder.v mirror the Python generators and are tied byte-for-byte by the generator correspondence over decision scripts (ScriptRandom) on every run. The whole-image theorems are about the model's image; side conditions: PIC switch offsets encodable (F6) and < 2047 cases, image < 2 GiB, data register not t1 with trampolines (DESIGN 6.2), RIMI call chains within the emitted shadow stack. Clauses named _partial / _statement in coq/Properties are decided by the judges on implementation images executed on the extracted reference machine (a test, not a proof).",
        technique='Coq proof: Hoare logic over the generator monad (Layer A invariants for every configuration and decision script), machine-level method contracts by induction on the call depth and whole-image theorems for all five variants (Layer B), non-vacuity witnesses; + byte-exact generator correspondence + judgement of implementation images on the extracted reference machine (incl. ImageSem.count_method / need_method vs decoded image vs executed steps)',
    ),
    'C07': dict(
        text='Machine-checked (Coq): the generator is translation-equivariant - for every accepted configuration, decision script and multiple d of 4, generating at start addresses shifted by d emits exactly the same words in all four files and shifts every recorded address by d (relational Hoare logic over the generator monad): no generated instruction materialises an absolute address; hence for all five variants the same files run at any 4-aligned load address in exactly the same number of steps to the halt address. Partial: equality of the executed instruction sequence / data-offset sequence between two layouts is judged by twin runs on the reference machine.',
        design='4 C07',
        note="Trusted: Coq kernel (vm_compute), no axioms (Print Assumptions: closed; coqchk -o: Axioms <none>); gen_tables.py (fragments and tables dumped from /repo at run time); extraction (ExtrOcamlBasic/ExtrOcamlString); Machine.v/Isa.v hand-written reference semantics and ImageSem.Init hand-written entry conditions; Generator.v/Builder.v mirror the Python generators and are tied byte-for-byte by the generator correspondence over decision scripts (ScriptRandom) on every run. The whole-image theorems are about the model's image; side conditions: PIC switch offsets encodable (F6) and < 2047 cases, image < 2 GiB, data register not t1 with trampolines (DESIGN 6.2), RIMI call chains within the emitted shadow stack. Clauses named _partial / _statement in coq/Properties are decided by the judges on implementation images executed on the extracted reference machine (a test, not a proof).",
        technique='Coq proof: Hoare logic over the generator monad (Layer A invariants for every configuration and decision script), machine-level method contracts by induction on the call depth and whole-image theorems for all five variants (Layer B), non-vacuity witnesses; + byte-exact generator correspondence + judgement of implementation images on the extracted reference machine (incl. ImageSem.count_method / need_method vs decoded image vs executed steps)',
    ),
    'C09': dict(
        text='Machine-checked (Coq): no method instruction of a RIMI image stores or reloads ra through sp; the RIMI method contract (both variants): pushes / pops through t3 LIFO-matched, one slot per live call-making method, inside [t3 - ss_need, t3) from the call DAG, t3 restored; whole image (RIMI-SS and RIMI-full, over the emitted files): for call chains within the emitted shadow stack the run ends with t3 at its entry value, no shadow fault; the return of a call-making method goes to the content of its shadow slot whatever the main stack holds (every state). C09_frame_corruption_keeps_control_flow_partial: for every call-making method and every position of its own body, arbitrarily overwriting its main-stack frame at that moment changes neither the number of steps nor the target of the rest of its execution (two-run theorem, with a concrete witness). Partial: corruption while a callee of the frame runs, and the effect of a corrupted s0 on the caller, are judged (random overwrites of JIT frames with trace comparison).',
        design='4 C09',
        note="Trusted: Coq kernel (vm_compute), no axioms (Print Assumptions: closed; coqchk -o: Axioms <none>); gen_tables.py (fragments and tables dumped from /repo at run time); extraction (ExtrOcamlBasic/ExtrOcamlString); Machine.v/Isa.v hand-written reference semantics and ImageSem.Init hand-written entry conditions; Generator.v/Builder.v mirror the Python generators and are tied byte-for-byte by the generator correspondence over decision scripts (ScriptRandom) on every run. The whole-image theorems are about the model's image; side conditions: PIC switch offsets encodable (F6) and < 2047 cases, image < 2 GiB, data register not t1 with trampolines (DESIGN 6.2), RIMI call chains within the emitted shadow stack. Clauses named _partial / _statement in coq/Properties are decided by the judges on implementation images executed on the extracted reference machine (a test, not a proof).",
        technique='Coq proof: Hoare logic over the generator monad (Layer A invariants for every configuration and decision script), machine-level method contracts by induction on the call depth and whole-image theorems for all five variants (Layer B), non-vacuity witnesses; + byte-exact generator correspondence + judgement of implementation images on the extracted reference machine (incl. ImageSem.count_method / need_method vs decoded image vs executed steps)',
    ),
    'C10': dict(
        text="Machine-checked (Coq): whole image of RIMI full over the emitted files: the machine's monitors are exactly C10's discipline (fetch domain, chdom only from domain 0 into the JIT region, retdom only from domain 1 to the interpreter region, duplicated accesses only in domain 1 inside the data section, no base access to the data section) and the run - interpreter in domain 0, chdom stub -> call trampoline -> element -> retdom, strictly alternating - ends at the halt address without any fault, in domain 0. Fragment-level facts by computation on the regenerated fragments.",
        design='4 C10',
        note="Trusted: Coq kernel (vm_compute), no axioms (Print Assumptions: closed; coqchk -o: Axioms <none>); gen_tables.py (fragments and tables dumped from /repo at run time); extraction (ExtrOcamlBasic/ExtrOcamlString); Machine.v/Isa.v hand-written reference semantics and ImageSem.Init hand-written entry conditions; Generator.v/Builder.v mirror the Python generators and are tied byte-for-byte by the generator correspondence over decision scripts (ScriptRandom) on every run. The whole-image theorems are about the model's image; side conditions: PIC switch offsets encodable (F6) and < 2047 cases, image < 2 GiB, data register not t1 with trampolines (DESIGN 6.2), RIMI call chains within the emitted shadow stack. Clauses named _partial / _statement in coq/Properties are decided by the judges on implementation images executed on the extracted reference machine (a test, not a proof).",
        technique='Coq proof: Hoare logic over the generator monad (Layer A invariants for every configuration and decision script), machine-level method contracts by induction on the call depth and whole-image theorems for all five variants (Layer B), non-vacuity witnesses; + byte-exact generator correspondence + judgement of implementation images on the extracted reference machine (incl. ImageSem.count_method / need_method vs decoded image vs executed steps)',
    ),
    'C11': dict(
        text='Machine-checked (Coq): FIXER method contract (every method entered with its return address on top of the CFI stack returns through the check sequence, which passes; every call is the tagged stub registering exactly the ra of that call; LIFO along the call DAG) and whole image over the emitted files - the untampered run never reaches the trap and ends with the CFI stack empty; a forged saved-ra (any state, any moment before the epilogue) makes the checked return Trap at the ecall before any transfer to the forged address (per-return theorem); C11_tampered_frame_traps_partial: for every call-making method of every image and every position of its own body outside the stubs, the untampered run reaches that position with the frame live, and overwriting the saved-ra slot at that moment with any other value makes the continued run (rest of the body, all further callees) end in the Trap of its own ecall - two-run theorem, with a concrete witness. Partial: tampering the slot of a caller while a callee runs (and inside stubs / the epilogue) is judged (overwrites of live saved-ra slots).',
        design='4 C11',
        note="Trusted: Coq kernel (vm_compute), no axioms (Print Assumptions: closed; coqchk -o: Axioms <none>); gen_tables.py (fragments and tables dumped from /repo at run time); extraction (ExtrOcamlBasic/ExtrOcamlString); Machine.v/Isa.v hand-written reference semantics and ImageSem.Init hand-written entry conditions; Generator.v/Builder.v mirror the Python generators and are tied byte-for-byte by the generator correspondence over decision scripts (ScriptRandom) on every run. The whole-image theorems are about the model's image; side conditions: PIC switch offsets encodable (F6) and < 2047 cases, image < 2 GiB, data register not t1 with trampolines (DESIGN 6.2), RIMI call chains within the emitted shadow stack. Clauses named _partial / _statement in coq/Properties are decided by the judges on implementation images executed on the extracted reference machine (a test, not a proof).",
        technique='Coq proof: Hoare logic over the generator monad (Layer A invariants for every configuration and decision script), machine-level method contracts by induction on the call depth and whole-image theorems for all five variants (Layer B), non-vacuity witnesses; + byte-exact generator correspondence + judgement of implementation images on the extracted reference machine (incl. ImageSem.count_method / need_method vs decoded image vs executed steps)',
    ),
    'C08': dict(
        text='Machine-checked (Coq, for every seed->stream map and global state): constructing a generator is pure, a generation leaves module-level state unchanged, the three front-ends yield the same files, and files do not depend on the history of earlier generations. PARTIAL by nature: cross-process determinism of random.seed and absence of other entropy sources are runtime facts exercised by the front-ends slice (fresh processes, python -m gigue subprocesses, three hash seeds, histories incl. failing generations, deep snapshot of module-level state) and by script accounting.',
        design='4 C08',
        note='Trusted: Coq kernel, no axioms; CPython random.seed determinism; interpreter hash randomisation / environment outside the model (partial); Generator.v tied by the generator correspondence.',
        technique='Coq proof over an explicit process-state model + differential runs of the three front-ends across processes, hash seeds and histories',
    ),
    'C16': dict(
        text="Machine-checked (Coq): every method/PIC record is the (address, size, calls, depth / cases, case list) of the element it was built from; totals equal the element counts; both means are one binary64 division of exact integer sums. The records slice drives Runner.generate_binary for every isolation solution and the shipped presets, re-derives every record from bin/jit.bin with the spec decoder, re-runs the recorded seed and compares with the model's Records.",
        design='4 C16',
        note="Trusted: Coq kernel, no axioms; Records.v mirrors runner.py:231-295 (tied by correspondence); 'matches the binary' additionally needs C04's tiling, which for whole images rests on the generator correspondence; occupation/depth means are outside the property.",
        technique='Coq proof (structural) + differential correspondence + independent re-derivation of the records from the emitted bytes',
    ),
}

NOT_YET = "check under construction in this round (see DESIGN.md section 4); not yet claimed"

checks = []
for pid in props:
    if pid in CLAIMED:
        c = CLAIMED[pid]
        checks.append({
            "property_id": pid,
            "quick_cmd": f"./check {pid} --tier quick",
            "thorough_cmd": f"./check {pid} --tier thorough",
            "evidence_file": f"/verif/evidence/{pid}.json",
            "replay_cmd_template": f"./check {pid} --replay {{path}}",
            "engine": "coq+correspondence",
            "level_claimed": {"category": "proof", "text": c["text"], "design_ref": c["design"]},
            "level_note": c["note"],
            "technique": c["technique"],
        })

manifest = {
    "version": 1,
    "setup_cmd": "./setup.sh",
    "hooks": {
        "guard": "GIGUE_VERIF",
        "enable": "no hooks: nothing in /repo reads the guard; ScriptRandom and all drivers live in /verif",
        "baseline_off_cmd": "cd /repo && /venv/bin/python -m pytest -ra -q -p no:cacheprovider --timeout=900 "
                            "--continue-on-collection-errors",
        "source_commits": [],
        "add_only": True,
    },
    "engines": [
        {"name": "coq+correspondence", "path": "/verif/check",
         "serves_properties": sorted(CLAIMED),
         "kind_free_text": "Coq 8.16.1 development (coq/), regenerated tables (tools/gen_tables.py), extracted "
                           "OCaml model and spec drivers (ocaml/), differential correspondence harness (tools/)"},
    ],
    "checks": checks,
    "not_applicable": [{"property_id": p, "reason": NOT_YET} for p in props if p not in CLAIMED],
    "notes": "Machine-checked proof in Coq 8.16.1; see DESIGN.md.  fix: commits in /repo: 7ffa793 5dee1e9 8ac862b "
             "049aa6a 78563f4 cae6d51 (see known_findings.json).",
}
json.dump(manifest, open(os.path.join(VERIF, "MANIFEST.json"), "w"), indent=1)
print("MANIFEST.json: claimed", sorted(CLAIMED))
