#!/usr/bin/env python3
"""Writes /verif/MANIFEST.json from the table below (one place to edit)."""
import json
import os

VERIF = os.path.dirname(os.path.dirname(os.path.abspath(__file__)))
props = [json.loads(l)["id"] for l in open(os.path.join(VERIF, "properties.jsonl"))]

CLAIMED = {
    "C12": dict(
        text="Machine-checked theorem (Coq): for every constructor classmethod (77) and EVERY in-range operand "
             "tuple the emitted word decodes, by an independent specification decoder proved injective on its "
             "image, to exactly the intended instruction; tables regenerated from /repo on every run, "
             "constructor universe tied by computation; the three 0x2F-masked shift constructors are proved "
             "wrong exactly when shamt bit 4 is set (known finding).  Encoder algorithms are tied by a "
             "differential correspondence (implementation vs extracted model vs spec judge).",
        design="4 C12",
        note="Trusted: Coq kernel (vm_compute, no native_compute), no axioms; gen_tables.py; extraction "
             "(ExtrOcamlBasic/ExtrOcamlString); hand-written Isa.v as the RISC-V/custom encoding spec; Enc.v "
             "mirrors instructions.py/helpers.py and is tied by correspondence only.",
        technique="Coq proof (lia over bit-field arithmetic + per-constructor computation on regenerated tables) "
                  "+ differential correspondence",
    ),
    "C13": dict(
        text="Machine-checked theorems (Coq): the low/high split is exact for EVERY offset in "
             "[-2^31-2^11, 2^31-2^11); every stub kind (method, PIC, register save, interpreter trampoline "
             "method/PIC calls, RIMI-full chdom forms, FIXER tagged calls, switch case hit/miss), decoded by the "
             "independent decoder and executed on the reference machine from ANY state at ANY address A, reaches "
             "exactly A+offset with ra just past the stub, the hit case loaded, CALL_TMP_REG = target and (FIXER) "
             "exactly the return address registered; offsets below the minimum distance are rejected.  Stub "
             "builders read the regenerated tables; implementation stubs are executed on the extracted machine.",
        design="4 C13",
        note="Trusted: Coq kernel, no axioms; gen_tables.py; extraction; Machine.v/Isa.v as hand-written reference "
             "semantics; Builder.v mirrors the Python stub builders and is tied by correspondence; hypothesis "
             "(A+offset) even (jalr clears bit 0).",
        technique="Coq proof (lia on the split arithmetic + symbolic execution of the decoded stub on the "
                  "reference machine) + differential correspondence and execution of implementation stubs",
    ),
    "C14": dict(
        text="Machine-checked theorems (Coq) over the regenerated, ordered instruction tables: for all 77 "
             "constructors and ALL in-range operand tuples the first-match look-up returns the constructor's own "
             "definition and format, and the word matches no other non-alias non-placeholder definition (pairwise "
             "conflict decided by computation over the table and lifted by a soundness lemma); the field and "
             "immediate extractors equal the specification's raw fields for EVERY 32-bit word; MASK/MATCH "
             "constants fit 32 bits.  Helper text (GNU/Rocket/CVA6) is judged against words the encoders emit.",
        design="4 C14",
        note="Trusted: Coq kernel, no axioms; gen_tables.py; extraction; Disasm.v mirrors disassembler.py / "
             "proc_helper.py (numeric part) and is tied by correspondence; helper text layout parsed by the "
             "harness; placeholders custom0-3/unknown and alias keys excluded as 'other' definitions.",
        technique="Coq proof (bit-mask lemmas + vm_compute sweep over the regenerated table lifted by "
                  "forallb_forall) + differential correspondence",
    ),
    "C15": dict(
        text="Machine-checked theorems (Coq) over bit-exact IEEE-754 binary64 (SpecFloat: pure Z arithmetic, "
             "axiom-free): the truncated normal returns the first in-bounds Gaussian draw unchanged (re-draw, "
             "never clamp); both Poisson samplers return exactly the first index whose computed partial sum is not "
             "below the single uniform draw, and cannot exhaust their fuel when such an index is reachable; PIC "
             "ratio 0 / 1 yield only methods / only PICs for EVERY uniform draw (x * 1.0 = x proved for every "
             "canonical double); totality is machine-refuted (known finding).  Sizing law and samplers are tied to "
             "CPython bit-for-bit by a scripted-random correspondence.",
        design="4 C15",
        note="Trusted: Coq kernel (vm_compute), no axioms; SpecFloat as the IEEE-754 specification; math.exp and "
             "random.gauss are inputs; CPython's choices algorithm hand-modelled; the unbounded divergence theorem "
             "carries an explicit hypothesis on lambda/x (bounded refutation is unconditional); C15_sizes over "
             "whole images rests on the generator correspondence.",
        technique="Coq proof (induction on fuel over a SpecFloat model; symbolic evaluation of SFmul by 1.0) + "
                  "bit-exact differential correspondence under a scripted random source",
    ),
    "C17": dict(
        text="Machine-checked theorems (Coq) on the parser model: the log scan depends only on matched events "
             "(arbitrary noise lines irrelevant); for EVERY event sequence pre++[start]++mid++[ret]++post the "
             "reported window is exactly (stamp(start), stamp(ret)) and the instructions are start::mid; both "
             "histograms sum to the instruction count; for each isolation solution every instruction name the "
             "variant's generator can emit and every pseudo-instruction name is a key of the table the runner "
             "selects (key sets regenerated from a real Runner.generate_binary run).  Scanners tied to Python's re "
             "by a differential correspondence on synthesised dumps/logs; implementation results judged against "
             "the abstract event sequence.",
        design="4 C17",
        note="Trusted: Coq kernel, no axioms; gen_tables.py; extraction; LogParse.v hand-models the regexes and "
             "int() on ASCII input (tied by correspondence); pseudo-instruction name table is an assumption; "
             "well-formedness of logs as in DESIGN 6.7.  Coverage clause is partial in that sense.",
        technique="Coq proof (induction over event lists, histogram algebra, vm_compute over regenerated key sets) "
                  "+ differential correspondence",
    ),
    "C18": dict(
        text="Machine-checked theorems (Coq) on the parser model with explicit Python exception semantics "
             "(Ret | Raise): for EVERY file state (absent, undecodable, any ASCII content) parse_dump and both "
             "parse_core_log variants return a record, never raise, and clear the ok flag with default values "
             "unless extraction succeeded.  Tied to the implementation by a differential correspondence that "
             "compares the raised exception class (or its absence) over 19 fault classes interleaved with "
             "well-formed files on persistent parser objects (histories).",
        design="4 C18",
        note="Trusted: Coq kernel, no axioms; extraction; LogParse.v mirrors toccata/parser.py after fix: cae6d51 "
             "(tied by correspondence); OS failures other than a missing/unreadable file are outside the model.",
        technique="Coq proof (case analysis of every exception path of the mirrored control flow) + differential "
                  "correspondence on a malformed stream",
    ),
}

NOT_YET = "check under construction in this round (see DESIGN.md section 4); not yet claimed"

checks = []
for pid in props:
    if pid in CLAIMED:
        c = CLAIMED[pid]
        checks.append({
            "property_id": pid,
            "quick_cmd": f"./check {pid} --tier quick",
            "thorough_cmd": f"./check {pid} --tier thorough",
            "evidence_file": f"/verif/evidence/{pid}.json",
            "replay_cmd_template": f"./check {pid} --replay {{path}}",
            "engine": "coq+correspondence",
            "level_claimed": {"category": "proof", "text": c["text"], "design_ref": c["design"]},
            "level_note": c["note"],
            "technique": c["technique"],
        })

manifest = {
    "version": 1,
    "setup_cmd": "./setup.sh",
    "hooks": {
        "guard": "GIGUE_VERIF",
        "enable": "no hooks: nothing in /repo reads the guard; ScriptRandom and all drivers live in /verif",
        "baseline_off_cmd": "cd /repo && /venv/bin/python -m pytest -ra -q -p no:cacheprovider --timeout=900 "
                            "--continue-on-collection-errors",
        "source_commits": [],
        "add_only": True,
    },
    "engines": [
        {"name": "coq+correspondence", "path": "/verif/check",
         "serves_properties": sorted(CLAIMED),
         "kind_free_text": "Coq 8.16.1 development (coq/), regenerated tables (tools/gen_tables.py), extracted "
                           "OCaml model and spec drivers (ocaml/), differential correspondence harness (tools/)"},
    ],
    "checks": checks,
    "not_applicable": [{"property_id": p, "reason": NOT_YET} for p in props if p not in CLAIMED],
    "notes": "Machine-checked proof in Coq 8.16.1; see DESIGN.md.  fix: commits in /repo: 7ffa793 5dee1e9 8ac862b "
             "049aa6a 78563f4 cae6d51 (see known_findings.json).",
}
json.dump(manifest, open(os.path.join(VERIF, "MANIFEST.json"), "w"), indent=1)
print("MANIFEST.json: claimed", sorted(CLAIMED))
