"""ScriptRandom — API-level recording / forcing of the `random` module.

install() rebinds the module-level functions gigue uses (choice, choices,
randint, sample, shuffle, gauss, random, randbytes) to wrappers that
  * call the real generator (record mode), or take the RESULT from a policy
    (forced mode) while keeping the real arguments,
  * log one event per call: kind, the ARGUMENTS that determine the
    distribution (population size, weights, bounds, mu/sigma, range), and the
    result expressed independently of object identity (indices).
`random.seed` is left untouched, so a recorded run is exactly the plain seeded
run (verified byte-for-byte by the generator correspondence itself).

Event text format (one per line, fed to the extracted model):
  CH n i                 choice(seq of length n) -> index i
  CS n k w|- i1 .. ik    choices(population n, weights, k) -> indices   (weights: ints "I:a,b" / floats "F:hex,hex")
  RI a b v               randint(a, b) -> v
  SA start stop step k v1 .. vk     sample(range(start, stop, step), k)
  SH n p0 .. pn-1        shuffle(list of n): position j of the result holds original element p_j
  GA mu sigma x          gauss (floats as hex)
  RA u                   random()
  RB n hex               randbytes(n)
"""
import random as _random

_REAL = {}
LOG = []
POLICY = None       # callable(kind, args_dict, index_in_log) -> forced result or None


def _idx(seq, item):
    for i, x in enumerate(seq):
        if x is item:
            return i
    return list(seq).index(item)


def _wfmt(w):
    if w is None:
        return "-"
    if all(isinstance(x, int) and not isinstance(x, bool) for x in w):
        return "I:" + ",".join(str(x) for x in w)
    return "F:" + ",".join(float(x).hex() for x in w)


def _force(kind, args):
    if POLICY is None:
        return None
    return POLICY(kind, args, len(LOG))


def choice(seq):
    n = len(seq)
    f = _force("CH", {"n": n})
    if f is not None and n > 0:
        i = f % n
        r = seq[i]
    else:
        r = _REAL["choice"](seq)
        i = _idx(seq, r)
    LOG.append("CH %d %d" % (n, i))
    return r


def choices(population, weights=None, *, cum_weights=None, k=1):
    n = len(population)
    f = _force("CS", {"n": n, "k": k, "weights": weights})
    if f is not None and n > 0:
        idxs = [j % n for j in f][:k]
        res = [population[j] for j in idxs]
    else:
        res = _REAL["choices"](population, weights, cum_weights=cum_weights, k=k)
        # indices by identity, consuming duplicates of the same object consistently
        idxs = [_idx(population, r) for r in res]
    LOG.append("CS %d %d %s %s" % (n, k, _wfmt(weights), " ".join(map(str, idxs))))
    return res


def randint(a, b):
    f = _force("RI", {"a": a, "b": b})
    v = f if f is not None else _REAL["randint"](a, b)
    LOG.append("RI %d %d %d" % (a, b, v))
    return v


def _as_range(population):
    """An explicit sequence of ints that is an arithmetic progression denotes the same population
    as a range: sample() consumes the generator identically for both (it only uses len and
    indexing), so it is recorded the same way."""
    if isinstance(population, range):
        return population
    if isinstance(population, (list, tuple)) and all(isinstance(x, int) and not isinstance(x, bool) for x in population):
        n = len(population)
        if n == 0:
            return range(0, 0, -1)
        if n == 1:
            return range(population[0], population[0] - 1, -1)
        step = population[1] - population[0]
        if step != 0 and all(population[i + 1] - population[i] == step for i in range(n - 1)):
            return range(population[0], population[0] + n * step, step)
    return None


def randrange(start, stop=None, step=1):
    if stop is None:
        start, stop = 0, start
    if step == 1 and isinstance(start, int) and isinstance(stop, int):
        return randint(start, stop - 1)
    v = _REAL["randrange"](start, stop, step)
    LOG.append("RX %s %s %s" % (start, stop, step))          # not used by gigue: the model rejects it
    return v


def sample(population, k, *, counts=None):
    rng = _as_range(population) if counts is None else None
    if rng is not None:
        population = rng
        f = _force("SA", {"range": population, "k": k})
        res = f if f is not None else _REAL["sample"](population, k)
        LOG.append("SA %d %d %d %d %s" % (population.start, population.stop, population.step, k,
                                          " ".join(map(str, res))))
        return res
    res = _REAL["sample"](population, k, counts=counts)
    LOG.append("SX %d %d" % (len(population), k))          # not used by gigue: the model rejects it
    return res


def shuffle(x):
    orig = list(x)
    f = _force("SH", {"n": len(x)})
    if f is not None:
        x[:] = [orig[j] for j in f]
    else:
        _REAL["shuffle"](x)
    perm, used = [], set()
    for item in x:
        for j, o in enumerate(orig):
            if o is item and j not in used:
                perm.append(j)
                used.add(j)
                break
    LOG.append("SH %d %s" % (len(orig), " ".join(map(str, perm))))


def gauss(mu=0.0, sigma=1.0):
    f = _force("GA", {"mu": mu, "sigma": sigma})
    v = f if f is not None else _REAL["gauss"](mu, sigma)
    LOG.append("GA %s %s %s" % (float(mu).hex(), float(sigma).hex(), float(v).hex()))
    return v


def rand():
    f = _force("RA", {})
    v = f if f is not None else _REAL["random"]()
    LOG.append("RA %s" % float(v).hex())
    return v


def randbytes(n):
    f = _force("RB", {"n": n})
    v = f if f is not None else _REAL["randbytes"](n)
    LOG.append("RB %d %s" % (n, v.hex()))
    return v


_WRAP = {"choice": choice, "choices": choices, "randint": randint, "randrange": randrange, "sample": sample, "shuffle": shuffle,
         "gauss": gauss, "random": rand, "randbytes": randbytes}


def install():
    if _REAL:
        return
    for k, v in _WRAP.items():
        _REAL[k] = getattr(_random, k)
        setattr(_random, k, v)


def uninstall():
    for k, v in _REAL.items():
        setattr(_random, k, v)
    _REAL.clear()


def reset(policy=None):
    global POLICY
    LOG.clear()
    POLICY = policy
