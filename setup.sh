#!/bin/sh
# Build the framework from files on disk only (offline): regenerate the tables
# from /repo, full .vo build of the Coq development, extraction, OCaml drivers.
set -e
cd "$(dirname "$0")"
exec python3 tools/build.py --all
